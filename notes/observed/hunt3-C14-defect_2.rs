// C14 defect 2 (lower confidence - the limit involved is a documented default, see the last
// paragraph): a node that is shared by many holders does not survive the round trip with default
// options: the reader's alias/anchor *ratio heuristic* rejects the serializer's own output.
//
// Violated clause: "Serializing a graph whose nodes are shared through the anchor wrapper types
// emits each shared node once and references to it elsewhere, and deserializing that text rebuilds
// a graph with the same sharing relation" (for all generated graphs "with random sharing").
// README, section "Anchors (Rc/Arc/Weak)": "When anchors are highly repetitive and also large,
// packing them into references can make YAML more human-readable. To support round-tripping, the
// library can also deserialize into these anchor structures; this deserialization is
// identity-preserving."
//
// Minimal input: the crate's own example `examples/graph_swiss_trains.rs`
// (`struct Doc { trains: Vec<Vec<RcAnchor<City>>> }`, three shared cities), scaled from 2 trains to
// 40 trains of three stops each: 3 allocations, 120 references. `to_string` writes three
// definitions (`&a1`, `&a2`, `&a3`) and 117 aliases - "each shared node once and references to it
// elsewhere".
//
// What the crate does: `from_str` (default `Options`) fails with
//     budget breached: AliasAnchorRatio { aliases: 117, anchors: 3 }
// The smallest case is one node with 101 holders (`Vec<RcAnchor<i32>>` of 101 clones of one Rc).
//
// What it should do: read the graph back; the more often a node is shared, the more the text
// produced by the serializer consists of aliases, so "many aliases per anchor" is the signature of
// exactly the data the wrappers exist for, not of an attack: the expansion work is what the other
// limits (`max_nodes`, `AliasLimits::max_total_replayed_events`) already bound.
//
// Cause: src/budget.rs, `BudgetEnforcer::alias_anchor_ratio_breach` (called from `finalize`, and
// from `observe` on `DocumentEnd` under per-document enforcement) with the defaults
// `enforce_alias_anchor_ratio: true`, `alias_anchor_min_aliases: 100`,
// `alias_anchor_ratio_multiplier: 10` in `Budget::default()`; `Options::default()` installs that
// budget for every entry point (`from_str`, `from_slice`, `from_reader`, `from_multiple`, `read`).
//
// Documentation status: the `Budget` rustdoc describes the heuristic and its default (`true`), so
// this can be read as a stated design choice; it is reported because the README promises the round
// trip for "highly repetitive" anchors without mentioning that the default reader refuses them.
//
// Run: cargo test --offline --test defect_2

use serde::{Deserialize, Serialize};
use serde_saphyr::RcAnchor;
use std::rc::Rc;

#[derive(Clone, Serialize, Deserialize)]
struct City {
    name: String,
    population: usize,
}

#[derive(Serialize, Deserialize)]
struct Doc {
    trains: Vec<Vec<RcAnchor<City>>>,
}

fn city(name: &str, population: usize) -> RcAnchor<City> {
    RcAnchor::from(Rc::new(City {
        name: name.to_string(),
        population,
    }))
}

#[test]
fn swiss_trains_example_with_40_trains_reads_back() {
    let zurich = city("Zurich", 436000);
    let bern = city("Bern", 134000);
    let basel = city("Basel", 178000);
    let trains: Vec<Vec<RcAnchor<City>>> = (0..40)
        .map(|_| vec![zurich.clone(), bern.clone(), basel.clone()])
        .collect();
    let doc = Doc { trains };

    let yaml = serde_saphyr::to_string(&doc).unwrap();
    assert_eq!(yaml.matches('&').count(), 3, "every city is written once");
    assert_eq!(yaml.matches('*').count(), 117, "and referenced elsewhere");

    let back: Doc = serde_saphyr::from_str(&yaml)
        .unwrap_or_else(|e| panic!("the crate's own output does not read back: {e}"));
    assert_eq!(back.trains.len(), 40);
    for train in &back.trains {
        for (stop, first) in train.iter().zip(&back.trains[0]) {
            assert!(Rc::ptr_eq(&stop.0, &first.0));
        }
    }
    assert!(!Rc::ptr_eq(&back.trains[0][0].0, &back.trains[0][1].0));
}

#[test]
fn one_node_with_101_holders_reads_back() {
    let shared = Rc::new(7i32);
    let holders: Vec<RcAnchor<i32>> = (0..101).map(|_| RcAnchor(shared.clone())).collect();
    let yaml = serde_saphyr::to_string(&holders).unwrap();
    let back: Vec<RcAnchor<i32>> = serde_saphyr::from_str(&yaml)
        .unwrap_or_else(|e| panic!("the crate's own output does not read back: {e}"));
    assert_eq!(back.len(), 101);
    assert!(back.iter().all(|h| Rc::ptr_eq(&h.0, &back[0].0)));
}
