// C17 defect 2: reader snippets of UTF-16 input show the raw UTF-16 bytes, marker under the
// wrong character
//
// Violated: "includes the line the location refers to with the marker under the reported
//   column ... This holds ... for snippets taken from the reader's recent-bytes window".
//
// Minimal input: the document "x: 1\ny: zzz\n" encoded as UTF-16LE with a byte order mark
//   (FF FE 78 00 3A 00 ...), read with `from_reader` into `struct P { x: i32, y: i32 }`.
//   The reader entry points accept UTF-16 on purpose (src/buffered_input.rs uses
//   encoding_rs_io with BOM sniffing; there is a unit test `buffered_input_handles_utf16le_bom`).
//
// What the crate does: parsing works and the location is right (line 2 column 4), but the
//   snippet is
//       1 | ��x?:? ?1?
//       2 | ?y?:? ?z?z?z?
//         |    ^ invalid i32
//       3 | ?
//   i.e. the *undecoded* bytes, lossily read as UTF-8 (every NUL shown as '?'), with the marker
//   under the 4th character of that garbage (a '?', the high byte of ':') instead of under 'z'.
//   A code unit whose low or high byte is 0x0A (e.g. U+010A, U+0A0A) additionally splits the
//   "line" in the ring and shifts all following line numbers.
//
// What it should do: show `y: zzz` with the marker under the first `z` (snippet taken from the
//   decoded text), or - at the very least - no snippet at all when the bytes in the ring are
//   not UTF-8.
//
// Cause: src/lib.rs `from_reader_with_options` wraps the *raw* reader in `SharedRingReader`
//   (src/ring_reader.rs) and the decoder (src/buffered_input.rs
//   `buffered_input_from_reader_with_limit`) sits above it; `attach_snippet` then does
//   `String::from_utf8_lossy(&snapshot.bytes)` on encoded bytes while `Location` columns count
//   decoded characters.
//
// Run: cargo test --offline --test defect_2

use serde::Deserialize;

#[derive(Debug, Deserialize)]
#[allow(dead_code)]
struct P {
    x: i32,
    y: i32,
}

fn check(bytes: Vec<u8>, what: &str) {
    let err = serde_saphyr::from_reader::<_, P>(std::io::Cursor::new(bytes)).unwrap_err();
    let loc = err.location().expect("location");
    assert_eq!((loc.line(), loc.column()), (2, 4), "{what}: location");
    let rendered = err.to_string();

    // Either there is no snippet at all ...
    let lines: Vec<&str> = rendered.lines().collect();
    let Some(idx) = lines.iter().position(|l| l.trim_start().starts_with("2 |")) else {
        assert!(
            !rendered.contains(" | "),
            "{what}: source lines are shown, but not line 2:\n{rendered}"
        );
        return;
    };
    // ... or line 2 is shown as it is, with the marker under column 4.
    let src = lines[idx];
    assert!(
        src.ends_with("| y: zzz"),
        "{what}: line 2 of the document is `y: zzz`, the report shows {src:?}:\n{rendered}"
    );
    let marker = lines.get(idx + 1).copied().unwrap_or("");
    let caret = marker.find('^').unwrap_or_else(|| panic!("{what}: no marker:\n{rendered}"));
    assert_eq!(
        src.get(caret..caret + 1),
        Some("z"),
        "{what}: marker is not under the first `z`:\n{rendered}"
    );
    assert_eq!(src.find('z'), Some(caret), "{what}: marker column:\n{rendered}");
}

#[test]
fn utf16le_reader_snippet_shows_decoded_line() {
    let yaml = "x: 1\ny: zzz\n";
    let mut bytes = vec![0xFF, 0xFE];
    for u in yaml.encode_utf16() {
        bytes.extend_from_slice(&u.to_le_bytes());
    }
    check(bytes, "UTF-16LE");
}

#[test]
fn utf16be_reader_snippet_shows_decoded_line() {
    let yaml = "x: 1\ny: zzz\n";
    let mut bytes = vec![0xFE, 0xFF];
    for u in yaml.encode_utf16() {
        bytes.extend_from_slice(&u.to_be_bytes());
    }
    check(bytes, "UTF-16BE");
}
