// C08 defect 1: nested merge values - peak heap grows as (merge nesting depth) x (nodes),
// not as input size + budget-counted events.
//
// Violated clause: "peak heap use stays within a fixed multiple of input size plus
// budget-counted events" (family: wide merges / deeply nested containers), and the mechanism the
// property relies on: "node capture for keys and merges buffers one subtree at a time".
//
// Minimal input (d levels of `<<:` around one mapping of n entries, flow style, d <= 255):
//
//     {k0: 0, <<: {k1: 1, <<: {k2: 2, <<: ... {z0: 0, z1: 1, ..., z(n-1): n-1} ... }}}
//
// No alias, no anchor: the budget counts about 5*d + 2*n events and the input is ~27 KB for
// d = 200, n = 2000. The unchanged crate needs ~200 MB of heap for it (and ~0.5 s; d = 1 needs
// 4 MB and 4 ms). With n near the default node limit (max_nodes = 250_000) the same shape asks
// for > 10 GB from a 2.5 MB document that is inside every default limit.
//
// Expected: heap within 64 KiB + 16 x (input bytes + 96 B x counted events)  (= 8 MB here),
// and not more than a small multiple of the d = 1 cost.
//
// Cause: src/de.rs, pending_entries_from_live_events / pending_entries_from_events /
// collect_entries_from_map. Each `<<` level calls capture_node() on the whole merge value (a
// fresh Vec<Ev> with the complete remaining subtree), wraps it in a ReplayEvents (whose buffer
// keeps one slot per event until it is dropped), and recurses: the next `<<` inside it captures
// the remaining subtree again from that replay. All d buffers (plus the PendingEntry lists built
// from them) are alive at the same time, so memory and copying are d x n. The same happens for a
// merge value nested in sequences, `<<: [[[[ {..n entries..} ]]]]` (160 MB for d = 200).
//
// Heap is observed through /proc/self/status (VmHWM after resetting it via
// /proc/self/clear_refs): the crate forbids unsafe code also in its tests, so a counting
// allocator cannot be installed here; the effect is 25x the bound, far outside RSS noise.
// Linux only. Run: cargo test --offline --test defect_1

use serde::de::IgnoredAny;
use std::cell::Cell;
use std::rc::Rc;

fn status(field: &str) -> usize {
    let s = std::fs::read_to_string("/proc/self/status").expect("needs Linux /proc");
    for l in s.lines() {
        if let Some(rest) = l.strip_prefix(field) {
            let kb: usize = rest
                .trim_start_matches(':')
                .trim()
                .trim_end_matches("kB")
                .trim()
                .parse()
                .unwrap();
            return kb * 1024;
        }
    }
    panic!("{field} not found");
}

/// Peak resident-set growth while `f` runs.
fn peak_growth<R>(f: impl FnOnce() -> R) -> (R, usize) {
    let _ = std::fs::write("/proc/self/clear_refs", "5"); // reset VmHWM
    let base = status("VmRSS");
    let r = f();
    (r, status("VmHWM").saturating_sub(base))
}

fn document(d: usize, n: usize) -> String {
    let mut y = String::new();
    for k in 0..d {
        y.push_str(&format!("{{k{k}: {k}, <<: "));
    }
    y.push('{');
    for i in 0..n {
        if i > 0 {
            y.push_str(", ");
        }
        y.push_str(&format!("z{i}: {i}"));
    }
    y.push('}');
    for _ in 0..d {
        y.push('}');
    }
    y.push('\n');
    y
}

/// Returns (peak heap growth, events counted by the budget).
fn run(d: usize, n: usize) -> (usize, usize, usize) {
    let yaml = document(d, n);
    let events = Rc::new(Cell::new(0usize));
    let seen = events.clone();
    let options = serde_saphyr::Options::default().with_budget_report(move |r| seen.set(r.events));
    let (res, peak) =
        peak_growth(|| serde_saphyr::from_str_with_options::<IgnoredAny>(&yaml, options));
    res.expect("the document is within all default limits and must be accepted");
    (peak, events.get(), yaml.len())
}

#[test]
fn nested_merge_values_do_not_multiply_heap_by_depth() {
    // (A roomy stack: in an unoptimised build the recursion through 200 merge levels also
    // overflows the 2 MiB stack of a test thread, which would hide the heap measurement.)
    std::thread::Builder::new()
        .stack_size(256 << 20)
        .spawn(check)
        .unwrap()
        .join()
        .unwrap();
}

fn check() {
    let n = 2000;
    let (flat_peak, flat_events, flat_len) = run(1, n);
    let (deep_peak, deep_events, deep_len) = run(200, n);
    println!("d=1:   input {flat_len} B, {flat_events} events, peak heap growth {flat_peak} B");
    println!("d=200: input {deep_len} B, {deep_events} events, peak heap growth {deep_peak} B");

    let bound = 64 * 1024 + 16 * (deep_len + 96 * deep_events);
    assert!(
        deep_peak <= bound,
        "peak heap {deep_peak} B for a {deep_len} B document with {deep_events} counted events \
         exceeds 64 KiB + 16 x (input + 96 B x events) = {bound} B"
    );
    assert!(
        deep_peak <= 4 * flat_peak.max(bound / 4),
        "200 levels of `<<:` around the same {n} entries cost {deep_peak} B, the flat document {flat_peak} B"
    );
}
