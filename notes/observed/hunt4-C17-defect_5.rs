// DEFECT 5 (C17, "snippet on / off" dimension): `Error::without_snippet()` does not switch the
// snippet off for the error returned by the multi-document validating entry points
// (`from_multiple_valid`, `from_multiple_with_options_valid`, `from_multiple_validate`,
// `from_multiple_with_options_validate` and the `from_slice_multiple_*` wrappers): rendering
// the "no snippet" version still prints every source window.
//
// Needs optional features: run with
//   cargo test --offline --features garde,validator,miette,robotics --test defect_5
//
// Contradicted documentation: `Error::without_snippet` - "Provide 'no snippet' version for
// cases when snippet rendering is not desired", README "Snippets": "If not desired, snippets
// can be removed for a specific error using `without_snippet`". (The property quantifies over
// "snippet on / off"; with the snippet off the report must be the plain, location-suffixed
// message - compare the already repaired `from_reader_with_options` ignoring
// `with_snippet = false`.)
//
// Minimal input:  "n: 1\n---\nn: 2\n"  with  struct Cfg { #[garde(range(min = 10))] n: i32 }.
// `from_multiple_valid::<Cfg>(..).unwrap_err().without_snippet().to_string()` gives
//
//     validation failed for 2 document(s)
//     error: line 1 column 4: validation error: lower than 10 for `n`
//      --> (defined):1:4
//       |
//     1 | n: 1
//       |    ^ validation error: lower than 10 for `n`
//     ...
//
// Expected (what `Options { with_snippet: false }`, `crop_radius: 0`, `SnippetMode::Off` and
// `without_snippet()` on a single-document validation error all give):
//
//     validation failed for 2 document(s)
//     validation error at n: lower than 10 at line 1, column 4
//
//     validation error at n: lower than 10 at line 3, column 4
//
// Cause: src/lib.rs `from_multiple_with_options_valid` / `from_multiple_with_options_validate`
// wrap every per-document error with `maybe_with_snippet` and put the wrapped errors inside
// `Error::ValidationErrors { errors }` / `Error::ValidatorErrors { errors }`;
// src/de_error.rs `Error::without_snippet` only peels a top-level `Error::WithSnippet`, and
// `fmt_error_rendered` renders the nested `WithSnippet` errors with their windows.

#![cfg(all(feature = "garde", feature = "validator"))]

use serde::Deserialize;

#[derive(Debug, Deserialize, garde::Validate)]
#[allow(dead_code)]
struct GardeCfg {
    #[garde(range(min = 10))]
    n: i32,
}

#[derive(Debug, Deserialize, validator::Validate)]
#[allow(dead_code)]
struct ValidatorCfg {
    #[validate(range(min = 10))]
    n: i32,
}

const YAML: &str = "n: 1\n---\nn: 2\n";

fn assert_plain(rendered: &str) {
    assert!(
        !rendered.contains("-->") && !rendered.contains(" | n: "),
        "the 'no snippet' version of the error still shows source windows:\n{rendered}"
    );
}

#[test]
fn garde_multi_document_error_without_snippet_is_plain() {
    // sanity: for a single document `without_snippet()` does give the plain form
    let single = serde_saphyr::from_str_valid::<GardeCfg>("n: 1\n").unwrap_err();
    assert!(single.to_string().contains("1 | n: 1"));
    assert_plain(&single.without_snippet().to_string());

    let err = serde_saphyr::from_multiple_valid::<GardeCfg>(YAML).unwrap_err();
    let plain = err.without_snippet().to_string();
    assert!(plain.contains("line 1") && plain.contains("line 3"), "{plain}");
    assert_plain(&plain);
}

#[test]
fn validator_multi_document_error_without_snippet_is_plain() {
    let err = serde_saphyr::from_multiple_validate::<ValidatorCfg>(YAML).unwrap_err();
    let plain = err.without_snippet().to_string();
    assert!(plain.contains("line 1") && plain.contains("line 3"), "{plain}");
    assert_plain(&plain);
}
