// DEFECT 3 (C06): a QUOTED scalar `"null"`, `'~'` or `""` is taken for a null when it is the
// only key of a mapping that is itself used as a mapping key; the entry is rewritten and the
// real value of the outer entry is silently dropped.
//
// Property clause violated:
//   "Quoted scalars are never taken for null, numbers or booleans by string targets"
//   (the inner key is read by a String target), and "A scalar is interpreted from its text,
//   style, tag, ... only" - here the style is ignored.
//
// Minimal input:
//     {"null": 5}: 7
//   read as BTreeMap<BTreeMap<String, i32>, i32>
//   crate:   {{}: 5}            - the key became an EMPTY map, the value became the inner 5,
//                                 the outer value 7 and the key text "null" are lost, no error
//   should:  {{"null": 5}: 7}   (what `{"a": 5}: 7` gives with "a": {{"a": 5}: 7})
//   Same with `? {'~': 5}\n: 7` and `? {"": 5}\n: 7`.
//
// Cause: src/de.rs, `deserialize_map` -> `MA::next_key_seed`: the "explicit empty key captured
// as a one-entry mapping { null: V }" special case (`kemn_one_entry_nullish`, and the same test
// in the `pending` branch) decides null-ness from the key FINGERPRINT, which holds only
// `value` and `tag` (`KeyFingerprint::Scalar { value, tag }`) - the scalar style is not
// consulted: `sv.is_empty() || sv == "~" || sv.eq_ignore_ascii_case("null")`.
// A double/single-quoted "null" therefore triggers the rewrite
// `key := {}` / `value := inner value`, discarding the outer value node.
//
// Run: cargo test --offline --test defect_3

use std::collections::BTreeMap;

type M = BTreeMap<BTreeMap<String, i32>, i32>;

fn expect(inner_key: &str) -> M {
    let mut k = BTreeMap::new();
    k.insert(inner_key.to_owned(), 5);
    let mut m = BTreeMap::new();
    m.insert(k, 7);
    m
}

#[test]
fn control_ordinary_inner_key() {
    let m: M = serde_saphyr::from_str("{\"a\": 5}: 7").unwrap();
    assert_eq!(m, expect("a"));
}

#[test]
fn quoted_null_inner_key_is_a_string() {
    let m: M = serde_saphyr::from_str("{\"null\": 5}: 7").unwrap();
    assert_eq!(m, expect("null"));
}

#[test]
fn quoted_tilde_inner_key_is_a_string() {
    let m: M = serde_saphyr::from_str("? {'~': 5}\n: 7").unwrap();
    assert_eq!(m, expect("~"));
}

#[test]
fn quoted_empty_inner_key_is_a_string() {
    let m: M = serde_saphyr::from_str("? {\"\": 5}\n: 7").unwrap();
    assert_eq!(m, expect(""));
}
