// C07 defect 3: under per-document enforcement (streaming iterator) the report handed to the
// callback after an alias/anchor-ratio breach says `breached: None`.
//
// Violated clauses:
//   "the usage report handed to the callback" must be accurate; mechanism "report callbacks and
//   delayed breach surfaced at the end (src/live_events.rs finish; src/options.rs
//   with_budget_report)". Crate documentation: `BudgetReport::breached` is "`Some(..)` if a limit
//   was exceeded; `None` if all budgets were respected", and `Options::with_budget_report`: "The
//   callback is invoked with the final BudgetReport after parsing completes, both on success and
//   when the budget is breached."
//
// Minimal input: the one-document stream "[&a 1, *a, *a]\n" with
// `alias_anchor_min_aliases: 1, alias_anchor_ratio_multiplier: 1` (2 aliases > 1 x 1 anchor).
//
// What the crate does: `from_reader_with_options` (all-content enforcement) fails with
// `Budget { AliasAnchorRatio { aliases: 2, anchors: 1 } }` and the callback receives a report with
// `breached: Some(AliasAnchorRatio { aliases: 2, anchors: 1 })`. `read_with_options` (per-document
// enforcement) yields the same budget error, calls the callback - and the report it hands over
// has `breached: None`, i.e. it claims that all budgets were respected, for the same document,
// the same budget and the same counters (aliases: 2, anchors: 1).
//
// What it should do: the report delivered after the ratio breach carries the breach, as it does
// under all-content enforcement.
//
// Cause: src/budget.rs `BudgetEnforcer::observe`, `Event::DocumentEnd` arm sets
// `ratio_breach_reported = true` and returns the breach without storing it in
// `self.report.breached`; `finalize` then skips the ratio evaluation because of that flag, so the
// report produced by src/live_events.rs `finish` (called from the iterator's error branch in
// src/lib.rs `read_with_options`) has `breached: None`.

use serde_saphyr::budget::{Budget, BudgetBreach, BudgetReport};
use serde_saphyr::{Error, Options};
use std::cell::RefCell;
use std::rc::Rc;

const YAML: &str = "[&a 1, *a, *a]\n";

fn options() -> (Options, Rc<RefCell<Vec<BudgetReport>>>) {
    let seen: Rc<RefCell<Vec<BudgetReport>>> = Rc::new(RefCell::new(Vec::new()));
    let sink = seen.clone();
    let mut options = Options::default();
    options.budget = Some(Budget {
        enforce_alias_anchor_ratio: true,
        alias_anchor_min_aliases: 1,
        alias_anchor_ratio_multiplier: 1,
        ..Budget::default()
    });
    (
        options.with_budget_report(move |r| sink.borrow_mut().push(r)),
        seen,
    )
}

#[test]
fn all_content_reference_behaviour() {
    // Passes on the unchanged crate: shows what the report looks like under all-content policy.
    let (opts, seen) = options();
    let res: Result<Vec<i32>, Error> =
        serde_saphyr::from_reader_with_options(std::io::Cursor::new(YAML.as_bytes()), opts);
    let err = res.unwrap_err();
    assert!(matches!(
        err.without_snippet(),
        Error::Budget { breach: BudgetBreach::AliasAnchorRatio { aliases: 2, anchors: 1 }, .. }
    ));
    let reports = seen.borrow();
    assert_eq!(reports.len(), 1);
    assert!(matches!(
        reports[0].breached,
        Some(BudgetBreach::AliasAnchorRatio { aliases: 2, anchors: 1 })
    ));
}

#[test]
fn per_document_report_after_a_ratio_breach_carries_the_breach() {
    let (opts, seen) = options();
    let mut reader = std::io::Cursor::new(YAML.as_bytes().to_vec());
    let items: Vec<Result<Vec<i32>, Error>> =
        serde_saphyr::read_with_options(&mut reader, opts).take(5).collect();
    // the document breaches the ratio: the stream reports it
    assert!(
        items.iter().any(|r| matches!(
            r,
            Err(Error::Budget { breach: BudgetBreach::AliasAnchorRatio { aliases: 2, anchors: 1 }, .. })
        )),
        "{items:?}"
    );
    let reports = seen.borrow();
    assert_eq!(reports.len(), 1, "callback invoked once: {reports:?}");
    assert_eq!((reports[0].aliases, reports[0].anchors), (2, 1));
    assert!(
        matches!(
            reports[0].breached,
            Some(BudgetBreach::AliasAnchorRatio { aliases: 2, anchors: 1 })
        ),
        "the report delivered after the breach claims that no limit was exceeded: {:?}",
        reports[0]
    );
}
