// DEFECT 4 (property C05): null detection for Option<T> (and for the "skip null documents" rule
// of from_multiple / read) ignores the tag of the scalar, so a `!Variant` enum notation with an
// empty / `~` payload - and an explicit `!!str null` string - is swallowed as None instead of
// being handed to T.
//
// Violated clause: "option/null handling and all enum notations (`Variant`,
// `{Variant: payload}`, `!Variant payload`) are honoured."
//
// Minimal input:   !C        target: Option<E>, enum E { A(i32), C, O(Option<i32>) }
//
// What the crate does:
//   from_str::<E>("!C")                  -> Ok(C)            (the notation is supported)
//   from_str::<Option<E>>("!C")          -> Ok(None)         (should be Some(C))
//   from_str::<Option<E>>("!O ~")        -> Ok(None)         (should be Some(O(None)))
//   from_str::<Vec<Option<E>>>("[!C, !A 1]") -> [None, Some(A(1))]
//   from_str::<String>("!!str null")     -> Ok("null")       (explicit string)
//   from_str::<Option<String>>("!!str null") -> Ok(None)     (should be Some("null"))
//   from_multiple::<E>("!C\n---\n!A 1\n") -> [A(1)]          (the `!C` document vanishes)
//
// What it should do: a scalar that carries a tag other than `!!null` is a value; Option<T> must
// answer Some(..) and let T decide (as the code already does for `!!binary`), and the
// multi-document readers must not discard it as an "empty document".
//
// Cause: src/de.rs deserialize_option(): the arm
//   `Some(Ev::Scalar { value: s, style, tag, .. }) if tag != &SfTag::Binary
//        && scalar_is_nullish_for_option(s, style)`
// looks only at text and style (src/parse_scalars.rs scalar_is_nullish_for_option), so tag
// `Other` (`!C`) and tag `String` (`!!str`) count as null. The same text-only test
// (`scalar_is_nullish(s, style)`) decides which documents src/lib.rs
// from_multiple_with_options / read_with_options skip.
//
// Run: cargo test --offline --test defect_4      (no optional features needed)

use serde::Deserialize;

#[derive(Debug, Deserialize, PartialEq)]
enum E {
    A(i32),
    C,
    O(Option<i32>),
}

#[test]
fn control_notation_is_supported_without_option() {
    assert_eq!(serde_saphyr::from_str::<E>("!C").unwrap(), E::C);
    assert_eq!(serde_saphyr::from_str::<E>("!C ~").unwrap(), E::C);
    assert_eq!(serde_saphyr::from_str::<E>("!O ~").unwrap(), E::O(None));
    assert_eq!(serde_saphyr::from_str::<Option<E>>("!A 1").unwrap(), Some(E::A(1)));
    assert_eq!(serde_saphyr::from_str::<Option<E>>("C").unwrap(), Some(E::C));
    assert_eq!(serde_saphyr::from_str::<String>("!!str null").unwrap(), "null");
}

#[test]
fn tagged_unit_variant_inside_option() {
    let r = serde_saphyr::from_str::<Option<E>>("!C").unwrap();
    assert_eq!(r, Some(E::C), "`!C` into Option<E>");
}

#[test]
fn tagged_variant_with_null_payload_inside_option() {
    let r = serde_saphyr::from_str::<Option<E>>("!O ~").unwrap();
    assert_eq!(r, Some(E::O(None)), "`!O ~` into Option<E>");
}

#[test]
fn tagged_variants_as_sequence_elements() {
    let r = serde_saphyr::from_str::<Vec<Option<E>>>("[!C , !A 1, C]").unwrap();
    assert_eq!(r, vec![Some(E::C), Some(E::A(1)), Some(E::C)]);
}

#[test]
fn explicit_string_null_inside_option() {
    let r = serde_saphyr::from_str::<Option<String>>("!!str null").unwrap();
    assert_eq!(r, Some("null".to_string()), "`!!str null` into Option<String>");
}

#[test]
fn tagged_documents_are_not_skipped_as_empty() {
    let r = serde_saphyr::from_multiple::<E>("!C\n---\n!A 1\n---\n!O ~\n").unwrap();
    assert_eq!(r, vec![E::C, E::A(1), E::O(None)]);
}
