// Observed on the UNCHANGED crate (property C19, clause "ordinary float literals keep exactly
// the value they have without the extension"). NEEDS feature `robotics`:
//   cargo test --features garde,validator,miette,robotics --test observed_defect_2
//
// Without angle_conversions the float parser falls back to Rust's `str::parse::<f64>()`, which
// accepts the spelling `infinity` (any case, optional sign) besides `inf` / `nan`. The robotics
// evaluator knows the identifiers pi, tau, inf, nan only, so `infinity` / `-Infinity` read as
// +-inf with the option off and are "unknown identifier" errors with the option on.
// (Whether `infinity` should be a float at all is a separate question - C06 - but switching the
// option on changes the outcome of a scalar that contains no robotics construct.)
// This test FAILS on the unchanged worktree.
#![cfg(feature = "robotics")]

use serde::Deserialize;
use serde_saphyr::from_str_with_options;

#[derive(Debug, Deserialize)]
struct F64 {
    x: f64,
}

fn read(scalar: &str, on: bool) -> Result<u64, String> {
    let yaml = format!("x: {scalar}\n");
    let options = serde_saphyr::options! { angle_conversions: on };
    from_str_with_options::<F64>(&yaml, options)
        .map(|v| v.x.to_bits())
        .map_err(|e| e.to_string())
}

#[test]
fn infinity_spelling_on_vs_off() {
    for (s, want) in [
        ("infinity", f64::INFINITY),
        ("Infinity", f64::INFINITY),
        ("-INFINITY", f64::NEG_INFINITY),
        ("+infinity", f64::INFINITY),
    ] {
        let off = read(s, false);
        let on = read(s, true);
        assert_eq!(off, Ok(want.to_bits()), "option off reads {s:?}");
        assert_eq!(on, off, "{s:?}: switching angle_conversions on changed the outcome");
    }
}
