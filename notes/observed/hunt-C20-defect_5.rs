// C20 defect 5: wrappers in / next to a complex-key entry (`? key` / `: value`) change the data
// when the VALUE of that entry is a block sequence.
//
// Violated clause: "The presentation wrappers (... literal and folded string, inline comment ...)
// ... affect only the layout of the emitted document: it deserializes to the same data as without
// them, both into the wrapped type and into the bare type".
//
// (a) LitStr / LitString with a leading blank inside the value sequence.
//     Input: BTreeMap<Vec<i32>, Vec<LitString>> { [1, 2]: [" x\ny"] }. The crate emits
//         ? - 1
//           - 2
//         :
//         - |2-
//              x
//             y
//     The dash of the value sequence is written in column 0, but the indentation indicator (2)
//     and the body indentation (4 columns) are computed for a sequence one level deeper, so two
//     extra blanks become content of every line: the string reads back as "   x\n  y".
//     Without the wrapper (`Vec<String>`) the item is written as `- " x\ny"` and reads back
//     unchanged.
// (b) Commented around a scalar map key. The key is then written in the `? key # comment` form
//     and a block-sequence value with two or more items is emitted as
//         ? k # c
//         :
//         - 3
//           - 4
//     which reads back as {k: ["3 - 4"]} (the i32 reader rejects it); without the wrapper the
//     document is `k:\n  - 3\n  - 4`.
//
// Expected: the value sequence's dashes all in the column the sequence depth stands for (then
// indicator and body of (a) are right and (b) is an ordinary sequence).
//
// Cause: src/ser.rs, MapSer::serialize_value, `last_key_complex` branch: it sets
// `pending_inline_map = true` after writing ":"; serialize_seq gives the sequence depth
// `base + 1`, SeqSer::serialize_element ends the ":" line for the first element but then skips
// `write_indent` because `self.first && pending_inline_map`, so the first dash lands in column 0
// while `after_dash_depth` / later items use the real depth.
//
// Run: cargo test --offline --test defect_5

use serde::ser::{Serialize, SerializeMap, Serializer};
use serde_saphyr::{Commented, LitString};
use std::collections::BTreeMap;

#[test]
fn litstring_with_leading_blank_in_value_sequence_of_a_complex_key() {
    // reference: bare strings
    let mut bare: BTreeMap<Vec<i32>, Vec<String>> = BTreeMap::new();
    bare.insert(vec![1, 2], vec![" x\ny".to_string()]);
    let reference = serde_saphyr::to_string(&bare).unwrap();
    let back_ref: BTreeMap<Vec<i32>, Vec<String>> = serde_saphyr::from_str(&reference).unwrap();
    assert_eq!(back_ref, bare, "reference document:\n{reference}");

    let mut wrapped: BTreeMap<Vec<i32>, Vec<LitString>> = BTreeMap::new();
    wrapped.insert(vec![1, 2], vec![LitString(" x\ny".to_string())]);
    let yaml = serde_saphyr::to_string(&wrapped).unwrap();
    // into the bare type
    let back: BTreeMap<Vec<i32>, Vec<String>> = serde_saphyr::from_str(&yaml)
        .unwrap_or_else(|e| panic!("does not parse: {e}\n{yaml}"));
    assert_eq!(back, bare, "LitString changed the text, document:\n{yaml}");
    // into the wrapped type
    let back_w: BTreeMap<Vec<i32>, Vec<LitString>> = serde_saphyr::from_str(&yaml).unwrap();
    assert_eq!(back_w, wrapped);
}

/// A mapping given as a list of entries (the keys need neither `Ord` nor `Hash`).
struct Entries<K, V>(Vec<(K, V)>);
impl<K: Serialize, V: Serialize> Serialize for Entries<K, V> {
    fn serialize<S: Serializer>(&self, s: S) -> Result<S::Ok, S::Error> {
        let mut m = s.serialize_map(Some(self.0.len()))?;
        for (k, v) in &self.0 {
            m.serialize_entry(k, v)?;
        }
        m.end()
    }
}

#[test]
fn commented_key_with_block_sequence_value() {
    let reference = serde_saphyr::to_string(&Entries(vec![("k", vec![3, 4])])).unwrap();
    let back_ref: BTreeMap<String, Vec<i32>> = serde_saphyr::from_str(&reference).unwrap();
    assert_eq!(back_ref.get("k"), Some(&vec![3, 4]));

    let yaml = serde_saphyr::to_string(&Entries(vec![(
        Commented("k", "the key".to_string()),
        vec![3, 4],
    )]))
    .unwrap();
    let back: BTreeMap<String, Vec<i32>> = serde_saphyr::from_str(&yaml)
        .unwrap_or_else(|e| panic!("Commented key broke the document: {e}\n{yaml}"));
    assert_eq!(back, back_ref, "document:\n{yaml}");
}
