// C17 defect 5: an error of a nested parse (another serde_saphyr::from_str call made inside the
// closure of with_deserializer_from_str*) is re-rendered against the OUTER document: the report
// shows a line of the wrong text with the marker under an unrelated character.
//
// Violated clause: "includes the line the location refers to with the marker under the reported
// column" (the property is stated for every call history).
//
// Minimal sequence:
//     let outer = "name: demo\nembedded: |\n  x: 1\n  y: oops\nother: 3\n";
//     with_deserializer_from_str(outer, |de| {
//         let o = Outer::deserialize(de)?;
//         let inner: Inner = serde_saphyr::from_str(&o.embedded)?;   // fails: y is not an i32
//         Ok((o, inner))
//     })
// The inner error is located at line 2 column 4 of the embedded document "x: 1\ny: oops\n" and
// already carries the right snippet ("2 | y: oops" / "^ invalid i32").
// What the crate does:
//     error: line 2 column 4: invalid i32
//       |
//     1 | name: demo
//     2 | embedded: |
//       |    ^ invalid i32
// What it should do: keep the snippet the error already has (or show none).
//
// Cause: src/de/with_deserializer.rs passes every error returned by the closure through
// crate::maybe_with_snippet(e, input, ..); src/de_error.rs Error::with_snippet() then throws the
// existing `Error::WithSnippet` wrapper away ("keep the innermost error and rebuild the wrapper
// with freshly cropped source window") and crops the *outer* input at the inner error's
// line / column.
//
// Run: cargo test --offline --test defect_5

use serde::Deserialize;

#[derive(Debug, Deserialize)]
#[allow(dead_code)]
struct Outer {
    name: String,
    embedded: String,
    other: i32,
}

#[derive(Debug, Deserialize)]
#[allow(dead_code)]
struct Inner {
    x: i32,
    y: i32,
}

/// The source line printed directly above the first marker line.
fn line_above_caret(rendered: &str) -> Option<String> {
    let lines: Vec<&str> = rendered.lines().collect();
    for i in 1..lines.len() {
        let l = lines[i];
        let Some(bar) = l.find('|') else { continue };
        if l[..bar].trim().is_empty() && l[bar + 1..].trim_start().starts_with('^') {
            return Some(lines[i - 1].to_string());
        }
    }
    None
}

#[test]
fn nested_parse_error_keeps_its_own_snippet() {
    let outer = "name: demo\nembedded: |\n  x: 1\n  y: oops\nother: 3\n";
    let err = serde_saphyr::with_deserializer_from_str(outer, |de| {
        let o = Outer::deserialize(de)?;
        let inner: Inner = serde_saphyr::from_str(&o.embedded)?;
        Ok((o, inner))
    })
    .unwrap_err();

    // what the inner parse reports on its own
    let direct = serde_saphyr::from_str::<Inner>("x: 1\ny: oops\n").unwrap_err();
    assert_eq!(err.location(), direct.location());
    assert!(line_above_caret(&direct.to_string()).unwrap().contains("y: oops"));

    let rendered = err.to_string();
    if let Some(line) = line_above_caret(&rendered) {
        assert!(
            line.contains("y: oops"),
            "the marker is drawn under a line of another document:\n{rendered}"
        );
    }
}
