// Defect 4 (property C10, reader side): the I/O fault / cap breach is replaced by a bogus
// syntax (or EOF) error when the cut falls inside a flow collection or a quoted scalar -
// notably anywhere inside a JSON-style document.
//
// Violated: the title of the property - "I/O faults and the input-size cap are never swallowed"
// - together with the crate's own documentation of `Budget::max_reader_input_bytes`
// (src/budget.rs): "If the limit is exceeded, serde_saphyr::IOError is returned, with cause set
// to std::IO::Error having ErrorKind::FileTooLarge" (tests/limit_input_cap.rs asserts exactly
// that kind, but only for a cut inside a block mapping), and of `Error::IOError`.
//
// Minimal inputs (all of them perfectly valid YAML):
//     {"a": 1, "b": [1, 2, 3]}             max_reader_input_bytes = 15, or reader error after 15 bytes
//     (a 6 KB one-line or multi-line JSON object, cap 3000: same)
//     - 'item one'
//     - 'item two is here'                 max_reader_input_bytes = 20
//     a: 1                                 max_reader_input_bytes = 0
//
// What the crate does: returns `unclosed bracket '['` / `unclosed bracket '{' at line 1,
// column 1` / `unclosed quote` / `unexpected end of input`, pointing into the well-formed file;
// the std::io::Error (the reader's own error, or the FileTooLarge marker) is dropped together
// with the LiveEvents value and never shown to the caller. A caller that matches on
// `Error::IOError { cause }` to tell "input too large / transport failed" from "malformed
// YAML" - as the docs tell it to - is misled into reporting a syntax error in a valid document.
// `from_reader*`, `read*` and `with_deserializer_from_reader*` all behave the same.
//
// What it should do: return `Error::IOError` carrying the original cause.
//
// Cause: src/live_events.rs `LiveEvents::next_impl`:
//     let (raw, span) = item.map_err(Error::from_scan_error)?;
// The shared error cell is only looked at *before* pulling from the parser (`Events::next` /
// `peek`) and in `finish()`. When the pull itself is the one during which `ChunkedChars`
// stored the error and signalled end of input, the scanner fails on the artificial EOF and that
// ScanError is returned without consulting the cell; every reader entry point then returns early
// on `Err` without calling `finish()`. For the empty prefix (cap 0 / failure on the first read
// with a non-nullable target) src/lib.rs `from_reader_with_options` additionally replaces
// whatever error occurred by `Error::eof()` because `synthesized_null_emitted()` is true.
//
// Run: cargo test --offline --test defect_4

use serde::Deserialize;
use std::io::{self, ErrorKind, Read};

struct FailAfter<'a> {
    data: &'a [u8],
    pos: usize,
    fail_at: usize,
}

impl Read for FailAfter<'_> {
    fn read(&mut self, buf: &mut [u8]) -> io::Result<usize> {
        if self.pos >= self.fail_at {
            return Err(io::Error::new(ErrorKind::ConnectionReset, "connection reset by peer"));
        }
        let n = buf.len().min(self.fail_at - self.pos).min(self.data.len() - self.pos);
        buf[..n].copy_from_slice(&self.data[self.pos..self.pos + n]);
        self.pos += n;
        Ok(n)
    }
}

fn expect_io<T: std::fmt::Debug>(what: &str, res: Result<T, serde_saphyr::Error>, kind: ErrorKind) {
    match res {
        Ok(v) => panic!("{what}: expected an I/O error, got Ok({v:?})"),
        Err(e) => match e.without_snippet() {
            serde_saphyr::Error::IOError { cause } => assert_eq!(cause.kind(), kind, "{what}"),
            other => panic!(
                "{what}: expected Error::IOError with kind {kind:?}, got: {}",
                other.to_string().lines().next().unwrap_or("")
            ),
        },
    }
}

fn capped(cap: usize) -> serde_saphyr::Options {
    serde_saphyr::options! {
        budget: serde_saphyr::budget! { max_reader_input_bytes: Some(cap), },
    }
}

#[derive(Debug, Deserialize)]
#[allow(dead_code)]
struct Simple {
    a: i32,
}

const JSON: &[u8] = b"{\"a\": 1, \"b\": [1, 2, 3]}\n";
const QUOTED_ITEMS: &[u8] = b"- 'item one'\n- 'item two is here'\n";

fn big_json() -> String {
    let mut s = String::from("{\n");
    for i in 0..500 {
        s.push_str(&format!("  \"k{i}\": {i},\n"));
    }
    s.push_str("  \"z\": 0\n}\n");
    s
}

#[test]
fn cap_inside_small_json_document_is_file_too_large() {
    let res: Result<serde_json::Value, _> = serde_saphyr::from_reader_with_options(JSON, capped(15));
    expect_io("cap 15 inside a JSON document", res, ErrorKind::FileTooLarge);
}

#[test]
fn cap_inside_large_json_document_is_file_too_large() {
    let doc = big_json();
    assert!(doc.len() > 6000);
    let res: Result<serde_json::Value, _> =
        serde_saphyr::from_reader_with_options(doc.as_bytes(), capped(3000));
    expect_io("cap 3000 inside a 6 KB JSON document", res, ErrorKind::FileTooLarge);
}

#[test]
fn cap_inside_quoted_sequence_item_is_file_too_large() {
    let res: Result<Vec<String>, _> = serde_saphyr::from_reader_with_options(QUOTED_ITEMS, capped(20));
    expect_io("cap 20 inside a quoted sequence item", res, ErrorKind::FileTooLarge);
}

#[test]
fn cap_zero_is_file_too_large() {
    let res: Result<Simple, _> = serde_saphyr::from_reader_with_options(&b"a: 1\n"[..], capped(0));
    expect_io("cap 0", res, ErrorKind::FileTooLarge);
}

#[test]
fn reader_error_inside_json_document_is_reported_as_such() {
    let res: Result<serde_json::Value, _> =
        serde_saphyr::from_reader(FailAfter { data: JSON, pos: 0, fail_at: 15 });
    expect_io("reader error inside a JSON document", res, ErrorKind::ConnectionReset);
}

#[test]
fn reader_error_inside_json_document_is_reported_as_such_by_the_iterator() {
    let mut r = FailAfter { data: JSON, pos: 0, fail_at: 15 };
    let first = serde_saphyr::read::<_, serde_json::Value>(&mut r)
        .next()
        .expect("one item");
    expect_io("read(): reader error inside a JSON document", first, ErrorKind::ConnectionReset);
}
