// C08 defect 2 (needs `--features garde`; the `validator` entry points share the code):
// the validating entry points record the full YAML path of every node, so their heap grows as
// nesting depth x number of nodes.
//
// Run: cargo test --offline --features garde --test defect_2
//
// Violated clause: "peak heap use stays within a fixed multiple of input size plus budget-counted
// events" and "that memory does not grow with depth x size" (deeply nested containers are to be
// "processed after bounded work").
//
// Minimal input (d nested mappings around a flat list of n numbers, 61 KB for d = 200, n = 30_000):
//
//     {c: {c: {c: ... {v: [1,1,1, ... ,1]} ... }}}
//
// read with `from_str_valid::<Node>` where
//     struct Node { c: Option<Box<Node>>, v: Vec<u8> }
//
// What the crate does: `from_str_valid` & co. (src/lib.rs, `from_str_with_options_and_path_recorder`)
// run the deserializer with a `PathRecorder`. For every mapping entry and every sequence element
// (src/de.rs: `SA::next_element_seed`, `MA::next_value_seed`, `deserialize_map`) it executes
//     let now = prev.clone().join(seg);  recorder.current = now.clone();  recorder.map.insert(now, ..)
// where a `PathKey` is a `Vec<PathSegment>` and each `PathSegment` owns a `String`
// (src/path_map.rs). Each of the n leaves below d mappings therefore stores its own deep copy of
// all d+2 segments (d+2 heap strings + a Vec), i.e. the map costs ~n x d x 60 B no matter whether
// validation fails. Measured here: d=1 -> ~20 MB, d=200 -> several hundred MB for the same 30_000 nodes
// and practically the same input size; plain `from_str` of the same document needs ~0.
//
// What it should do: stay within 64 KiB + 16 x (input + 96 B x events) and within 4 x the d=1 cost,
// e.g. by storing paths as a shared parent-pointer tree / interned segments, or by resolving
// locations lazily only for the paths that validation reports.

#![cfg(feature = "garde")]

use garde::Validate;
use serde::Deserialize;

fn status_kb(key: &str) -> usize {
    let s = std::fs::read_to_string("/proc/self/status").expect("needs Linux /proc");
    for line in s.lines() {
        if let Some(rest) = line.strip_prefix(key) {
            return rest
                .trim_start_matches(':')
                .trim()
                .trim_end_matches("kB")
                .trim()
                .parse()
                .unwrap();
        }
    }
    panic!("no {key} in /proc/self/status");
}

/// Growth of the resident set (bytes) while `f` runs (peak RSS after resetting VmHWM, minus RSS
/// before). Safe code only: the crate forbids `unsafe`, so no counting allocator in tests/.
/// Because the allocator may reuse pages freed earlier, this is a lower bound of the heap growth.
fn peak_growth<R>(f: impl FnOnce() -> R) -> (R, usize) {
    let _ = std::fs::write("/proc/self/clear_refs", "5"); // reset VmHWM
    let base = status_kb("VmRSS");
    let r = f();
    let peak = status_kb("VmHWM");
    (r, peak.saturating_sub(base) * 1024)
}

#[derive(Deserialize, Validate)]
struct Node {
    #[garde(dive)]
    #[serde(default)]
    c: Option<Box<Node>>,
    #[garde(skip)]
    #[serde(default)]
    v: Vec<u8>,
}

fn doc(d: usize, n: usize) -> String {
    let mut y = String::new();
    for _ in 0..d {
        y.push_str("{c: ");
    }
    y.push_str("{v: [");
    for _ in 0..n {
        y.push_str("1,");
    }
    y.push_str("]}");
    for _ in 0..d {
        y.push('}');
    }
    y
}

fn depth(node: &Node) -> usize {
    let mut d = 0;
    let mut cur = node;
    while let Some(next) = cur.c.as_deref() {
        d += 1;
        cur = next;
    }
    assert_eq!(cur.v.len(), N);
    d
}

const N: usize = 30_000;

#[test]
fn validating_entry_point_heap_grows_with_depth_times_nodes() {
    // Deep recursion of the (derived) visitors in a debug build: give the thread a roomy stack.
    std::thread::Builder::new()
        .stack_size(512 << 20)
        .spawn(|| {
            // deep first, so that memory retained by the allocator cannot hide its cost
            let deep_doc = doc(200, N);
            let (deep, deep_peak) = peak_growth(|| serde_saphyr::from_str_valid::<Node>(&deep_doc));
            assert_eq!(depth(&deep.expect("valid, inside the default budget")), 200);
            drop(deep_doc);

            let events = 2 * 201 + 2 + 200 + N + 8; // generous count of parser events
            let input = doc(200, N).len();
            let bound = 64 * 1024 + 16 * (input + 96 * events);
            println!("d=200 n={N}: input={input} B, peak heap growth={deep_peak} B, bound={bound} B");
            assert!(
                deep_peak <= bound,
                "from_str_valid: peak heap growth {deep_peak} B for a {input} B document with \
                 <= {events} events exceeds 64 KiB + 16 x (input + 96 B x events) = {bound} B"
            );
        })
        .unwrap()
        .join()
        .unwrap();
}
