// DEFECT 4 (property C12): a multi-line string whose first line starts with a blank reads back
// with two extra leading blanks on every line when it is an item of a sequence that is the value
// of a complex (non-scalar) mapping key
//
// Violated clause: "Every string ... deserializes back ... as the identical value - strings
// character for character"; mechanism named by the property: "automatic and explicit block
// scalars: indentation indicator".
//
// Minimal input (default options): BTreeMap<Vec<String>, Vec<LitString>>
//     { ["k"] => [ LitString(" a\nb") ] }
// (the same happens without the wrapper for an ordinary String that the serializer turns into a
// literal block scalar by itself, e.g. " a\n" followed by a line of more than 80 characters).
//
// What the crate does:
//     ? - k
//     :
//     - |2-        <- the dash is in column 0, so "2" means: content starts in column 2
//          a       <- but the body is written with 4 + 1 blanks
//         b
// The document parses, and the value silently reads back as "   a\n  b" instead of " a\nb".
//
// What it should do: either indent the sequence under the ':' or compute the indentation
// indicator / body indentation from the column the dash was really written in.
//
// Cause: src/ser.rs: for a complex key `MapSer::serialize_value` writes ':' and sets
// `ser.pending_inline_map = true`. `serialize_seq` gives the value sequence `depth = base + 1`
// (1 at the root), but `SeqSer::serialize_element` skips `write_indent(self.depth)` for the first
// element because `pending_inline_map` is set, so the first dash lands in column 0 while
// `after_dash_depth` is recorded as 1. `serialize_str` then writes the block body at
// indent_step * (1 + 1) = 4 columns with the indentation indicator `indent_step` = 2, which the
// reader measures from the real position of the dash (column 0): two columns too many stay in
// the content. (Only strings that need the indicator - first line starting with a blank - are
// changed; without the indicator the reader detects the indentation itself.)
//
// Run: cargo test --offline --test defect_4

use serde_saphyr::LitString;
use std::collections::BTreeMap;

#[test]
fn literal_block_in_sequence_under_complex_key_round_trips() {
    let mut m: BTreeMap<Vec<String>, Vec<LitString>> = BTreeMap::new();
    m.insert(vec!["k".to_string()], vec![LitString(" a\nb".to_string())]);
    let yaml = serde_saphyr::to_string(&m).unwrap();
    let back: BTreeMap<Vec<String>, Vec<LitString>> = serde_saphyr::from_str(&yaml)
        .unwrap_or_else(|e| panic!("own output does not parse:\n{yaml}\n{e}"));
    assert_eq!(back, m, "yaml was:\n{yaml}");
}

#[test]
fn plain_string_in_sequence_under_complex_key_round_trips() {
    let text = format!(" indented first line\n{}", "x".repeat(90));
    let mut m: BTreeMap<Vec<String>, Vec<String>> = BTreeMap::new();
    m.insert(vec!["k".to_string()], vec![text]);
    let yaml = serde_saphyr::to_string(&m).unwrap();
    let back: BTreeMap<Vec<String>, Vec<String>> = serde_saphyr::from_str(&yaml)
        .unwrap_or_else(|e| panic!("own output does not parse:\n{yaml}\n{e}"));
    assert_eq!(back, m, "yaml was:\n{yaml}");
}
