// DEFECT 1 (C17): an error that carries a location is rendered WITHOUT the source snippet
// when the first validation issue of the report has no recorded location.
//
// Needs optional features: run with
//   cargo test --offline --features garde,validator,miette,robotics --test defect_1
//
// Violated clause: "Rendering an error together with its source snippet ... includes the line
// the location refers to with the marker under the reported column" (mechanism "snippet
// attached at the API boundary; regions chosen per location": src/lib.rs maybe_with_snippet,
// src/de_error.rs with_snippet), and the crate's own documentation of `from_str_valid` /
// `from_str_validate`: "The error message will contain a snippet with exact location
// information".
//
// Minimal input:   "n: 1\n"   into
//     struct Cfg { #[serde(default)] #[garde(length(min = 1))] aaa: String,
//                  #[garde(range(min = 10))] n: i32 }
// Two issues are found: `aaa` (the field is absent from the YAML, so there is no location for
// it) and `n` (line 1, column 4). Because `aaa` sorts first, the crate prints
//
//     validation error at aaa: length is lower than 1
//     validation error at n: lower than 10 at line 1, column 4
//
// i.e. the plain form: no window, no `1 | n: 1` line, no marker - although snippets are enabled
// (default options) and the second issue has an exact location. With the same two issues in
// the other order (or when `aaa` is present as `aaa: ''`) every located issue gets its window.
//
// Expected: the issue for `n` is rendered with its source window
//     1 | n: 1
//       |    ^ validation error: lower than 10 for `n`
// and only the issue without a location falls back to the plain text.
//
// Cause: src/lib.rs `maybe_with_snippet` wraps the error only if `err.location().is_some()`,
// and src/de_error.rs `Error::location()` for `ValidationError` / `ValidatorError` looks at the
// FIRST report entry only (`report.iter().next()` / `collect_validator_issues(..).first()`);
// if that entry has no location the whole error is returned unwrapped, so
// `fmt_error_rendered` never reaches `fmt_validation_error_with_snippets_offset`.
// The same happens with the `validator` integration (second test).

#![cfg(all(feature = "garde", feature = "validator"))]

use serde::Deserialize;

#[derive(Debug, Deserialize, garde::Validate)]
#[allow(dead_code)]
struct GardeCfg {
    #[serde(default)]
    #[garde(length(min = 1))]
    aaa: String,
    #[garde(range(min = 10))]
    n: i32,
}

#[derive(Debug, Deserialize, validator::Validate)]
#[allow(dead_code)]
struct ValidatorCfg {
    #[serde(default)]
    #[validate(length(min = 1))]
    aaa: String,
    #[validate(range(min = 10))]
    n: i32,
}

fn assert_window_for_n(rendered: &str) {
    // The located issue (`n`, line 1 column 4) must come with its source line and a marker.
    let lines: Vec<&str> = rendered.lines().collect();
    let idx = lines
        .iter()
        .position(|l| l.trim_start().starts_with("1 | n: 1"))
        .unwrap_or_else(|| panic!("source line `1 | n: 1` is missing from the report:\n{rendered}"));
    let marker = lines.get(idx + 1).copied().unwrap_or("");
    let gutter = lines[idx].find("| ").unwrap() + 2;
    assert_eq!(
        marker.find('^'),
        Some(gutter + 3),
        "marker is not under column 4:\n{rendered}"
    );
}

#[test]
fn garde_located_issue_keeps_its_snippet_when_first_issue_has_no_location() {
    // sanity: with all issues located, the window for `n` is there
    let err = serde_saphyr::from_str_valid::<GardeCfg>("aaa: ''\nn: 1\n").unwrap_err();
    assert!(err.to_string().contains("2 | n: 1"), "{err}");

    let err = serde_saphyr::from_str_valid::<GardeCfg>("n: 1\n").unwrap_err();
    let rendered = err.to_string();
    assert!(rendered.contains("line 1"), "the issue for `n` has a location: {rendered}");
    assert_window_for_n(&rendered);
}

#[test]
fn validator_located_issue_keeps_its_snippet_when_first_issue_has_no_location() {
    let err = serde_saphyr::from_str_validate::<ValidatorCfg>("aaa: ''\nn: 1\n").unwrap_err();
    assert!(err.to_string().contains("2 | n: 1"), "{err}");

    let err = serde_saphyr::from_str_validate::<ValidatorCfg>("n: 1\n").unwrap_err();
    let rendered = err.to_string();
    assert!(rendered.contains("line 1"), "the issue for `n` has a location: {rendered}");
    assert_window_for_n(&rendered);
}
