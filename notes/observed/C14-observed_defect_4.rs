//! Observed on the UNCHANGED crate (property C14, serializer side).
//!
//! Layout of an anchored collection in two positions:
//!  (a) a shared sequence as an element of a block sequence (`Vec<RcAnchor<Vec<i32>>>`) is written
//!          - &a1
//!          - 1
//!            - 2
//!          - *a1
//!      i.e. the anchor is put on an empty node and the items of the inner sequence become items
//!      of the outer one (the text does not read back);
//!  (b) a shared flow collection as a mapping value (`RcAnchor<FlowSeq<..>>`) is written
//!      `g:&a1  [1, 2]` - the anchor is emitted before the space after the colon, so the line is
//!      no longer a mapping entry.
use serde::{Deserialize, Serialize};
use serde_saphyr::{FlowSeq, RcAnchor};
use std::rc::Rc;

#[test]
fn shared_sequence_inside_a_sequence() {
    let w = Rc::new(vec![1, 2]);
    let doc: Vec<RcAnchor<Vec<i32>>> = vec![RcAnchor(w.clone()), RcAnchor(w)];
    let yaml = serde_saphyr::to_string(&doc).unwrap();
    let back: Vec<RcAnchor<Vec<i32>>> =
        serde_saphyr::from_str(&yaml).unwrap_or_else(|e| panic!("{e}\nyaml:\n{yaml}"));
    assert_eq!(back.len(), 2);
    assert_eq!(*back[0].0, vec![1, 2]);
    assert!(Rc::ptr_eq(&back[0].0, &back[1].0));
}

#[derive(Serialize, Deserialize)]
struct Doc {
    g: RcAnchor<FlowSeq<Vec<i32>>>,
    h: RcAnchor<FlowSeq<Vec<i32>>>,
}

#[test]
fn shared_flow_sequence_as_mapping_value() {
    let w = Rc::new(FlowSeq(vec![1, 2]));
    let doc = Doc { g: RcAnchor(w.clone()), h: RcAnchor(w) };
    let yaml = serde_saphyr::to_string(&doc).unwrap();
    let back: Doc = serde_saphyr::from_str(&yaml).unwrap_or_else(|e| panic!("{e}\nyaml:\n{yaml}"));
    assert_eq!(back.g.0.0, vec![1, 2]);
    assert!(Rc::ptr_eq(&back.g.0, &back.h.0));
}
