// DEFECT 3 - `Some(RcRecursion)` inside a shared node comes back as `None` when that node is
// expanded from an alias AFTER the link's target has been completed
//
// Property clause violated:
//   "Aliases read into plain (non-wrapper) fields still give equal, independent copies."
//   (and "self-referential structures built from the recursive wrappers are restored": the same
//   node read at its definition has the link, its alias expansion has not).
//
// Minimal input (written by the crate's serializer from RcRecursive<Root> / RcAnchor<Kid>):
//
//   root: &a1
//     name: r
//     kids:
//       - &a2
//         name: k
//         parent: *a1      <- Option<RcRecursion<Root>>, Some(-> root)
//         direct: *a1      <- RcRecursion<Root>
//   fav: *a2               <- read into a plain `Kid`
//
// What the crate does: `fav.direct` points to root, but `fav.parent` is `None` - the copy is not
// equal to the node it copies, the link is silently dropped. (The same happens for
// `fav: RcAnchor<Kid>` whenever the definition `&a2` itself was not stored, e.g. because it sits
// in a field the target type does not have.)
//
// What it should do: `fav.parent` is `Some` and points to root, like `kids[0].parent`.
//
// Cause: while `&a1` is open, src/live_events.rs turns the alias `*a1` into a placeholder event
// (empty scalar, tag Null, anchor = a1) and `record`s that placeholder into the buffer of the
// enclosing anchor `&a2`. src/de.rs `deserialize_option` treats the placeholder as a value only
// `if ... anchor_store::recursive_anchor_in_progress(*anchor)`. When `*a2` is replayed after
// `&a1` has been closed that condition is false, the next arm ("Tagged null -> None") fires and
// the link is dropped, although the non-Option field next to it resolves the very same
// placeholder correctly.
//
// Run: cargo test --offline --test defect_3

use serde::{Deserialize, Serialize};
use serde_saphyr::{RcAnchor, RcRecursion, RcRecursive};

#[derive(Serialize, Deserialize)]
struct Kid {
    name: String,
    parent: Option<RcRecursion<Root>>,
    direct: RcRecursion<Root>,
}

#[derive(Serialize, Deserialize)]
struct Root {
    name: String,
    kids: Vec<RcAnchor<Kid>>,
}

/// What is written.
#[derive(Serialize)]
struct DocW {
    root: RcRecursive<Root>,
    fav: RcAnchor<Kid>,
}

/// What is read: `fav` is a plain (non-wrapper) field, it gets a copy.
#[derive(Deserialize)]
struct DocR {
    root: RcRecursive<Root>,
    fav: Kid,
}

#[test]
fn alias_copy_keeps_its_optional_recursive_link() {
    let root = RcRecursive::wrapping(Root { name: "r".into(), kids: vec![] });
    let kid = RcAnchor::wrapping(Kid {
        name: "k".into(),
        parent: Some(RcRecursion::from(&root)),
        direct: RcRecursion::from(&root),
    });
    root.0.borrow_mut().as_mut().unwrap().kids.push(RcAnchor(kid.0.clone()));

    let yaml = serde_saphyr::to_string(&DocW { root, fav: kid }).expect("serialize");
    let back: DocR = serde_saphyr::from_str(&yaml).unwrap_or_else(|e| panic!("{e}\n{yaml}"));

    // The node at its definition is fine:
    let r = back.root.borrow();
    let original = &r.kids[0];
    assert!(original.parent.as_ref().is_some_and(|p| p.upgrade().is_some_and(|t| t == back.root)));
    assert!(original.direct.upgrade().is_some_and(|t| t == back.root));

    // Its copy must be equal to it:
    assert_eq!(back.fav.name, "k");
    assert!(back.fav.direct.upgrade().is_some_and(|t| t == back.root));
    let parent = back
        .fav
        .parent
        .as_ref()
        .unwrap_or_else(|| panic!("fav.parent was Some(-> root) but the copy has None\n{yaml}"));
    assert!(parent.upgrade().is_some_and(|t| t == back.root));
}
