// C02 defect 2: an alias read through `RcAnchor<U>` fails when its anchor was read through
// `RcAnchor<T>` with T != U, although the alias-free expansion deserializes fine.
//
// Property clause violated:
//   "Deserializing a document that uses anchors and aliases yields exactly the value obtained
//    from the document in which every alias is replaced by a copy of the node most recently
//    anchored under that name and every anchor mark is removed"
//
// Minimal input:   x: &a 1
//                  y: *a
// target:          struct S { x: RcAnchor<String>, y: RcAnchor<u32> }
// crate:           Err("anchor id 1 reused with incompatible Rc type")
// expected:        the value of the expansion "x: 1\ny: 1" -> S { x: "1", y: 1 }
//                  (the scalar `1` is a valid String and a valid u32; the same happens for
//                  RcAnchor<u8> / RcAnchor<u32>, ArcAnchor<..> pairs, and for
//                  RcAnchor<Vec<u8>> / RcAnchor<Vec<u32>> on an aliased sequence)
//
// Cause: src/anchors.rs `impl Deserialize for RcAnchor<T>` (visit_newtype_struct) looks the
// anchor id up in the per-document store (src/anchor_store.rs `get_rc::<T>`); a stored
// `Rc<dyn Any>` of another type makes `downcast` fail and the failure is turned into a hard
// error instead of falling back to deserializing a fresh `Rc<U>` from the replayed events
// (which are a complete copy of the anchored node). Nothing in the documentation of
// `RcAnchor` restricts an anchor to one target type.
//
// Run: cargo test --offline --test defect_2

use serde::Deserialize;
use serde_saphyr::{ArcAnchor, RcAnchor};

#[derive(Debug, Deserialize)]
struct S {
    x: RcAnchor<String>,
    y: RcAnchor<u32>,
}

#[test]
fn alias_equals_copy_for_rc_anchor_of_another_type() {
    let expanded: S = serde_saphyr::from_str("x: 1\ny: 1\n").expect("alias-free expansion");
    assert_eq!((expanded.x.0.as_str(), *expanded.y.0), ("1", 1));

    let aliased: S = serde_saphyr::from_str("x: &a 1\ny: *a\n")
        .unwrap_or_else(|e| panic!("aliased document must read like its expansion: {e}"));
    assert_eq!((aliased.x.0.as_str(), *aliased.y.0), ("1", 1));
}

#[derive(Debug, Deserialize)]
struct T {
    x: ArcAnchor<Vec<u8>>,
    y: ArcAnchor<Vec<u32>>,
}

#[test]
fn alias_equals_copy_for_arc_anchor_of_another_type() {
    let expanded: T = serde_saphyr::from_str("x: [1, 2]\ny: [1, 2]\n").expect("expansion");
    assert_eq!((&*expanded.x.0, &*expanded.y.0), (&vec![1u8, 2], &vec![1u32, 2]));

    let aliased: T = serde_saphyr::from_str("x: &a [1, 2]\ny: *a\n")
        .unwrap_or_else(|e| panic!("aliased document must read like its expansion: {e}"));
    assert_eq!((&*aliased.x.0, &*aliased.y.0), (&vec![1u8, 2], &vec![1u32, 2]));
}
