// Defect 6 (property C10, reader side): UTF-16 input that ends inside a character is accepted.
//
// Violated clause: "If the underlying reader ... ends inside a multi-byte character ...
// reader-based deserialization returns an error - never a value built from the truncated
// prefix" (error kind "early EOF inside a code point").
//
// (Related to, but not covered by, the already-repaired UTF-8 case: that repair switched the
// decoder to `utf8_passthru(true)` so that UTF-8 - with or without BOM - is validated by
// `ChunkedChars`. UTF-16 input still goes through the lossy transcoder.)
//
// Minimal input: FF FE  'a' 00  ':' 00  ' ' 00  'x' 00  followed by
//     - one stray byte (half a code unit), or
//     - D83D alone (the high surrogate of U+1F600 whose low surrogate was cut off), or
//     - D83D plus one more byte.
//
// What the crate does: `from_reader` returns Ok({"a": "x\u{FFFD}"}) - the truncated character
// is silently replaced by U+FFFD and a value built from the truncated prefix is returned. The
// iterator entry point (`read`) yields the same Ok value.
//
// What it should do: return an I/O error (UnexpectedEof / InvalidData), as it does for UTF-8
// input cut inside a multi-byte sequence.
//
// Cause: src/buffered_input.rs `buffered_input_from_reader_with_limit`: for a UTF-16 BOM
// `encoding_rs_io::DecodeReaderBytes` transcodes with `decode_to_utf8(.., last = true)` at EOF,
// which emits U+FFFD for an incomplete code unit / unpaired surrogate and reports nothing;
// `ChunkedChars` then sees well-formed UTF-8 and cannot tell.
//
// Run: cargo test --offline --test defect_6

use std::collections::BTreeMap;

fn utf16le_with_tail(text: &str, tail: &[u8]) -> Vec<u8> {
    let mut raw = vec![0xFF, 0xFE];
    for u in text.encode_utf16() {
        raw.extend_from_slice(&u.to_le_bytes());
    }
    raw.extend_from_slice(tail);
    raw
}

fn check(what: &str, tail: &[u8]) {
    let raw = utf16le_with_tail("a: x", tail);
    let res: Result<BTreeMap<String, String>, _> = serde_saphyr::from_reader(&raw[..]);
    assert!(
        res.is_err(),
        "{what}: input ends inside a UTF-16 character but from_reader returned {res:?}"
    );

    let mut r = &raw[..];
    let items: Vec<Result<BTreeMap<String, String>, _>> = serde_saphyr::read(&mut r).collect();
    assert!(
        items.iter().any(|i| i.is_err()),
        "{what}: input ends inside a UTF-16 character but read() yielded only {items:?}"
    );
}

#[test]
fn sanity_complete_utf16_input_is_accepted() {
    let raw = utf16le_with_tail("a: x\u{1F600}", &[]);
    let v: BTreeMap<String, String> = serde_saphyr::from_reader(&raw[..]).unwrap();
    assert_eq!(v["a"], "x\u{1F600}");
}

#[test]
fn utf16_cut_inside_a_code_unit() {
    check("half a code unit", &[0x41]);
}

#[test]
fn utf16_cut_inside_a_surrogate_pair() {
    check("high surrogate without its low surrogate", &[0x3D, 0xD8]);
}

#[test]
fn utf16_cut_inside_the_low_surrogate() {
    check("high surrogate plus half of the low surrogate", &[0x3D, 0xD8, 0x00]);
}
