//! Observed on the UNCHANGED crate (property C14, serializer side).
//!
//! A shared node whose payload is an enum with a data-carrying variant (newtype / tuple / struct
//! variant). `serialize_newtype_variant`, `serialize_tuple_variant` and `serialize_struct_variant`
//! write `Variant:` first and leave the pending anchor to the INNER value, so the anchor names
//! the payload of the variant instead of the whole node:
//!     a:
//!       N: &a1 1
//!     c: *a1          # expands to `1`, not to `N: 1`
//! Deserializing the alias fails ("unknown variant `1`"). A unit variant (`&a1 U`) works.
use serde::{Deserialize, Serialize};
use serde_saphyr::RcAnchor;
use std::rc::Rc;

#[derive(Serialize, Deserialize, Debug, Clone, PartialEq)]
enum E {
    U,
    N(i32),
    T(i32, i32),
    S { x: i32 },
}

#[derive(Serialize, Deserialize, Debug)]
struct Doc {
    a: RcAnchor<E>,
    c: RcAnchor<E>,
}

fn check(e: E) {
    let n = Rc::new(e.clone());
    let doc = Doc { a: RcAnchor(n.clone()), c: RcAnchor(n) };
    let yaml = serde_saphyr::to_string(&doc).unwrap();
    let back: Doc = serde_saphyr::from_str(&yaml).unwrap_or_else(|err| panic!("{e:?}: {err}\nyaml:\n{yaml}"));
    assert_eq!(*back.a.0, e);
    assert_eq!(*back.c.0, e);
    assert!(Rc::ptr_eq(&back.a.0, &back.c.0));
}

#[test]
fn shared_unit_variant() {
    check(E::U); // passes
}
#[test]
fn shared_newtype_variant() {
    check(E::N(1));
}
#[test]
fn shared_tuple_variant() {
    check(E::T(1, 2));
}
#[test]
fn shared_struct_variant() {
    check(E::S { x: 1 });
}
