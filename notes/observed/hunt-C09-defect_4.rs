// DEFECT 4 (C09): a scalar that is explicitly tagged `!!str` and spells a null (`~`, `null`)
// deserializes into `String`, but is refused as "null" for `&str` although the text is in the
// input verbatim.
//
// Violated clause: "Deserializing into borrowed strings succeeds exactly when the scalar appears
// verbatim in the input and then yields the same text as the owned variant".
//
// Minimal input: "!!str ~"   (also "!!str null", "- !!str Null")
//
// What the crate does:
//   from_str::<String>("!!str ~") -> Ok("~")
//   from_str::<&str>("!!str ~")   -> Err(NullIntoString: "cannot deserialize null into string;
//                                    use Option<String>")
// What it should do: Ok("~") borrowed from the input - `~` is a plain one-line scalar that needs
// no transformation, and the !!str tag says it is a string, which the owned path honours.
//
// Cause: src/de.rs `YamlDeserializer::deserialize_str`: its null pre-check is
// `tag == &SfTag::Null || (tag != &SfTag::Binary && scalar_is_nullish(value, style))`, without
// the `&& tag != &SfTag::String` exemption that `deserialize_string` has a few lines below
// (`(tag == &SfTag::Null || scalar_is_nullish(value, style)) && tag != &SfTag::String && tag !=
// &SfTag::Binary`).

#[test]
fn str_tagged_tilde_borrows_like_it_owns() {
    let yaml = "!!str ~";
    let owned: String = serde_saphyr::from_str(yaml).unwrap();
    assert_eq!(owned, "~");
    let borrowed: &str = serde_saphyr::from_str(yaml).expect("`~` appears verbatim in the input");
    assert_eq!(borrowed, owned);
}

#[test]
fn str_tagged_null_word_in_a_sequence() {
    let yaml = "- !!str null\n- x\n";
    let owned: Vec<String> = serde_saphyr::from_str(yaml).unwrap();
    assert_eq!(owned, ["null", "x"]);
    let borrowed: Vec<&str> = serde_saphyr::from_str(yaml).expect("both scalars appear verbatim");
    assert_eq!(borrowed, owned);
}
