// Defect 3 (C03): the "is the merge value null?" test looks only at the text and style of the
// scalar and ignores its tag, so it disagrees with what the crate itself treats as null:
//   (a) `<<: !!binary null` is ACCEPTED as a null merge although a `!!binary` scalar is a
//       payload, never a null (de.rs says so in deserialize_any / deserialize_option /
//       deserialize_seq: "a `!!binary` scalar is a payload: the base64 text of some bytes
//       spells `null`") - `b: !!binary null` is the three bytes 9E E9 65;
//   (b) `<<: !!null x` is REJECTED although the crate treats a `!!null`-tagged scalar as null
//       "regardless of style/value" everywhere else (`t: !!null x` is null / None / an empty
//       map / an empty sequence).
//
// Violated clause: "A merge value that is not a mapping, a (nested) sequence of mappings or
// null is rejected" - (a) is none of the three and is accepted; (b) is null and is rejected
// (a null merge value must behave like the mapping written without that entry).
//
// Minimal inputs:  "<<: !!binary null\na: 1\n"   -> crate: Ok({a: 1})      expected: Err(merge value ...)
//                  "<<: !!null x\na: 1\n"        -> crate: Err(merge value) expected: Ok({a: 1})
//
// Cause: src/de.rs, `pending_entries_from_live_events` and `pending_entries_from_events`: the
// arm `Some(Ev::Scalar { value, style, .. }) if scalar_is_nullish(value.as_ref(), style)` does
// not bind `tag`; every other null test in de.rs is
// `tag == &SfTag::Null || (tag != &SfTag::Binary && scalar_is_nullish(..))`.
//
// Run: cargo test --offline --test defect_3   (no optional features needed; serde_bytes and
// serde_json are dev-dependencies of the crate)

use serde::Deserialize;
use std::collections::BTreeMap;

#[derive(Debug, Deserialize)]
struct Bin {
    b: Option<serde_bytes::ByteBuf>,
}

#[test]
fn binary_scalar_spelling_null_is_not_a_null_merge_value() {
    // The crate's own view: this scalar is a payload, not a null.
    let bin: Bin = serde_saphyr::from_str("b: !!binary null\n").expect("binary payload");
    assert_eq!(bin.b.as_ref().map(|b| b.as_ref()), Some(&[0x9e_u8, 0xe9, 0x65][..]));

    // So as a merge value it is a non-null scalar and must be rejected like `<<: abcd`.
    let plain: Result<BTreeMap<String, i32>, _> = serde_saphyr::from_str("<<: abcd\na: 1\n");
    assert!(plain.is_err());
    let got: Result<BTreeMap<String, i32>, _> = serde_saphyr::from_str("<<: !!binary null\na: 1\n");
    assert!(
        got.is_err(),
        "`<<: !!binary null` merges a binary scalar, it must be rejected, got {got:?}"
    );
}

#[test]
fn tagged_null_is_a_null_merge_value() {
    // The crate's own view: a `!!null`-tagged scalar is null whatever its text.
    let v: BTreeMap<String, Option<i32>> = serde_saphyr::from_str("t: !!null x\n").expect("null");
    assert_eq!(v.get("t"), Some(&None));
    let v: serde_json::Value = serde_saphyr::from_str("t: !!null x\n").expect("null");
    assert_eq!(v["t"], serde_json::Value::Null);
    let v: BTreeMap<String, BTreeMap<String, i32>> =
        serde_saphyr::from_str("t: !!null x\n").expect("null is an empty map");
    assert!(v["t"].is_empty());

    // A null merge value is legal and contributes nothing.
    let plain: BTreeMap<String, i32> = serde_saphyr::from_str("<<: ~\na: 1\n").expect("null merge");
    assert_eq!(plain.len(), 1);
    let got: Result<BTreeMap<String, i32>, _> = serde_saphyr::from_str("<<: !!null x\na: 1\n");
    match got {
        Ok(m) => assert_eq!(m, plain),
        Err(e) => panic!("`<<: !!null x` is a null merge value, it must be accepted: {e}"),
    }
}
