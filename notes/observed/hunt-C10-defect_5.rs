// Defect 5 (property C10, reader side): the input-byte cap is applied to the *transcoded*
// UTF-8 text, not to the bytes of the input.
//
// Violated clauses: "If ... the configured input-byte cap is exceeded at any point,
// reader-based deserialization returns an error ... and it never pulls more than the cap plus a
// fixed buffering allowance from the reader, while inputs no larger than the cap are unaffected
// by it." Public documentation (src/budget.rs, `Budget::max_reader_input_bytes`): "Hard cap on
// the size of the input in bytes ... to prevent resource starving by reading large malicious
// input"; src/lib.rs: "limit raw input bytes".
//
// Minimal inputs: any UTF-16 document (BOM FF FE / FE FF, which the reader path auto-detects).
//  (a) ASCII text in UTF-16LE, 180 006 input bytes, cap 100 000: accepted, and all 180 006 bytes
//      are pulled from the reader (80 % over the cap; the overshoot grows linearly with the cap,
//      it is not a fixed allowance). Every cap admits an input of twice its size.
//  (b) CJK text in UTF-16LE, about 60 000 input bytes, cap = input length + 1000 (larger than
//      the input): rejected with FileTooLarge, because the 2-byte code units become 3-byte
//      UTF-8 sequences.
//
// What it should do: count the bytes obtained from the reader (what the option is documented
// to limit), so that (a) fails and (b) succeeds.
//
// Cause: src/buffered_input.rs - `ChunkedChars` sits *behind*
// `BufReader<DecodeReaderBytes<R>>` and adds up `needed` (the UTF-8 length of each decoded
// char) in `total_bytes`; nothing counts what `DecodeReaderBytes` consumes from `R`.
//
// Run: cargo test --offline --test defect_5

use std::collections::BTreeMap;
use std::io::{self, Read};

struct Counting<'a> {
    data: &'a [u8],
    pos: usize,
}

impl Read for Counting<'_> {
    fn read(&mut self, buf: &mut [u8]) -> io::Result<usize> {
        let n = buf.len().min(self.data.len() - self.pos);
        buf[..n].copy_from_slice(&self.data[self.pos..self.pos + n]);
        self.pos += n;
        Ok(n)
    }
}

fn utf16le(text: &str) -> Vec<u8> {
    let mut raw = vec![0xFF, 0xFE];
    for u in text.encode_utf16() {
        raw.extend_from_slice(&u.to_le_bytes());
    }
    raw
}

fn capped(cap: usize) -> serde_saphyr::Options {
    serde_saphyr::options! {
        budget: serde_saphyr::budget! { max_reader_input_bytes: Some(cap), },
    }
}

#[test]
fn utf16_input_far_larger_than_the_cap_is_rejected() {
    let mut text = String::new();
    let mut i = 0;
    while text.len() < 90_000 {
        text.push_str(&format!("k{i}: v{i}\n"));
        i += 1;
    }
    let raw = utf16le(&text);
    let cap = 100_000;
    assert!(raw.len() > cap + 64 * 1024, "input is way beyond cap + any buffering allowance");

    let mut r = Counting { data: &raw, pos: 0 };
    let res: Result<BTreeMap<String, String>, _> =
        serde_saphyr::from_reader_with_options(&mut r, capped(cap));
    assert!(
        res.is_err(),
        "input of {} bytes was accepted under max_reader_input_bytes = {cap}; {} bytes were pulled from the reader",
        raw.len(),
        r.pos
    );
    assert!(r.pos <= cap + 64 * 1024, "pulled {} bytes with a cap of {cap}", r.pos);
}

#[test]
fn utf16_input_smaller_than_the_cap_is_unaffected() {
    let mut text = String::new();
    let mut i = 0;
    while text.chars().count() < 30_000 {
        text.push_str(&format!("k{i}: \u{65e5}\u{672c}\u{8a9e}\u{65e5}\u{672c}\u{8a9e}\u{65e5}\u{672c}\u{8a9e}\n"));
        i += 1;
    }
    let raw = utf16le(&text);
    let cap = raw.len() + 1000;

    let uncapped: BTreeMap<String, String> = serde_saphyr::from_reader(&raw[..]).unwrap();
    let res: Result<BTreeMap<String, String>, _> =
        serde_saphyr::from_reader_with_options(&raw[..], capped(cap));
    match res {
        Ok(v) => assert_eq!(v, uncapped),
        Err(e) => panic!(
            "input of {} bytes was rejected although max_reader_input_bytes = {cap} is larger: {}",
            raw.len(),
            e.to_string().lines().next().unwrap_or("")
        ),
    }
}
