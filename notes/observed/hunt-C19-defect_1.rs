// C19 defect 1: a sexagesimal (degree) quantity inside rad(...) is never converted to radians.
// Needs: cargo test --offline --features robotics --test defect_1
//
// Violated clause: "every accepted arithmetic / angle expression yields the IEEE-754 result ...
// with degree quantities converted to radians exactly once and mixed units rejected".
// Crate docs (src/robotics.rs header): "Sexagesimal degrees: hh:mm[:ss[.frac]] ... converted to
// radians"; README: `longitude: !radians 8:32:53.2  # Nautical` (degrees, converted to radians) and
// `!radians` / `rad(...)` are documented as the tag and the function spelling of the same unit.
//
// Minimal input (angle_conversions on, target f64):   rad(1:30)
// What the crate does: returns 1.5  (the number of DEGREES, 1 deg 30 min, passed off as radians;
//   converted zero times), while `!radians 1:30`, `deg(1:30)`, `!degrees 1:30` and
//   `!radians deg(1:30)` all give 0.026179938779914945 (1.5 deg in radians).
// What it should do: either convert the degree quantity once (0.0261799...) like every other
//   spelling, or reject `rad(<sexagesimal>)` as a unit mix. It must not return 1.5.
// Cause: src/robotics.rs Parser::try_parse_sexagesimal, last branch ("Angle mode (inside unit
//   functions): interpret as degrees numeric; conversion is handled by the wrapping unit"):
//   it returns raw degrees for ANY wrapping function, but the wrapping rad() in
//   parse_ident_or_special performs no conversion (only deg() multiplies by DEG2RAD).

use serde_saphyr::{from_str_with_options, Options};

fn on() -> Options {
    serde_saphyr::options! { angle_conversions: true }
}

fn eval(y: &str) -> Result<f64, String> {
    from_str_with_options::<f64>(y, on()).map_err(|e| e.to_string())
}

#[test]
fn sexagesimal_inside_rad_is_converted_once_or_rejected() {
    let expected = 1.5f64 * (core::f64::consts::PI / 180.0);
    // All the other spellings of "1 degree 30 minutes" agree:
    assert_eq!(eval("!radians 1:30").unwrap(), expected);
    assert_eq!(eval("deg(1:30)").unwrap(), expected);
    assert_eq!(eval("!degrees 1:30").unwrap(), expected);
    assert_eq!(eval("!radians deg(1:30)").unwrap(), expected);

    for y in ["rad(1:30)", "!radians rad(1:30)", "!degrees rad(1:30)", "rad(1:30:0.0)"] {
        match eval(y) {
            Err(_) => {} // rejecting the unit mix would be acceptable
            Ok(v) => assert_eq!(
                v, expected,
                "`{y}`: the degree quantity 1:30 must be converted to radians exactly once, got {v}"
            ),
        }
    }
}
