// Defect 4 (property C10 "I/O faults and the input-size cap are never swallowed"; crate docs of
// `Budget::max_reader_input_bytes` and `Error::IOError`):
// a reader failure or a breach of the input cap that happens while the parser is inside a
// token is replaced by a fabricated *syntax* error; the stored I/O error is dropped unreported.
//
// What is contradicted:
//  * crate documentation, src/budget.rs, field `max_reader_input_bytes`:
//      "If the limit is exceeded, serde_saphyr::IOError is returned, with cause set to
//       std::IO::Error having ErrorKind::FileTooLarge."
//  * property C10, title and mechanism: the I/O error kept in the shared cell is "never
//    swallowed", it "is checked before every event and once more when finishing"; "every reader
//    entry point ends with finish()".  (The statement only demands "an error", so this is the
//    weakest of my reports - but the error that is returned blames the *document*, which is
//    well-formed, and the caller can no longer tell "too large / disk failed" from "malformed".)
//
// Minimal inputs:
//  (a) a well-formed 2 KB document  "aaaa...a"  (one double-quoted scalar), cap = 1000
//      -> Err("unclosed quote at line 1, column 1"), no IOError, no FileTooLarge
//  (b) a well-formed document `[1, 1, 1, ... ]` of 3 KB, cap = 1000
//      -> Err("unclosed bracket '['")
//  (c) `"hello world"\n` with the reader failing (hard error, BrokenPipe) after 5 bytes
//      -> from_reader / with_deserializer_from_reader: Err("unclosed quote ...");
//         the injected io::Error is not reported
//  (d) the same through the `read` iterator
//      -> the iterator yields exactly one item, Err("unclosed quote ..."), and ends;
//         the I/O error never surfaces
//  The masking happens whenever the ScanError surfaces in the same Events::next/peek call in
//  which the fault was stored (first token of a document, `- &x [1, 2` ..., etc.); when an
//  Events call lies in between, the stored error is seen first and IOError is returned.
//
// Cause: ChunkedChars::next (src/buffered_input.rs) signals the fault to the parser as end of
// input; the scanner, cut off in the middle of a quoted scalar / flow collection, raises a
// ScanError, and that error wins: src/lib.rs from_reader_with_options returns the
// deserialization error without consulting the error cell (finish() is only reached on the
// success path), with_deserializer_from_reader_with_options likewise (`deserialize_with_scope(..)?`),
// and ReadIter::next does `let _ = self.src.finish();` in its `Err(e)` arm, discarding the stored
// I/O error.  LiveEvents::next_impl maps the ScanError with `item.map_err(Error::from_scan_error)?`
// without looking at `self.error` first.
//
// Expected: when the error cell is occupied, the I/O error (FileTooLarge / the reader's error)
// is what the entry point reports.
//
// Run: copy to tests/ and `cargo test --offline --test defect_4`

use std::io::{self, Read};

use serde_json::Value;
use serde_saphyr::Error;

fn capped(cap: usize) -> serde_saphyr::Options {
    serde_saphyr::options! {
        budget: serde_saphyr::budget! { max_reader_input_bytes: Some(cap) },
    }
}

fn is_io_error(e: &Error, kind: io::ErrorKind) -> bool {
    matches!(e.without_snippet(), Error::IOError { cause } if cause.kind() == kind)
}

#[test]
fn cap_breach_inside_a_quoted_scalar_is_reported_as_file_too_large() {
    let doc = format!("\"{}\"\n", "a".repeat(2000));
    // well-formed
    let v: Value = serde_saphyr::from_reader(doc.as_bytes()).unwrap();
    assert_eq!(v.as_str().unwrap().len(), 2000);

    let err = serde_saphyr::from_reader_with_options::<_, Value>(doc.as_bytes(), capped(1000))
        .expect_err("input is larger than the cap");
    assert!(
        is_io_error(&err, io::ErrorKind::FileTooLarge),
        "documented: IOError with ErrorKind::FileTooLarge; got: {err:?}"
    );
}

#[test]
fn cap_breach_inside_a_flow_sequence_is_reported_as_file_too_large() {
    let doc = format!("[{}]\n", vec!["1"; 1000].join(", "));
    let v: Value = serde_saphyr::from_reader(doc.as_bytes()).unwrap();
    assert_eq!(v.as_array().unwrap().len(), 1000);

    let err = serde_saphyr::from_reader_with_options::<_, Value>(doc.as_bytes(), capped(1000))
        .expect_err("input is larger than the cap");
    assert!(
        is_io_error(&err, io::ErrorKind::FileTooLarge),
        "documented: IOError with ErrorKind::FileTooLarge; got: {err:?}"
    );
}

/// Serves `data[..fail_at]`, then fails for good with ErrorKind::BrokenPipe.
struct FailAfter<'a> {
    data: &'a [u8],
    pos: usize,
    fail_at: usize,
}

impl Read for FailAfter<'_> {
    fn read(&mut self, buf: &mut [u8]) -> io::Result<usize> {
        if self.pos >= self.fail_at {
            return Err(io::Error::new(io::ErrorKind::BrokenPipe, "injected fault"));
        }
        let n = buf.len().min(self.fail_at - self.pos);
        buf[..n].copy_from_slice(&self.data[self.pos..self.pos + n]);
        self.pos += n;
        Ok(n)
    }
}

#[test]
fn reader_error_inside_a_quoted_scalar_is_reported_by_from_reader() {
    let doc = b"\"hello world\"\n";
    let err = serde_saphyr::from_reader::<_, Value>(FailAfter { data: doc, pos: 0, fail_at: 5 })
        .expect_err("the reader failed");
    assert!(
        is_io_error(&err, io::ErrorKind::BrokenPipe),
        "the reader's error must be reported, got a syntax error for a well-formed document: {err:?}"
    );
}

#[test]
fn reader_error_inside_a_quoted_scalar_is_reported_by_with_deserializer() {
    use serde::Deserialize;
    let doc = b"\"hello world\"\n";
    let err = serde_saphyr::with_deserializer_from_reader(
        FailAfter { data: doc, pos: 0, fail_at: 5 },
        |de| Value::deserialize(de),
    )
    .expect_err("the reader failed");
    assert!(
        is_io_error(&err, io::ErrorKind::BrokenPipe),
        "the reader's error must be reported, got: {err:?}"
    );
}

#[test]
fn reader_error_inside_a_quoted_scalar_is_reported_by_the_iterator() {
    let doc = b"\"hello world\"\n";
    let mut reader = FailAfter { data: doc, pos: 0, fail_at: 5 };
    let items: Vec<Result<Value, Error>> = serde_saphyr::read(&mut reader).collect();
    assert!(
        items.iter().any(|r| matches!(r, Err(e) if is_io_error(e, io::ErrorKind::BrokenPipe))),
        "the iterator ended without ever reporting the reader's error: {items:?}"
    );
}
