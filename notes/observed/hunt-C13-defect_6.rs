// DEFECT 6 (property C13): an anchored (RcAnchor / ArcAnchor) enum variant with a payload: the
// anchor is attached to the PAYLOAD (or to the first field) instead of the variant's mapping
// node, so the alias written for the second occurrence denotes the payload, not the enum value.
//
// Violated clause: "... unit / newtype / tuple / struct enum variants, nested arbitrarily - and
// every valid serializer option set [... custom anchor names], the emitted text is a single
// well-formed YAML document that deserializes back into an equal value of the same type."
//
// Minimal input (default options), enum E { N(i32), T(i32, i32), S { a: i32 } }:
//   let r = Rc::new(E::N(1));  vec![RcAnchor(r.clone()), RcAnchor(r)]
// emits
//   - N: &a1 1          <- anchor on the payload `1`
//   - *a1               <- alias = 1, not {N: 1}
// -> "unknown variant `1`".   Likewise  "- T: &a1\n    - 1\n    - 2\n- *a1"  and
// "- S:\n    a: &a1 1\n- *a1".  Expected "- &a1\n  N: 1\n- *a1" (the form already used for an
// anchored struct or map).  Unit variants ("- &a1 U\n- *a1") are fine.
//
// Cause: src/ser.rs serialize_newtype_variant / serialize_tuple_variant /
// serialize_struct_variant write the "Variant:" label without first flushing
// `pending_anchor_id` (no call to write_anchor_for_complex_node), so the pending anchor is
// consumed by the next node that is written - the payload / the first field value.

use serde::{Deserialize, Serialize};
use serde_saphyr::RcAnchor;
use std::rc::Rc;

#[derive(Serialize, Deserialize, Debug, PartialEq, Clone)]
enum E {
    U,
    N(i32),
    T(i32, i32),
    S { a: i32 },
}

fn shared_twice(e: E) {
    let r = Rc::new(e.clone());
    let v = vec![RcAnchor(r.clone()), RcAnchor(r)];
    let yaml = serde_saphyr::to_string(&v).unwrap();
    let back: Vec<RcAnchor<E>> = serde_saphyr::from_str(&yaml)
        .unwrap_or_else(|err| panic!("emitted text does not parse back: {err}\n{yaml}"));
    assert_eq!(back.len(), 2, "emitted:\n{yaml}");
    assert_eq!(*back[0].0, e, "emitted:\n{yaml}");
    assert_eq!(*back[1].0, e, "emitted:\n{yaml}");
}

#[test]
fn unit_variant_is_fine() {
    shared_twice(E::U);
}

#[test]
fn anchored_newtype_variant() {
    shared_twice(E::N(1));
}

#[test]
fn anchored_tuple_variant() {
    shared_twice(E::T(1, 2));
}

#[test]
fn anchored_struct_variant() {
    shared_twice(E::S { a: 1 });
}

#[test]
fn anchored_newtype_variant_with_custom_anchor_names() {
    let r = Rc::new(E::N(1));
    let v = vec![RcAnchor(r.clone()), RcAnchor(r)];
    let opts = serde_saphyr::ser_options! { anchor_generator: Some(|id| format!("id{id}")) };
    let yaml = serde_saphyr::to_string_with_options(&v, opts).unwrap();
    let back: Vec<RcAnchor<E>> = serde_saphyr::from_str(&yaml)
        .unwrap_or_else(|err| panic!("emitted text does not parse back: {err}\n{yaml}"));
    assert_eq!(*back[1].0, E::N(1), "emitted:\n{yaml}");
}
