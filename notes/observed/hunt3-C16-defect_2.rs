// Defect 2 (C16): aliases inside the payload of a tag-selected tuple / sequence enum variant
// (`!Tup [*a, 2]`) lose their use site: a span-carrying element reports the anchor definition as
// `referenced`, and a type error caused by the aliased element reports the definition site only.
// The mapping notation `{Tup: [*a, 2]}` of the same value is right.
//
// Violated clause: "For a value reached through an alias or a merge the use-site location is that
// of the alias / merge entry and the definition-site location that of the anchored node, and an
// error caused by such a value reports both."
//
// Minimal input:
//     s: &a 7
//     e: !Tup [*a, 2]
// with  enum E { Tup(Spanned<i32>, Spanned<i32>) }.
//
// What the crate does: Tup.0.referenced == Tup.0.defined == 1:7 (the `7` of `s: &a 7`).
// With `s: &a x` the error is "line 1 column 7: invalid i32" with reference == defined == 1:7;
// line 2 is not mentioned.
// What it should do: referenced = 2:10 (the `*a` token), defined = 1:7 - what `{Tup: [*a, 2]}`
// gives (referenced 2:11 `*a`, defined 1:7; error: ref 2:11 / def 1:7).
// (This is not the already repaired case where the tagged node *itself* is reached through an
// alias: here the tagged node is plain and the alias is one of its elements.)
//
// Cause: src/de.rs, deserialize_enum(), arm `Some(Ev::SeqStart { .. })`: the payload is drained
// from the live source with `self.ev.next()` into `replay_events` - alias elements arrive already
// expanded to definition-site events and the injection frame that knows the alias token is gone -
// and replayed through `replay_source(..)`, i.e. `ReplayEvents::new(buf)`, whose
// reference_location() is the event's own location.
//
// Run: cargo test --offline --test defect_2

use serde::Deserialize;
use serde_saphyr::Spanned;

#[derive(Debug, Deserialize)]
#[allow(dead_code)]
enum E {
    Tup(Spanned<i32>, Spanned<i32>),
}

#[derive(Debug, Deserialize)]
#[allow(dead_code)]
struct Doc {
    s: String,
    e: E,
}

#[test]
fn mapping_notation_is_right() {
    // Control: the same value in mapping notation.
    let doc: Doc = serde_saphyr::from_str("s: &a 7\ne: {Tup: [*a, 2]}\n").unwrap();
    let E::Tup(first, _) = doc.e;
    assert_eq!((first.referenced.line(), first.referenced.column()), (2, 11));
    assert_eq!((first.defined.line(), first.defined.column()), (1, 7));
}

#[test]
fn spanned_element_of_tagged_variant_keeps_the_alias_as_use_site() {
    let yaml = "s: &a 7\ne: !Tup [*a, 2]\n";
    let doc: Doc = serde_saphyr::from_str(yaml).unwrap();
    let E::Tup(first, second) = doc.e;
    assert_eq!(first.value, 7);
    assert_eq!((first.defined.line(), first.defined.column()), (1, 7));
    // plain element: fine
    assert_eq!((second.referenced.line(), second.referenced.column()), (2, 14));
    assert_eq!(second.referenced, second.defined);
    // aliased element: use site must be the alias token `*a` at 2:10
    assert_eq!(
        (first.referenced.line(), first.referenced.column()),
        (2, 10),
        "referenced must be the alias token, not the anchor definition"
    );
    let off = first.referenced.span().byte_offset().unwrap() as usize;
    let len = first.referenced.span().byte_len().unwrap() as usize;
    assert_eq!(&yaml[off..off + len], "*a");
}

#[test]
fn type_error_in_tagged_variant_element_reports_both_sites() {
    #[derive(Debug, Deserialize)]
    #[allow(dead_code)]
    enum P {
        Tup(i32, i32),
    }
    #[derive(Debug, Deserialize)]
    #[allow(dead_code)]
    struct D {
        s: String,
        e: P,
    }
    let err = serde_saphyr::from_str::<D>("s: &a 世x\ne: !Tup [*a, 2]\n").unwrap_err();
    let locs = err.locations().expect("locations");
    assert_eq!(
        (locs.defined_location.line(), locs.defined_location.column()),
        (1, 7)
    );
    assert_eq!(
        (locs.reference_location.line(), locs.reference_location.column()),
        (2, 10),
        "the error must also name the alias that brought the value here; error: {err}"
    );
}
