// C04 defect 1: mapping keys that differ only in their application tag are treated as the SAME key
//
// Violated clause: "When the same key node (same structure, scalar text AND TAG; scalar, sequence
// or mapping) occurs more than once ..." and "Mappings without repeated keys deserialize
// identically under all three policies."
//
// Minimal input (no key is repeated: the two mapping keys carry different tags):
//
//     ? !t {a: 1}
//     : 1
//     ? !u {a: 1}
//     : 2
//
// What the crate does: Error -> "duplicate mapping key" at line 3 column 6; FirstWins -> the second
// entry is dropped (one entry left); LastWins -> two entries. The three policies disagree on a
// mapping that has no repeated key. The same happens for `!!set {a, b}` / `!!omap {a, b}` and for
// tagged mappings nested inside a sequence key (`[!t {a: 1}]` / `[!u {a: 1}]`).
//
// What it should do: accept the document under Error and deliver both entries under every policy -
// exactly what it already does for scalar and sequence keys (`!t a` / `!u a`, `!t [a]` / `!u [a]`,
// see the control test below, which passes).
//
// Cause: src/live_events.rs, `Event::MappingStart(anchor_id, _tag)` drops the tag: `Ev::MapStart`
// (src/de.rs) has no `tag` / `raw_tag` field, so `capture_node` (src/de.rs) builds
// `KeyFingerprint::Mapping(entries)` without the `.with_custom_tag(..)` step that the `SeqStart`
// and scalar arms apply.
//
// Run: cargo test --offline --test defect_1

use serde::de::{Deserialize, Deserializer, MapAccess, Visitor};
use serde_saphyr::options::DuplicateKeyPolicy;
use std::collections::BTreeMap;
use std::fmt;
use std::marker::PhantomData;

/// Order-preserving list of the pairs a mapping delivers.
#[derive(Debug, PartialEq)]
struct Pairs<K, V>(Vec<(K, V)>);

impl<'de, K: Deserialize<'de>, V: Deserialize<'de>> Deserialize<'de> for Pairs<K, V> {
    fn deserialize<D: Deserializer<'de>>(d: D) -> Result<Self, D::Error> {
        struct Vis<K, V>(PhantomData<(K, V)>);
        impl<'de, K: Deserialize<'de>, V: Deserialize<'de>> Visitor<'de> for Vis<K, V> {
            type Value = Pairs<K, V>;
            fn expecting(&self, f: &mut fmt::Formatter) -> fmt::Result {
                f.write_str("a mapping")
            }
            fn visit_map<A: MapAccess<'de>>(self, mut a: A) -> Result<Self::Value, A::Error> {
                let mut v = Vec::new();
                while let Some(e) = a.next_entry()? {
                    v.push(e);
                }
                Ok(Pairs(v))
            }
        }
        d.deserialize_map(Vis(PhantomData))
    }
}

fn parse<T: serde::de::DeserializeOwned>(
    yaml: &str,
    policy: DuplicateKeyPolicy,
) -> Result<T, serde_saphyr::Error> {
    let opts = serde_saphyr::options! { duplicate_keys: policy, };
    serde_saphyr::from_str_with_options::<T>(yaml, opts)
}

const POLICIES: [DuplicateKeyPolicy; 3] = [
    DuplicateKeyPolicy::Error,
    DuplicateKeyPolicy::FirstWins,
    DuplicateKeyPolicy::LastWins,
];

type MapKeyed = Pairs<BTreeMap<String, i32>, i32>;
type SeqKeyed = Pairs<Vec<String>, i32>;

fn key(k: &str, v: i32) -> BTreeMap<String, i32> {
    BTreeMap::from([(k.to_owned(), v)])
}

#[test]
fn control_sequence_keys_with_different_tags_are_different_keys() {
    let yaml = "? !t [a]\n: 1\n? !u [a]\n: 2\n";
    for p in POLICIES {
        let got: SeqKeyed = parse(yaml, p).unwrap_or_else(|e| panic!("{p:?}: {e}"));
        assert_eq!(
            got,
            Pairs(vec![(vec!["a".to_owned()], 1), (vec!["a".to_owned()], 2)]),
            "{p:?}"
        );
    }
}

#[test]
fn mapping_keys_with_different_tags_are_different_keys() {
    let yaml = "? !t {a: 1}\n: 1\n? !u {a: 1}\n: 2\n";
    let expected = Pairs(vec![(key("a", 1), 1), (key("a", 1), 2)]);
    for p in POLICIES {
        let got: MapKeyed = parse(yaml, p)
            .unwrap_or_else(|e| panic!("{p:?}: no key is repeated, yet the document fails: {e}"));
        assert_eq!(got, expected, "{p:?}: no key is repeated, all entries must be delivered");
    }
}

#[test]
fn set_and_omap_keys_are_different_keys() {
    // `!!set` and `!!omap` are different tags of the YAML type repository.
    let yaml = "? !!set {a: 1}\n: 1\n? !!omap {a: 1}\n: 2\n";
    let expected = Pairs(vec![(key("a", 1), 1), (key("a", 1), 2)]);
    for p in POLICIES {
        let got: MapKeyed = parse(yaml, p)
            .unwrap_or_else(|e| panic!("{p:?}: no key is repeated, yet the document fails: {e}"));
        assert_eq!(got, expected, "{p:?}");
    }
}

#[test]
fn tagged_mappings_nested_in_a_sequence_key() {
    let yaml = "? [!t {a: 1}]\n: 1\n? [!u {a: 1}]\n: 2\n";
    type T = Pairs<Vec<BTreeMap<String, i32>>, i32>;
    let expected = Pairs(vec![(vec![key("a", 1)], 1), (vec![key("a", 1)], 2)]);
    for p in POLICIES {
        let got: T = parse(yaml, p)
            .unwrap_or_else(|e| panic!("{p:?}: no key is repeated, yet the document fails: {e}"));
        assert_eq!(got, expected, "{p:?}");
    }
}
