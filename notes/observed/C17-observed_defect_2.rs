//! OBSERVED DEFECT 2 (unchanged crate, default features) - C17 reader snippets.
//!
//! `from_reader` accepts UTF-16 input (BOM sniffing, transcoded on the fly), but the ring of recent
//! bytes that snippets are cut from sits *below* the decoder and holds the raw UTF-16 bytes. They
//! are decoded with `String::from_utf8_lossy`, so the snippet is garbage (every other byte is a
//! NUL shown as '?', the BOM as U+FFFD) and the character columns of the location are applied to
//! that garbage: the marker for column 4 lands under ':' instead of 'x'.
//!
//!     error: line 2 column 4: invalid i32
//!     1 | ��a?:? ?1?
//!     2 | ?b?:? ?x?y?z?
//!       |    ^ invalid i32
//!     3 | ?
use serde::Deserialize;

#[derive(Debug, Deserialize)]
#[allow(dead_code)]
struct P {
    a: i32,
    b: i32,
}

#[test]
fn utf16_reader_snippet_shows_the_line_and_marks_the_column() {
    let yaml = "a: 1\nb: xyz\n";
    let mut bytes = vec![0xFF, 0xFE];
    for u in yaml.encode_utf16() {
        bytes.extend_from_slice(&u.to_le_bytes());
    }
    let err = serde_saphyr::from_reader::<_, P>(std::io::Cursor::new(bytes)).unwrap_err();
    let rendered = err.to_string();
    assert!(rendered.contains("line 2") && rendered.contains("column 4"), "{rendered}");
    let lines: Vec<&str> = rendered.lines().collect();
    // Plain fallback (no snippet) would be acceptable; a snippet has to show the real line.
    if let Some(i) = lines.iter().position(|l| l.contains("^ invalid i32")) {
        let marked = lines[i - 1];
        assert!(
            marked.contains("b: xyz"),
            "snippet does not show the error line `b: xyz`:\n{rendered}"
        );
        let caret = lines[i].chars().position(|c| c == '^').unwrap();
        let x = marked.chars().position(|c| c == 'x').unwrap();
        assert_eq!(caret, x, "marker not under the reported column:\n{rendered}");
    }
    assert!(!rendered.contains('\u{FFFD}'), "undecodable bytes in the report:\n{rendered}");
}
