// Needs the optional feature garde: run with
//   cargo test --offline --features garde --test defect_6
//
// VIOLATED CLAUSE (property C18): "every reported field path is mapped to the position where
// that field's value is used in the YAML".
//
// MINIMAL INPUT: a map of structs keyed by an integer
//
//     struct Item { #[garde(length(min = 2))] name: String }
//     struct Root { #[garde(dive)] items: BTreeMap<usize, Item> }
//
//     items:
//       1: {name: x}
//
// WHAT THE CRATE DOES: "validation error at items[1].name: length is lower than 2" without any
// position (Error::location() is None, no snippet). With `BTreeMap<String, Item>` and the very
// same document the issue is located at line 2 column 13.
//
// WHAT IT SHOULD DO: locate `items[1].name` at line 2 column 13.
//
// CAUSE: garde classifies a `usize` map key as `Kind::Index` (impl_path_component_kind!(usize
// => Index)), so src/path_map.rs path_key_from_garde() builds [Key items, Index 1, Key name].
// The recorder (src/de.rs, MA::next_value_seed) stores every mapping key as a `PathKind::Key`
// segment: [Key items, Key "1", Key name]. All passes of PathMap::search() require the segment
// kinds to be equal (`tk == ck`), and the last-resort pass
// segments_equal_key_to_index_fallback() only tolerates the opposite mix-up
// (target Key vs. recorded Index; `(Index, Key) => false`). An Index segment of the validation
// path must also be allowed to match a recorded Key segment with the same text.

use garde::Validate;
use serde::Deserialize;
use std::collections::BTreeMap;

#[derive(Debug, Deserialize, Validate)]
struct Item {
    #[garde(length(min = 2))]
    name: String,
}

#[derive(Debug, Deserialize, Validate)]
struct Root {
    #[garde(dive)]
    items: BTreeMap<usize, Item>,
}

#[derive(Debug, Deserialize, Validate)]
struct StringKeyed {
    #[garde(dive)]
    items: BTreeMap<String, Item>,
}

const YAML: &str = "items:\n  1: {name: x}\n";

#[test]
fn control_string_keyed_map_is_located() {
    // This passes: it only documents the expected behaviour.
    let err = serde_saphyr::from_str_valid::<StringKeyed>(YAML).expect_err("name is too short");
    let loc = err.location().expect("position of items.1.name");
    assert_eq!((loc.line(), loc.column()), (2, 13));
}

#[test]
fn issue_below_an_integer_map_key_is_located() {
    let err = serde_saphyr::from_str_valid::<Root>(YAML).expect_err("name is too short");
    let rendered = err.to_string();
    let loc = err.location().unwrap_or_else(|| {
        panic!("`items[1].name` must have a position (line 2 column 13); report:\n{rendered}")
    });
    assert_eq!((loc.line(), loc.column()), (2, 13), "report:\n{rendered}");
}
