// Needs optional features: run with
//   cargo test --offline --features garde,validator --test defect_1
//
// VIOLATED CLAUSE (property C18): "whenever it fails they return a validation error in which
// every reported field path is mapped to the position where that field's value is used in the
// YAML and, if the value came through an anchor, also to where it was defined."
//
// MINIMAL INPUT (an alias written inside a merged mapping that is written in place):
//
//     defs: &s x
//     leaf: {name: ok}
//     <<: {name: *s}
//
// `name` gets its value "x" through the alias `*s` at line 3 column 12; the anchor `&s x` is
// defined at line 1 column 10.
//
// WHAT THE CRATE DOES: the issue for `name` is reported with reference_location ==
// defined_location == line 1 column 10 (the anchor), rendered as a plain "(defined):1:10"
// snippet. The use site (line 3, the `*s`) is not reported at all and the report does not say
// that the value came through an anchor. The very same value supplied as `name: *s` (no merge)
// is reported correctly as "used here 3:7 / comes from the anchor at line 1 column 10".
//
// WHAT IT SHOULD DO: use site = line 3 column 12 (the alias token), definition = line 1
// column 10, for both validation crates.
//
// CAUSE: src/de.rs, collect_entries_from_map(): for a merged mapping "written in place"
// (`map_location == reference_location`) the use site of every entry is taken from
// `value.location()`. `capture_node` has already replaced an alias value by the events of the
// anchored node, so for `k: *alias` `value.location()` is the *definition* site; the alias token
// (available as `ev.reference_location()` after `ev.peek()` and before `capture_node(ev)`) is
// never looked at.

use serde::Deserialize;

mod g {
    use super::*;
    use garde::Validate;

    #[derive(Debug, Deserialize, Validate)]
    pub struct Leaf {
        #[garde(length(min = 2))]
        pub name: String,
    }

    #[derive(Debug, Deserialize, Validate)]
    pub struct Root {
        #[garde(skip)]
        #[serde(default)]
        #[allow(dead_code)]
        pub defs: Option<String>,
        #[garde(dive)]
        pub leaf: Leaf,
        #[garde(length(min = 2))]
        pub name: String,
    }
}

mod v {
    use super::*;
    use validator::Validate;

    #[derive(Debug, Deserialize, Validate)]
    pub struct Leaf {
        #[validate(length(min = 2))]
        pub name: String,
    }

    #[derive(Debug, Deserialize, Validate)]
    pub struct Root {
        #[serde(default)]
        #[allow(dead_code)]
        pub defs: Option<String>,
        #[validate(nested)]
        pub leaf: Leaf,
        #[validate(length(min = 2))]
        pub name: String,
    }
}

const YAML: &str = "defs: &s x\nleaf: {name: ok}\n<<: {name: *s}\n";

fn check(err: serde_saphyr::Error) {
    let rendered = err.to_string();
    let locs = err.locations().expect("the failed field has a position");
    let used = (locs.reference_location.line(), locs.reference_location.column());
    let defined = (locs.defined_location.line(), locs.defined_location.column());
    assert_eq!(
        defined,
        (1, 10),
        "definition site must be the anchored scalar `&s x`; report:\n{rendered}"
    );
    assert_eq!(
        used,
        (3, 12),
        "use site must be the alias token `*s` on line 3; report:\n{rendered}"
    );
    assert!(
        rendered.contains("3:12") || rendered.contains("line 3 column 12"),
        "the report must show where the value is used (line 3 column 12):\n{rendered}"
    );
}

#[test]
fn control_same_alias_without_merge_is_located() {
    // This passes: it only documents the expected behaviour.
    let err = serde_saphyr::from_str_valid::<g::Root>("defs: &s x\nleaf: {name: ok}\nname: *s\n")
        .expect_err("name is too short");
    let locs = err.locations().unwrap();
    assert_eq!((locs.reference_location.line(), locs.reference_location.column()), (3, 7));
    assert_eq!((locs.defined_location.line(), locs.defined_location.column()), (1, 10));
}

#[test]
fn garde_alias_inside_in_place_merge_keeps_its_use_site() {
    check(serde_saphyr::from_str_valid::<g::Root>(YAML).expect_err("name is too short"));
}

#[test]
fn validator_alias_inside_in_place_merge_keeps_its_use_site() {
    check(serde_saphyr::from_str_validate::<v::Root>(YAML).expect_err("name is too short"));
}
