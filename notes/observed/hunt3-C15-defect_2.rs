// Defect 2 (C15, borderline - nested inside a user budget callback, not inside a Deserialize
// impl): a parse started while another parse is delivering its budget report panics inside the
// crate, although the same call succeeds as the first call on a fresh thread.
//
// No optional features needed:  cargo test --offline --test defect_2
//
// Violated clause: "The result of any ... deserialization call is the same whether it is the
// first call on a fresh thread or follows - or is nested inside a user [callback] of - any
// sequence of other ... calls on the same thread."  Also the documentation of
// `Options::with_budget_report`: "Any closure can be used, including ones that capture state
// from the surrounding scope", and the crate's headline claim of panic-free parsing.
//
// Minimal scenario: `opts = Options::default().with_budget_report(cb)`; `cb` (user code: e.g. it
// re-reads a small config / log template with the application's one shared `Options`) calls
// `from_str_with_options("[1, 2, 3]", opts.clone())`.  `Options: Clone` shares the callback
// (`Rc<RefCell<dyn FnMut>>`) between the clones.
//
// What the crate does: the outer call holds `callback.borrow_mut()` while the user closure runs;
// the nested call reaches its own `finish()` and does `borrow_mut()` on the same cell ->
// panic "already borrowed: BorrowMutError" out of `serde_saphyr::from_str_with_options`.
// What it should do: return `Ok([1, 2, 3])` as on a fresh thread (e.g. `try_borrow_mut` and skip
// / defer the re-entrant report), never panic.
//
// Cause: src/live_events.rs `LiveEvents::finish`: `callback.borrow_mut()(report)` - the borrow
// flag of the shared cell is hidden state that is held across the user callback.
use std::cell::{Cell, RefCell};
use std::panic::{catch_unwind, AssertUnwindSafe};
use std::rc::Rc;

fn nested_call(opts: serde_saphyr::Options) -> String {
    let r = catch_unwind(AssertUnwindSafe(|| {
        serde_saphyr::from_str_with_options::<Vec<i32>>("[1, 2, 3]", opts)
    }));
    match r {
        Ok(v) => format!("{v:?}"),
        Err(_) => "PANIC".to_string(),
    }
}

fn make_options(
    slot: &Rc<RefCell<Option<serde_saphyr::Options>>>,
    seen: &Rc<RefCell<Vec<String>>>,
) -> serde_saphyr::Options {
    let slot2 = slot.clone();
    let seen2 = seen.clone();
    let busy = Rc::new(Cell::new(false));
    let opts = serde_saphyr::Options::default().with_budget_report(move |_report| {
        if busy.replace(true) {
            return; // the report of the nested call itself: nothing to do
        }
        let Some(shared) = slot2.borrow().clone() else {
            return;
        };
        seen2.borrow_mut().push(nested_call(shared));
        busy.set(false);
    });
    *slot.borrow_mut() = Some(opts.clone());
    opts
}

#[test]
fn parse_nested_in_budget_callback_behaves_like_on_a_fresh_thread() {
    // (panic messages of the caught nested panic are left visible on purpose)

    // Reference: the very same nested call, as the first call on a fresh thread.
    // (The slot is emptied again, so that this reference call does not itself nest another one.)
    let reference = std::thread::spawn(|| {
        let slot = Rc::new(RefCell::new(None));
        let seen = Rc::new(RefCell::new(Vec::new()));
        let opts = make_options(&slot, &seen);
        *slot.borrow_mut() = None;
        nested_call(opts)
    })
    .join()
    .unwrap();
    assert_eq!(reference, "Ok([1, 2, 3])");

    // The same call, nested inside the budget callback of an outer (successful) call.
    let slot = Rc::new(RefCell::new(None));
    let seen = Rc::new(RefCell::new(Vec::new()));
    let opts = make_options(&slot, &seen);
    let outer: Vec<i32> = serde_saphyr::from_str_with_options("[7]", opts).expect("outer parses");
    assert_eq!(outer, vec![7]);

    let seen = seen.borrow();
    assert_eq!(seen.len(), 1, "callback ran once for the outer call");
    assert_eq!(
        seen[0], reference,
        "nested call differs from the same call on a fresh thread"
    );
}
