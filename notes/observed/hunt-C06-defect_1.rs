// Defect 1 (property C06): a `!!binary` payload whose base64 text happens to spell a
// null-like token is taken for a null instead of being decoded (or rejected).
//
// Violated clause: "`!!binary` payloads (strict canonical base64) follow the documented
// tables" and "A scalar is interpreted from its text, style, tag, the requested Rust type
// and the options only".  The crate itself states the rule in `deserialize_option`
// (src/de.rs): "a `!!binary` scalar is a payload, never a null: the base64 text of some
// byte strings spells `null`".
//
// Minimal inputs:
//   `!!binary null`  - canonical base64 of the three bytes 9E E9 65
//   `!!binary NUll`  - canonical base64 of the UTF-8 text "5Ie"
//   `!!binary ~`     - not base64 at all
//
// What the crate does:
//   Vec<u8>            <- `!!binary null`   => Ok([])            (payload silently lost)
//   Option<Vec<u8>>    <- `!!binary null`   => Ok(Some([]))      (ditto)
//   Vec<u8>            <- `!!binary ~`      => Ok([])            (invalid base64 accepted)
//   String             <- `!!binary NUll`   => Err(cannot deserialize null into string)
//   serde_json::Value  <- `!!binary NUll`   => Ok(Null)
// What it should do: decode -> [0x9E, 0xE9, 0x65] / "5Ie", and report invalid base64 for `~`
// (exactly what `serde_bytes::ByteBuf`, which goes through deserialize_bytes, already does).
//
// Cause: src/de.rs - `deserialize_seq` tests `tag == Null || scalar_is_nullish(s, style)`
// BEFORE it tests `tag == &SfTag::Binary`; `deserialize_string`, `deserialize_str` and
// `deserialize_any` likewise run `scalar_is_nullish` without exempting SfTag::Binary.
//
// Run: cargo test --offline --test defect_1   (no optional features needed)

use serde_json::Value;

#[test]
fn binary_payload_spelling_null_is_decoded_into_vec_u8() {
    let v: Vec<u8> = serde_saphyr::from_str("!!binary null").expect("valid canonical base64");
    assert_eq!(
        v,
        vec![0x9E, 0xE9, 0x65],
        "`!!binary null` is the base64 of 9E E9 65, not an empty byte string"
    );
}

#[test]
fn binary_payload_spelling_null_is_decoded_inside_option_and_struct() {
    let v: Option<Vec<u8>> = serde_saphyr::from_str("!!binary Null").expect("valid base64");
    assert_eq!(v, Some(vec![0x36, 0xE9, 0x65]));

    #[derive(serde::Deserialize, Debug)]
    struct Blob {
        data: Vec<u8>,
    }
    let b: Blob = serde_saphyr::from_str("data: !!binary null\n").expect("valid base64");
    assert_eq!(b.data, vec![0x9E, 0xE9, 0x65]);
}

#[test]
fn tilde_is_not_base64() {
    let r: Result<Vec<u8>, _> = serde_saphyr::from_str("!!binary ~");
    assert!(
        r.is_err(),
        "`~` is not base64 (length 1, outside the alphabet) but was accepted as {:?}",
        r
    );
}

#[test]
fn binary_payload_spelling_null_is_decoded_into_string_and_value() {
    // "NUll" is the canonical base64 of the ASCII text "5Ie".
    let s: String = serde_saphyr::from_str("!!binary NUll").expect("valid base64 of UTF-8 text");
    assert_eq!(s, "5Ie");
    let v: Value = serde_saphyr::from_str("!!binary NUll").expect("valid base64 of UTF-8 text");
    assert_eq!(v, Value::String("5Ie".to_owned()));
}
