// Defect 4 (property C13): inside a mapping that starts inline after a sequence dash
// ("- key: v"), entries with an explicit key ("? key" / ": value") are misaligned when
// indent_step != 2.  Ordinary keys and the ':' line of such a mapping are put two columns after
// the dash (`dash_column + 2`), but the "? " indicator of the second and later entries - and the
// continuation lines of a struct / map key - are put on a multiple of the indentation step.
//
// Violated clause: "... maps with string, non-string and composite keys ... in every parent
//   position (root, sequence item, mapping value, ...) ... x all combinations of indent step ..."
//   -> "the emitted text is a single well-formed YAML document that deserializes back into an
//   equal value".
//
// Minimal input A: vec![ {(1,): 3, (4,): 6} ]  (BTreeMap<(i32,), i32> in a Vec), indent_step 4:
//     - ? - 1
//       : 3
//         ? - 4      <- column 4, the first '?' is in column 2
//       : 6
//   -> "while parsing a block mapping, did not find expected key".
// Minimal input B: vec![ {P{x:1,y:2}: 0} ]  (struct key), indent_step 4:
//     - ? x: 1
//           "y": 2   <- column 6, `x` is in column 4
//       : 0
//   -> "mapping values are not allowed in this context".
// With the default indent_step 2 both are fine; the same value at the root or as a mapping
// value is fine with every step.  (One-item sequence keys are used in A so that defect 3 -
// continuation items of a sequence key - does not interfere.)
//
// Cause: src/ser.rs MapSer::serialize_key, non-scalar key branch: `self.ser.write_indent(self.depth)`
//   ignores `self.align_after_dash` (the scalar-key branch and serialize_value's ':' line honour
//   it), and it hands `self.depth` to the key as depth / current_map_depth, so a mapping key
//   aligns its later lines at `depth * step + 2` although its first key is at `dash + 4`.
use serde::{Deserialize, Serialize};
use serde_saphyr::ser_options;
use std::collections::BTreeMap;

#[derive(Serialize, Deserialize, PartialEq, Eq, PartialOrd, Ord, Debug, Clone)]
struct P {
    x: i32,
    y: i32,
}

fn check<T>(v: &T, opts: serde_saphyr::SerializerOptions, what: &str)
where
    T: Serialize + for<'de> Deserialize<'de> + PartialEq + std::fmt::Debug,
{
    let yaml = serde_saphyr::to_string_with_options(v, opts).unwrap();
    match serde_saphyr::from_str::<T>(&yaml) {
        Ok(back) => assert_eq!(&back, v, "{what}: value changed; emitted text:\n{yaml}"),
        Err(e) => panic!("{what}: emitted text does not read back: {e}\nemitted text:\n{yaml}"),
    }
}

fn two_sequence_keys() -> Vec<BTreeMap<(i32,), i32>> {
    let mut m = BTreeMap::new();
    m.insert((1,), 3);
    m.insert((4,), 6);
    vec![m]
}

fn struct_key() -> Vec<BTreeMap<P, i32>> {
    let mut m = BTreeMap::new();
    m.insert(P { x: 1, y: 2 }, 0);
    vec![m]
}

#[test]
fn default_step_is_fine() {
    check(&two_sequence_keys(), ser_options! {}, "two '?' entries, step 2");
    check(&struct_key(), ser_options! {}, "struct key, step 2");
}

#[test]
fn second_explicit_key_in_sequence_item_step_4() {
    check(&two_sequence_keys(), ser_options! { indent_step: 4 }, "two '?' entries, step 4");
}

#[test]
fn second_explicit_key_in_sequence_item_step_3() {
    check(&two_sequence_keys(), ser_options! { indent_step: 3 }, "two '?' entries, step 3");
}

#[test]
fn struct_key_in_sequence_item_step_4() {
    check(&struct_key(), ser_options! { indent_step: 4 }, "struct key, step 4");
}
