// C08 defect 1: a %TAG directive lets tag text expand far beyond the input, and no budget counts it.
//
// Violated clause: "peak heap use stays within a fixed multiple of input size plus budget-counted
// events" / "What deserialization costs is bounded by the configured limits, not by what the input
// could expand to."
//
// Minimal input (L = length of the %TAG prefix, n = number of tagged nodes):
//
//     %TAG !e! tag:example.com,2000:aaaa...a      <- L bytes, written once
//     ---
//     &x
//     - !e!t 1                                     <- 9 bytes, written n times
//     - !e!t 1
//     ...
//
// What the crate does: every tagged event gets its own owned copy of the *resolved* tag
// (prefix + suffix, L+1 bytes): `raw_tag: tag.as_ref().map(|t| Cow::Owned(t.to_string()))` in
// src/live_events.rs `next_impl` (Event::Scalar / Event::SequenceStart arms). As soon as the events
// are retained - recorded below an anchor (`RecFrame.buf`, `LiveEvents::anchors`), captured by
// `capture_node` for a key / merge value, or put into the duplicate-key set as
// `KeyFingerprint::Tagged(raw.to_owned(), ..)` (src/de.rs) - the heap holds n x L bytes for an input
// of L + 9n bytes. `Budget` has no limit that sees tag bytes (`max_total_scalar_bytes` counts only
// `Scalar.value.len()`), so the default budget accepts it: a 95 KB document below makes the parser
// hold ~250 MB; with n = 100_000 (still inside max_nodes = 250_000) and L = 1 MB it would be 100 GB.
//
// What it should do: stay within 64 KiB + 16 x (input + 96 B x events) (the bound the property uses
// for the known anchored-nesting case), e.g. by keeping tags borrowed / shared (Rc<str>) or by
// charging resolved tag bytes to a budget.
//
// Run: cargo test --offline --test defect_1 -- --test-threads=1

use serde::de::IgnoredAny;
use std::cell::RefCell;
use std::collections::HashMap;
use std::rc::Rc;

fn status_kb(key: &str) -> usize {
    let s = std::fs::read_to_string("/proc/self/status").expect("needs Linux /proc");
    for line in s.lines() {
        if let Some(rest) = line.strip_prefix(key) {
            return rest
                .trim_start_matches(':')
                .trim()
                .trim_end_matches("kB")
                .trim()
                .parse()
                .unwrap();
        }
    }
    panic!("no {key} in /proc/self/status");
}

/// Growth of the resident set (bytes) while `f` runs: peak RSS (VmHWM, reset first) minus the RSS
/// right before the call. Safe code only (the crate forbids `unsafe`, so no counting allocator).
fn peak_growth<R>(f: impl FnOnce() -> R) -> (R, usize) {
    let _ = std::fs::write("/proc/self/clear_refs", "5"); // reset VmHWM
    let base = status_kb("VmRSS");
    let r = f();
    let peak = status_kb("VmHWM");
    (r, peak.saturating_sub(base) * 1024)
}

fn run<T: serde::de::DeserializeOwned>(name: &str, yaml: &str) {
    let events = Rc::new(RefCell::new(0usize));
    let events2 = events.clone();
    let opts = serde_saphyr::Options::default().with_budget_report(move |r| {
        *events2.borrow_mut() = r.events;
    });
    let (res, peak) = peak_growth(|| serde_saphyr::from_str_with_options::<T>(yaml, opts).map(|_| ()));
    res.expect("the document is well inside the default budget and is accepted");
    let events = *events.borrow();
    assert!(events > 0, "budget report not delivered");
    let bound = 64 * 1024 + 16 * (yaml.len() + 96 * events);
    println!(
        "{name}: input={} B, budget-counted events={events}, peak heap growth={peak} B, bound={bound} B",
        yaml.len()
    );
    assert!(
        peak <= bound,
        "{name}: peak heap growth {peak} B exceeds 64 KiB + 16 x (input {} B + 96 B x {events} events) = {bound} B",
        yaml.len()
    );
}

fn directive(l: usize) -> String {
    let mut y = String::from("%TAG !e! tag:example.com,2000:");
    y.extend(std::iter::repeat('a').take(l));
    y.push_str("\n---\n");
    y
}

#[test]
fn tagged_nodes_below_an_anchor() {
    let (l, n) = (50_000usize, 5_000usize);
    let mut y = directive(l);
    y.push_str("&x\n");
    for _ in 0..n {
        y.push_str("- !e!t 1\n");
    }
    run::<IgnoredAny>("anchored sequence of tagged scalars", &y);
}

#[test]
fn tagged_mapping_keys_no_anchor_at_all() {
    // Same root cause, other retention path: the duplicate-key set keeps the resolved tag of
    // every key (KeyFingerprint::Tagged).
    let (l, n) = (50_000usize, 5_000usize);
    let mut y = directive(l);
    for i in 0..n {
        y.push_str(&format!("!e!t k{i}: 1\n"));
    }
    run::<HashMap<String, IgnoredAny>>("mapping with tagged keys", &y);
}
