// C16 defect 5: the byte / char range reported for a block scalar that begins with empty lines
// does not cover those lines, although they are part of the node (they are in its value).
//
// Violated clause: "for a span-carrying scalar the reported byte range is exactly that node's
//   source text".
//
// Minimal input:  "a: |\n\n  x\nb: c\n"      (a: Spanned<String>)
// What the crate does: value == "\nx\n" (the leading empty line is content), but the reported
//   range is bytes 8..10 = "x\n", starting at line 3 column 3. The empty line (byte 5) that
//   produced the first "\n" of the value is outside the range. Trailing empty lines ARE
//   included (`|` with "  x\n\n  y\n\n\n" reports "x\n\n  y\n\n\n"), so the range is neither
//   "the text that makes up the value" nor "the content lines" consistently. Same for `>`,
//   `|-`, `|2`, CRLF input and block scalars that are sequence items.
// What it should do: start the range where the scalar's content starts - at the first line
//   after the header (byte 5, line 2) - or at the `|` indicator.
//
// Cause: the span comes from saphyr-parser-bw (the scanner sets the start mark after skipping
//   the leading blank lines while determining the indentation); src/location.rs
//   location_from_span() passes it on unchanged.

use serde::Deserialize;
use serde_saphyr::Spanned;

#[derive(Debug, Deserialize)]
struct Doc {
    a: Spanned<String>,
}

#[test]
fn block_scalar_range_covers_its_leading_empty_lines() {
    for (yaml, value) in [
        ("a: |\n\n  x\nb: c\n", "\nx\n"),
        ("a: >\n\n  x\n  y\nb: c\n", "\nx y\n"),
        ("a: |-\n\n\n  x\nb: c\n", "\n\nx"),
    ] {
        let d: Doc = serde_saphyr::from_str(yaml).unwrap();
        assert_eq!(d.a.value, value);
        let span = d.a.referenced.span();
        let start = span.byte_offset().expect("byte offset") as usize;
        let end = start + span.byte_len().unwrap() as usize;
        let first_content_byte = yaml.find('\n').unwrap() + 1; // first line after the header
        assert!(
            start <= first_content_byte,
            "{yaml:?}: range {start}..{end} = {:?} leaves out the leading empty line(s) that are part of the value {value:?}",
            &yaml[start..end]
        );
    }
}
