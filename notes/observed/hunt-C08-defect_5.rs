// C08 defect 5: `AliasLimits::max_total_replayed_events` is documented (and named in the property)
// as a total, but it starts from zero again at every document boundary.
//
// Violated clause: "alias replay never exceeds the configured total-replayed-events ... limits".
// The crate's own documentation (src/options.rs):
//     /// Maximum total number of **replayed** events injected from aliases across the entire parse.
//     pub max_total_replayed_events: usize,
// and src/live_events.rs:
//     /// Total number of replayed events across the whole stream (enforced by `alias_limits`).
//     total_replayed_events: usize,
//
// Minimal input, with `alias_limits.max_total_replayed_events = 4`, read with
// `from_multiple_with_options`:
//
//     - &a [1, 2]
//     - *a            <- replays 4 events: [ 1 2 ]
//     ---
//     - &a [1, 2]
//     - *a            <- 4 more
//     ---
//     - &a [1, 2]
//     - *a            <- 4 more: 12 replayed events in one parse, limit 4
//
// What the crate does: accepts it and delivers all 12 replayed events. `reset_document_state`
// (src/live_events.rs), run for every DocumentStart / DocumentEnd, does
// `self.total_replayed_events = 0;`. The same 8 replayed events inside ONE document are rejected
// ("alias replay limit exceeded: total_replayed_events=5 > 4"), so the limit bounds a document, not
// the parse: with the budget switched off (`budget: None`, a documented configuration) nothing
// bounds the total replay of a `from_multiple` / `from_slice_multiple` call any more.
//
// What it should do: reject the stream at the 5th replayed event (or document the limit as
// per-document; for the AllContent entry points the budget counters are NOT reset per document,
// the alias counters are).
//
// Run: cargo test --offline --test defect_5

use serde_saphyr::Options;

fn options() -> Options {
    let mut opts = Options::default();
    opts.alias_limits.max_total_replayed_events = 4;
    opts
}

#[test]
fn limit_is_enforced_within_one_document() {
    // control: 8 replayed events in one document are rejected at the fifth
    let one_doc = "- &a [1, 2]\n- *a\n- *a\n";
    let r: Result<Vec<Vec<Vec<i32>>>, _> = serde_saphyr::from_multiple_with_options(one_doc, options());
    let msg = r.unwrap_err().to_string();
    assert!(msg.contains("total_replayed_events=5 > 4"), "{msg}");
}

#[test]
fn total_replayed_events_is_a_total_over_the_parse() {
    let doc = "- &a [1, 2]\n- *a\n";
    let stream = [doc, doc, doc].join("---\n");
    let r: Result<Vec<Vec<Vec<i32>>>, _> = serde_saphyr::from_multiple_with_options(&stream, options());
    match r {
        Err(e) => assert!(e.to_string().contains("alias replay limit exceeded"), "{e}"),
        Ok(v) => {
            let replayed: usize = v.iter().map(|d| 2 + d[1].len()).sum();
            panic!(
                "max_total_replayed_events = 4, but one parse replayed {replayed} events \
                 (delivered {v:?}): the counter restarts at every document"
            );
        }
    }
}
