// DEFECT 5 - when the input does not end with a line break, every location that falls on the
// end of input has line / column that contradict its offset: line = (last line + 1),
// column = 1, while the character / byte offset = length of the text (which is on the last
// line). The reported line does not exist in the input.
//
// Property clause violated:
//   "Every location reported for in-memory input - on errors and on span-carrying values -
//    lies inside the input, and its line, column, character offset and byte offset all denote
//    the same position of the (BOM-stripped) text"
//
// Minimal inputs (no trailing newline):
//   (a) "a: 1\nb: &x"  as BTreeMap<String,i32>      (empty anchored node at end of input)
//   (b) "a: 1\nb: &x"  as BTreeMap<String,Spanned<Option<i32>>>
//   (c) "a: 1\nb"      (scan error "simple key expected")
//   (d) "---"          as i32
//
// What the crate does:
//   (a) "invalid i32 at line 3, column 1"; span offset 10, byte offset 10. The text has two
//       lines; offset 10 is line 2, column 6. (The snippet cannot even be rendered, the
//       message falls back to the plain form.)
//   (b) Spanned for `b`: line 3, column 1, offset 10.
//   (c) "simple key expected at line 3, column 1", offset 6 (= line 2, column 2).
//   (d) "invalid i32 at line 2, column 1", offset 3 (= line 1, column 4).
//   With a trailing "\n" all of these are consistent.
// What it should do: line 2, column 6 for offset 10 (or, if line 3 column 1 were meant, an
//   offset that corresponds to it - but no such position exists in the text).
//
// Cause: saphyr-parser's marker at end of input is advanced as if a line break had been
//   consumed (line+1, col 0) while its index is not; src/location.rs location_from_span() and
//   src/de_error.rs Error::from_scan_error() copy line()/col()/index() verbatim without
//   reconciling them.

use serde_saphyr::{Location, Spanned};
use std::collections::BTreeMap;

/// line / column (1-based) of the character offset `off` in `text`.
fn line_col(text: &str, off: usize) -> (u64, u64) {
    let (mut line, mut col) = (1u64, 1u64);
    let chars: Vec<char> = text.chars().collect();
    let mut i = 0;
    while i < off {
        match chars[i] {
            '\n' => {
                line += 1;
                col = 1;
            }
            '\r' => {
                if chars.get(i + 1) == Some(&'\n') {
                    i += 1;
                }
                line += 1;
                col = 1;
            }
            _ => col += 1,
        }
        i += 1;
    }
    (line, col)
}

fn assert_consistent(text: &str, loc: &Location, what: &str) {
    let off = loc.span().offset() as usize;
    assert!(off <= text.chars().count(), "{what}: offset outside input");
    assert_eq!(
        (loc.line(), loc.column()),
        line_col(text, off),
        "{what}: line/column do not denote the same position as offset {off} in {text:?}"
    );
}

#[test]
fn type_error_at_end_of_input_without_newline() {
    let yaml = "a: 1\nb: &x";
    let err = serde_saphyr::from_str::<BTreeMap<String, i32>>(yaml).unwrap_err();
    let loc = err.location().expect("location");
    assert_consistent(yaml, &loc, "type error");
}

#[test]
fn spanned_at_end_of_input_without_newline() {
    let yaml = "a: 1\nb: &x";
    let m: BTreeMap<String, Spanned<Option<i32>>> = serde_saphyr::from_str(yaml).unwrap();
    assert_consistent(yaml, &m["b"].referenced, "Spanned::referenced");
    assert_consistent(yaml, &m["b"].defined, "Spanned::defined");
}

#[test]
fn scan_error_at_end_of_input_without_newline() {
    let yaml = "a: 1\nb";
    let err = serde_saphyr::from_str::<BTreeMap<String, i32>>(yaml).unwrap_err();
    let loc = err.location().expect("location");
    assert_consistent(yaml, &loc, "scan error");
}

#[test]
fn empty_document_marker_without_newline() {
    let yaml = "---";
    let err = serde_saphyr::from_str::<i32>(yaml).unwrap_err();
    let loc = err.location().expect("location");
    assert_consistent(yaml, &loc, "error for `---`");
}

#[test]
fn control_with_trailing_newline_is_consistent() {
    let yaml = "a: 1\nb: &x\n";
    let err = serde_saphyr::from_str::<BTreeMap<String, i32>>(yaml).unwrap_err();
    let loc = err.location().expect("location");
    assert_consistent(yaml, &loc, "type error");
}
