// DEFECT 5 (C18): the "defined here" window of an issue that came through an anchor shows a
// source line as EMPTY although that line of the YAML is not empty.
//
// Needs: cargo test --offline --features garde,validator,miette,robotics --test defect_5
//        (only `garde` is really required)
//
// Violated clause: "... mapped to the position where that field's value is used in the YAML
// and, if the value came through an anchor, also to where it was defined" / mechanism "rendering
// picks the snippet region covering each issue": the region picked for the definition site does
// not hold all the lines that are printed from it.
//
// Minimal input:
//
//     1 defs:
//     2   - &it
//     3     itemName: x
//     4     qty: 0
//     5 name: ab
//     6 items:
//     7   - *it
//
// What the crate does: for `items[0].qty` (defined at line 4 column 10) it prints
//
//     2 |   - &it
//     3 |     itemName: x
//     4 |     qty: 0
//       |          ^ defined here
//     5 | name: ab
//     6 |                      <- line 6 of the input is `items:`
//
// What it should do: print `6 | items:` (or stop at line 5) - never a numbered line whose text
// differs from the input.
//
// Cause: the region cropped for the first issue's definition site (line 3 -> lines 1..=5) ends
// with a line break, so CroppedRegion::end_line (src/de_error.rs, with_snippet /
// line_count_including_trailing_empty_line) is 6 and the region "covers" line 4 of the second
// issue; pick_cropped_region returns it (first match) instead of the region made for line 4
// (lines 2..=6). fmt_snippet_window_with_mapping_or_fallback (src/de/snippet.rs) then takes the
// phantom line after the last line break of that text for line 6 of the input and prints it as
// an empty line.

use garde::Validate;
use serde::Deserialize;

#[derive(Debug, Deserialize, Validate)]
#[serde(rename_all = "camelCase")]
#[allow(dead_code)]
struct Item {
    #[garde(length(min = 2))]
    item_name: String,
    #[garde(range(min = 1))]
    qty: u32,
}

#[derive(Debug, Deserialize, Validate)]
#[allow(dead_code)]
struct Root {
    #[garde(skip)]
    defs: serde::de::IgnoredAny,
    #[garde(skip)]
    name: String,
    #[garde(dive)]
    items: Vec<Item>,
}

#[test]
fn every_numbered_snippet_line_shows_the_text_of_that_input_line() {
    let yaml = "defs:\n  - &it\n    itemName: x\n    qty: 0\nname: ab\nitems:\n  - *it\n";
    let source: Vec<&str> = yaml.lines().collect();

    let err = serde_saphyr::from_str_valid::<Root>(yaml).expect_err("must fail validation");
    let rendered = err.to_string();
    assert!(rendered.contains("line 4 column 10"), "{rendered}");

    let mut checked = 0;
    for line in rendered.lines() {
        // numbered snippet lines look like `<n> | <text>` / `<n> |`
        let t = line.trim_start();
        let digits: String = t.chars().take_while(|c| c.is_ascii_digit()).collect();
        if digits.is_empty() {
            continue;
        }
        let Some(rest) = t[digits.len()..].strip_prefix(" |") else {
            continue;
        };
        let n: usize = digits.parse().unwrap();
        let shown = rest.strip_prefix(' ').unwrap_or(rest);
        assert!(n >= 1 && n <= source.len(), "line number {n} out of range in:\n{rendered}");
        assert_eq!(
            shown,
            source[n - 1],
            "snippet line {n} does not show the text of input line {n}; report:\n{rendered}"
        );
        checked += 1;
    }
    assert!(checked > 0, "no snippet lines found in:\n{rendered}");
}
