// Needs optional features: run with
//   cargo test --offline --features garde,validator --test defect_2
//
// VIOLATED CLAUSE (property C18): "every reported field path is mapped to the position where that
// field's value is used in the YAML and, if the value came through an anchor, also to where it
// was defined."  (Here no anchor exists at all, yet the report claims one, and the use site is
// the wrong node.)
//
// MINIMAL INPUT (a nested struct inside a merged mapping that is written in place):
//
//     name: ok
//     <<: {leaf: {name: x}}
//
// The failing value of `leaf.name` is the plain scalar `x` at line 2 column 19. There is no
// anchor and no alias in the document.
//
// WHAT THE CRATE DOES: `leaf.name` gets reference_location = line 2 column 12 (the `{` that
// opens `leaf`) and defined_location = line 2 column 19, and the report reads
//     "the value is used here:2:12 ... This value comes indirectly from the anchor at line 2
//      column 19"
// The same happens for sequence elements (`<<: {leaves: [{name: z}]}`), and in block style.
// The direct children of the in-place mapping (`<<: {name: x}`) were repaired earlier; anything
// nested one level deeper was not.
//
// WHAT IT SHOULD DO: one position, line 2 column 19, and no "comes from the anchor" text -
// exactly as for `leaf: {name: x}` written without the merge key.
//
// CAUSE: src/de.rs. collect_entries_from_map() stores `value.location()` (start of the *entry*
// value, here the `{` of `leaf`) as the entry's reference location; MA::next_value_seed replays
// the entry through `ReplayEvents::with_reference(events, reference_location)`, whose
// `reference_location()` returns that one fixed override for *every* node of the replayed
// subtree. The nested MA / SA then record `reference_location` (the override) next to
// `defined_location` (the node itself): the two differ, so the renderer takes the value for an
// alias. For an in-place mapping the replay needs no override (ReplayEvents::new), so that
// nested nodes report their own position.

use serde::Deserialize;

mod g {
    use super::*;
    use garde::Validate;

    #[derive(Debug, Deserialize, Validate)]
    pub struct Leaf {
        #[garde(length(min = 2))]
        pub name: String,
    }

    #[derive(Debug, Deserialize, Validate)]
    pub struct Root {
        #[garde(dive)]
        pub leaf: Leaf,
        #[garde(length(min = 2))]
        pub name: String,
    }
}

mod v {
    use super::*;
    use validator::Validate;

    #[derive(Debug, Deserialize, Validate)]
    pub struct Leaf {
        #[validate(length(min = 2))]
        pub name: String,
    }

    #[derive(Debug, Deserialize, Validate)]
    pub struct Root {
        #[validate(nested)]
        pub leaf: Leaf,
        #[validate(length(min = 2))]
        pub name: String,
    }
}

const YAML: &str = "name: ok\n<<: {leaf: {name: x}}\n";

fn check(err: serde_saphyr::Error) {
    let rendered = err.to_string();
    let locs = err.locations().expect("the failed field has a position");
    let used = (locs.reference_location.line(), locs.reference_location.column());
    let defined = (locs.defined_location.line(), locs.defined_location.column());
    assert_eq!(
        used,
        (2, 19),
        "`leaf.name` is used where it is written (the scalar `x`); report:\n{rendered}"
    );
    assert_eq!(
        defined, used,
        "no anchor is involved: use site and definition site are the same; report:\n{rendered}"
    );
    assert!(
        !rendered.contains("anchor"),
        "the document has no anchor, the report must not mention one:\n{rendered}"
    );
}

#[test]
fn control_without_merge_key() {
    // This passes: it only documents the expected behaviour.
    let err = serde_saphyr::from_str_valid::<g::Root>("name: ok\nleaf: {name: x}\n")
        .expect_err("leaf.name is too short");
    let rendered = err.to_string();
    let locs = err.locations().unwrap();
    assert_eq!((locs.reference_location.line(), locs.reference_location.column()), (2, 14));
    assert_eq!(locs.reference_location, locs.defined_location);
    assert!(!rendered.contains("anchor"), "{rendered}");
}

#[test]
fn garde_nested_struct_in_in_place_merge() {
    check(serde_saphyr::from_str_valid::<g::Root>(YAML).expect_err("leaf.name is too short"));
}

#[test]
fn validator_nested_struct_in_in_place_merge() {
    check(serde_saphyr::from_str_validate::<v::Root>(YAML).expect_err("leaf.name is too short"));
}
