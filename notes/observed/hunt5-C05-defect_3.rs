// C05 defect 3 (low severity, documentation contradiction): `from_multiple` /
// `from_multiple_with_options` / `from_slice_multiple` silently drop a document that is an
// EXPLICIT null (`--- ~`, `--- null`, `--- !!null x`), so the i-th element of the returned vector
// is not filled from the i-th document: the following documents move up one position.
//
// Violated clause: "option/null handling ... honoured. A node is never consumed by a
// neighbouring position ... never silently re-synchronised", and the crate's own documentation of
// `from_multiple`: "Completely empty documents are ignored and not included into returned
// vector." - `--- null` is not a completely empty document, it is a document whose root node is
// the null scalar, which `Option<T>` (and `()`) read as `None` / `()` through every
// single-document entry point.
//
// Minimal input, target `Option<i32>`:
//     --- ~
//     --- 1
// What the crate does: Ok(vec![Some(1)])   (one element for two documents)
// What it should do:   Ok(vec![None, Some(1)])
// (`from_str::<Option<i32>>("--- ~")` is Ok(None), so the document is readable on its own.)
//
// Cause: src/lib.rs `from_multiple_with_options` (and its `_valid` / `_validate` / slice
// siblings): the loop peeks the first event of every document and `continue`s when
// `is_null_document` holds, which is true for any plain `~` / `null` / empty scalar and for any
// scalar tagged `!!null` - not only for the synthesized null of an empty document.
//
// Run: cargo test --offline --test defect_3

#[test]
fn explicit_null_documents_keep_their_position() {
    // Each document on its own is a valid Option<i32>.
    assert_eq!(serde_saphyr::from_str::<Option<i32>>("--- ~\n").unwrap(), None);
    assert_eq!(serde_saphyr::from_str::<Option<i32>>("--- 1\n").unwrap(), Some(1));

    let docs: Vec<Option<i32>> = serde_saphyr::from_multiple("--- ~\n--- 1\n").unwrap();
    assert_eq!(docs, vec![None, Some(1)]);
}

#[test]
fn explicit_null_keyword_document_keeps_its_position() {
    let docs: Vec<Option<String>> = serde_saphyr::from_multiple("a\n--- null\n--- b\n").unwrap();
    assert_eq!(docs, vec![Some("a".to_owned()), None, Some("b".to_owned())]);
}
