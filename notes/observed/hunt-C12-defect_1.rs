// DEFECT 1 (property C12): a string longer than 1024 characters does not survive as a mapping key
//
// Violated clause: "Every string (any Unicode content and length) ... serialized in any position
// (document root, sequence item, mapping value, mapping key, ...) under any valid serializer
// options, deserializes back into the same type as the identical value".
//
// Minimal input: BTreeMap { "k" x 1025 => 1 } with default options (1024 characters still work).
// The same happens for shorter keys whose *escaped* form exceeds the limit, e.g. a key made of
// 200 x U+0001 (written as 200 x "\u0001" = 1200 characters between the quotes), and for the
// same map as a sequence item ("- kkkk...: 1").
//
// What the crate does: the block-mapping emitter always writes the key as an implicit
// ("simple") key `kkkk...kkkk: 1`. YAML limits implicit keys to 1024 characters, the parser
// (saphyr) therefore no longer recognises the `:` as a mapping indicator, reads the line as one
// scalar, and `from_str` fails with "unexpected event: expected mapping start". The document the
// crate wrote cannot be read back by the crate.
//
// What it should do: write keys whose emitted form is longer than 1024 characters with the
// explicit key indicator (`? kkkk...\n: 1`), which the reader accepts (checked: a hand-written
// `? <2000 x k>\n: 1` parses fine), exactly as it already does for non-scalar keys.
//
// Cause: src/ser.rs, `MapSer::serialize_key` (block branch, `Ok(text)` arm): the text returned
// by `scalar_key_to_string` / `KeyScalarSink::serialize_str` is written followed by ':' without
// looking at its length.
//
// Run: cargo test --offline --test defect_1

use std::collections::BTreeMap;

#[test]
fn key_of_1025_characters_round_trips() {
    let mut m = BTreeMap::new();
    m.insert("k".repeat(1025), 1i32);
    let yaml = serde_saphyr::to_string(&m).unwrap();
    let back: BTreeMap<String, i32> = serde_saphyr::from_str(&yaml)
        .unwrap_or_else(|e| panic!("own output does not parse: {e}"));
    assert_eq!(back, m);
}

#[test]
fn key_of_200_control_characters_round_trips() {
    // 200 characters only, but 1200 once escaped inside the double quotes.
    let mut m = BTreeMap::new();
    m.insert("\u{1}".repeat(200), "v".to_string());
    let yaml = serde_saphyr::to_string(&m).unwrap();
    let back: BTreeMap<String, String> = serde_saphyr::from_str(&yaml)
        .unwrap_or_else(|e| panic!("own output does not parse: {e}"));
    assert_eq!(back, m);
}

#[test]
fn long_key_inside_sequence_item_round_trips() {
    let mut m = BTreeMap::new();
    m.insert("word ".repeat(300), 1i32); // quoted key (trailing blank), 1500 characters
    let v = vec![m];
    let yaml = serde_saphyr::to_string(&v).unwrap();
    let back: Vec<BTreeMap<String, i32>> = serde_saphyr::from_str(&yaml)
        .unwrap_or_else(|e| panic!("own output does not parse: {e}"));
    assert_eq!(back, v);
}
