// Defect 1 (C03): a mapping that consists only of (empty) merge entries is rejected for a
// unit-struct target, although the same mapping written out in full (`{}`) is accepted.
//
// Violated clause: "A mapping that contains merge keys (an untagged plain `<<`) deserializes
// exactly like the mapping written out in full" (for map, *struct* and untyped targets, under
// every duplicate-key policy).
//
// Minimal input:   `{<<: {}}`   (also `<<: ~`, `<<: []`, `<<: *empty` with `&empty {}`)
// Target:          `#[derive(Deserialize)] struct Marker;`
// Written in full: `{}`  -> Ok(Marker)   (documented: "Struct unit forms are handled by allowing
//                                         an empty mapping (`{}`) as the YAML representation")
// The crate:       Err("expected empty mapping for unit struct")
// Expected:        Ok(Marker), like `{}`; an empty struct `struct E {}` and a map target do get
//                  the merged (empty) mapping from the very same input.
//
// Cause: src/de.rs, `YamlDeserializer::deserialize_unit_struct`: it consumes `MapStart` and then
// requires the *next raw event* to be `MapEnd`. It never goes through the merge-aware `MA`
// map access of `deserialize_map`, so a `<<` entry is seen as an ordinary, non-empty content
// of the mapping instead of being expanded (to nothing).
//
// Run: cargo test --offline --test defect_1   (no optional features needed)

use serde::Deserialize;
use serde_saphyr::options::DuplicateKeyPolicy;
use serde_saphyr::{Options, from_str_with_options};
use std::collections::BTreeMap;

#[derive(Debug, Deserialize, PartialEq)]
struct Marker;

#[derive(Debug, Deserialize, PartialEq)]
struct Empty {}

#[derive(Debug, Deserialize, PartialEq)]
struct Doc {
    base: BTreeMap<String, i32>,
    marker: Marker,
}

fn opts(policy: DuplicateKeyPolicy) -> Options {
    serde_saphyr::options! { duplicate_keys: policy, with_snippet: false }
}

const POLICIES: [DuplicateKeyPolicy; 3] = [
    DuplicateKeyPolicy::Error,
    DuplicateKeyPolicy::FirstWins,
    DuplicateKeyPolicy::LastWins,
];

#[test]
fn unit_struct_from_mapping_with_empty_merge_equals_written_out_mapping() {
    for policy in POLICIES {
        // The mapping written out in full is the empty mapping: accepted.
        let full: Marker = from_str_with_options("{}", opts(policy)).expect("`{}` is a unit struct");
        assert_eq!(full, Marker);

        // Sanity: the other targets see the merged mapping as empty for these inputs.
        for yaml in ["{<<: {}}", "<<: ~\n", "<<: []\n", "<<: [{}, ~]\n"] {
            let e: Empty = from_str_with_options(yaml, opts(policy)).expect("empty struct");
            assert_eq!(e, Empty {});
            let m: BTreeMap<String, i32> = from_str_with_options(yaml, opts(policy)).expect("map");
            assert!(m.is_empty());
        }

        // The same mappings must be accepted for the unit struct as well.
        for yaml in ["{<<: {}}", "<<: ~\n", "<<: []\n", "<<: [{}, ~]\n"] {
            let got: Result<Marker, _> = from_str_with_options(yaml, opts(policy));
            assert!(
                got.is_ok(),
                "policy {policy:?}: {yaml:?} is `{{}}` written with a merge key, but: {}",
                got.unwrap_err()
            );
        }
    }
}

#[test]
fn unit_struct_field_merging_an_empty_anchor() {
    let merged = "base: &b {}\nmarker:\n  <<: *b\n";
    let full = "base: {}\nmarker: {}\n";
    let expected: Doc = serde_saphyr::from_str(full).expect("written-out document");
    let got: Result<Doc, _> = serde_saphyr::from_str(merged);
    match got {
        Ok(doc) => assert_eq!(doc, expected),
        Err(e) => panic!("`marker: {{<<: *b}}` with `&b {{}}` must equal `marker: {{}}`: {e}"),
    }
}
