// C04 defect 2: under the Error policy a mapping with a repeated key is accepted when it sits
// inside a merge (`<<`) entry that is overridden - the discarded entry's value is never visited.
//
// Violated clause: "When the same key node ... occurs more than once among a mapping's own
// entries, the Error policy fails with a duplicate-key error located at the repeated key"
// (quantified over all mappings, nested ones included).
//
// Minimal input:   top:
//                    a: 1
//                    <<: {a: {x: 1, x: 2}, b: 2}
//
// The mapping `{x: 1, x: 2}` repeats the key `x` among its own entries.
// What the crate does: Error policy -> Ok({top: {a: 1, b: 2}}), no error at all.
// What it should do: Error::DuplicateMappingKey for `x` at line 3, column 18 - exactly what it
//   reports for the same merge value when the entry is not overridden
//   (`top:\n  <<: {a: {x: 1, x: 2}, b: 2}` -> "duplicate mapping key: x ... line 2, column 18").
//   Whether a document is rejected for a repeated key must not depend on whether some other
//   mapping happens to override the entry that contains it.
//
// Cause: src/de.rs. collect_entries_from_map / pending_entries_from_events capture the values of
// a merge source as raw event buffers (capture_node) and apply the policy to the source's own
// keys only. MA::next_key_seed then drops an overridden merge entry
// (`if self.flushing_merges { if is_duplicate { continue; } }`) together with its never
// replayed value buffer, so the nested mapping never reaches an MA. (The same happens to the
// elements of `<<: [{a: 1}, {a: {x: 1, x: 2}}]`-style sources whose entry loses.) capture_node
// already computes per-mapping fingerprints while capturing; repeated keys could be detected
// there when the policy is Error.

use serde_saphyr::options::DuplicateKeyPolicy;
use std::collections::BTreeMap;

type Doc = BTreeMap<String, BTreeMap<String, serde_json::Value>>;

fn parse(yaml: &str) -> Result<Doc, String> {
    let opts = serde_saphyr::options! { duplicate_keys: DuplicateKeyPolicy::Error, with_snippet: false };
    serde_saphyr::from_str_with_options::<Doc>(yaml, opts).map_err(|e| e.to_string())
}

#[test]
fn control_not_overridden_entry_is_checked() {
    let err = parse("top:\n  <<: {a: {x: 1, x: 2}, b: 2}\n").unwrap_err();
    assert!(err.contains("duplicate mapping key"), "{err}");
}

#[test]
fn repeated_key_inside_an_overridden_merge_entry_is_reported() {
    let yaml = "top:\n  a: 1\n  <<: {a: {x: 1, x: 2}, b: 2}\n";
    let r = parse(yaml);
    assert!(
        matches!(&r, Err(e) if e.contains("duplicate mapping key")),
        "Error policy must reject the repeated key `x` in {yaml:?}, got {r:?}"
    );
}

#[test]
fn repeated_key_inside_a_merge_entry_overridden_by_another_source() {
    // Here the entry `a` of the first source is overridden by the later one (the crate lets the
    // later element of a merge sequence win); whichever wins, the document contains
    // `{x: 1, x: 2}` and `{y: 1, y: 2}`, so the Error policy must fail.
    let yaml = "top:\n  <<: [{a: {x: 1, x: 2}}, {a: {y: 1, y: 2}}]\n";
    let r = parse(yaml);
    assert!(
        matches!(&r, Err(e) if e.contains("duplicate mapping key")),
        "got {r:?}"
    );
    let yaml = "top:\n  <<: [{a: {x: 1, x: 2}}, {a: 2}]\n";
    let r1 = parse(yaml);
    let yaml = "top:\n  <<: [{a: 2}, {a: {x: 1, x: 2}}]\n";
    let r2 = parse(yaml);
    assert!(
        r1.is_err() && r2.is_err(),
        "one of the two orders lets `{{x: 1, x: 2}}` through: {r1:?} / {r2:?}"
    );
}
