// C20 defect 3: `compact_list_indent: true` breaks every mapping whose KEY is a sequence
// (complex key, `? - 1`).
//
// Violated clause: "all serializer options affect only the layout of the emitted document:
// it deserializes to the same data as without them".
//
// Minimal input: BTreeMap<Vec<i32>, i32> {[1, 2]: 1, [3]: 2} with
// `ser_options! { compact_list_indent: true }`.
//
// What the crate does: it writes
//     ? - 1
//     - 2          <- second item of the KEY in column 0, the column of '?'
//     : 1
//     ? - 3
//     : 2
// which is not a readable document ("did not find expected key" / "invalid i32").  With the
// default options the output is
//     ? - 1
//       - 2
//     : 1
//     ? - 3
//     : 2
// and round-trips.  The same happens at every nesting level (`k:\n  ? - 1\n  - 2`,
// `- ? - 1\n  - 2`) and for every indent_step.
//
// What it should do: `compact_list_indent` is documented to change the indentation of list
// items *under mapping keys* ("containers:\n- env:"); the items of a sequence that is itself
// the key of a `? ` entry must stay aligned with the first item after "? ".
//
// Cause: src/ser.rs, `serialize_seq`, block branch:
//     } else if was_inline_value {
//         if self.compact_list_indent && self.current_map_depth.is_some() { base } else { base + 1 }
// `was_inline_value` is just `!self.at_line_start`, and `MapSer::serialize_key` (non-scalar key
// branch) has written "? " and set `current_map_depth = Some(self.depth)` before serializing
// the key, so the key's sequence is taken for the value of a mapping key and its items are
// written at the depth of the enclosing mapping (the column of '?').
//
// Run: cargo test --offline --test defect_3

use std::collections::BTreeMap;

type M = BTreeMap<Vec<i32>, i32>;

fn value() -> M {
    BTreeMap::from([(vec![1, 2], 1), (vec![3], 2)])
}

#[test]
fn compact_list_indent_keeps_sequence_keys_readable() {
    let value = value();

    // Reference: default options round-trip.
    let reference = serde_saphyr::to_string(&value).unwrap();
    assert_eq!(serde_saphyr::from_str::<M>(&reference).unwrap(), value);

    let yaml = serde_saphyr::to_string_with_options(
        &value,
        serde_saphyr::ser_options! { compact_list_indent: true },
    )
    .unwrap();
    let back: M = serde_saphyr::from_str(&yaml).unwrap_or_else(|e| {
        panic!("compact_list_indent: true produced an unreadable document:\n{yaml}\n{e}")
    });
    assert_eq!(back, value, "compact_list_indent: true changed the data:\n{yaml}");
}

#[test]
fn compact_list_indent_keeps_nested_sequence_keys_readable() {
    #[derive(serde::Serialize, serde::Deserialize, Debug, PartialEq)]
    struct Doc {
        k: M,
        z: i32,
    }
    let value = Doc { k: value(), z: 1 };
    let reference = serde_saphyr::to_string(&value).unwrap();
    assert_eq!(serde_saphyr::from_str::<Doc>(&reference).unwrap(), value);

    let yaml = serde_saphyr::to_string_with_options(
        &value,
        serde_saphyr::ser_options! { compact_list_indent: true },
    )
    .unwrap();
    let back: Doc = serde_saphyr::from_str(&yaml).unwrap_or_else(|e| {
        panic!("compact_list_indent: true produced an unreadable document:\n{yaml}\n{e}")
    });
    assert_eq!(back, value, "compact_list_indent: true changed the data:\n{yaml}");
}
