// C04 defect 1: scalar keys that differ only in their (application) tag are reported as duplicates.
//
// Violated clause: "When the same key node (same structure, scalar text AND TAG ...) occurs more
// than once ..." / "Mappings without repeated keys deserialize identically under all three
// policies."
//
// Minimal input:
//     !A x: 1
//     !B x: 2
// The two keys carry different tags (`!A` vs `!B`), so they are different nodes - the crate itself
// deserializes them to different values (enum variants `K::A("x")` and `K::B("x")`, see LastWins
// below). Nevertheless
//   * Error policy fails with "duplicate mapping key: x" (line 2 column 4),
//   * FirstWins silently drops the second entry,
//   * only LastWins delivers both entries.
// Expected: no duplicate is present, all three policies give {A("x"): 1, B("x"): 2}.
//
// Cause: src/de.rs `KeyFingerprint::Scalar { value, tag: SfTag }` (built in
// `KeyNode::fingerprint` / `capture_node`): every tag that is not one of the built-in ones is
// collapsed to `SfTag::Other` (src/tags.rs `SfTag::from_optional_cow`), the `raw_tag` of the
// event is not part of the fingerprint, so `!A x` and `!B x` hash/compare equal in
// `MA::next_key_seed`.
//
// Run: cargo test --offline --test defect_1

use serde::Deserialize;
use serde_saphyr::{DuplicateKeyPolicy, Options};
use std::collections::BTreeMap;

#[derive(Debug, Deserialize, PartialEq, Eq, PartialOrd, Ord, Clone)]
enum K {
    A(String),
    B(String),
}

fn opts(p: DuplicateKeyPolicy) -> Options {
    Options {
        duplicate_keys: p,
        ..Options::default()
    }
}

const YAML: &str = "!A x: 1\n!B x: 2\n";

fn expected() -> BTreeMap<K, i32> {
    let mut m = BTreeMap::new();
    m.insert(K::A("x".into()), 1);
    m.insert(K::B("x".into()), 2);
    m
}

#[test]
fn last_wins_shows_the_keys_are_distinct() {
    // Passes: documents that the crate itself maps the two keys to different values.
    let m: BTreeMap<K, i32> =
        serde_saphyr::from_str_with_options(YAML, opts(DuplicateKeyPolicy::LastWins)).unwrap();
    assert_eq!(m, expected());
}

#[test]
fn error_policy_must_not_report_differently_tagged_keys() {
    let r: Result<BTreeMap<K, i32>, _> =
        serde_saphyr::from_str_with_options(YAML, opts(DuplicateKeyPolicy::Error));
    assert_eq!(r.map_err(|e| e.to_string()), Ok(expected()));
}

#[test]
fn first_wins_must_not_drop_differently_tagged_key() {
    let m: BTreeMap<K, i32> =
        serde_saphyr::from_str_with_options(YAML, opts(DuplicateKeyPolicy::FirstWins)).unwrap();
    assert_eq!(m, expected());
}

#[test]
fn plain_custom_tags_into_pairs() {
    // Same thing without enums: a typeless target sees two entries only under LastWins.
    let y = "!a x: 1\n!b x: 2\n";
    let mut lens = Vec::new();
    for p in [
        DuplicateKeyPolicy::Error,
        DuplicateKeyPolicy::FirstWins,
        DuplicateKeyPolicy::LastWins,
    ] {
        let r: Result<BTreeMap<String, i32>, _> = serde_saphyr::from_str_with_options(y, opts(p));
        lens.push(r.map(|m| m["x"]).map_err(|e| e.to_string()));
    }
    // No repeated key => all three policies must agree.
    assert_eq!(lens[0], lens[2], "Error vs LastWins");
    assert_eq!(lens[1], lens[2], "FirstWins vs LastWins");
}
