// Defect 2 (C03): duplicate keys INSIDE a merge source are resolved "first wins" and never
// reported, whatever the duplicate-key policy is, so merging a mapping does not give the entries
// that the very same mapping has when it is deserialized on its own.
//
// Property clause violated:
//   "A mapping that contains merge keys ... deserializes exactly like the mapping written out in
//    full ... recursively for sources that themselves contain merge keys"
//   (only OWN keys overriding merged ones is exempt from the duplicate-key policy; the entries of
//    one source mapping are ordinary entries of an ordinary mapping).
//
// Minimal input, DuplicateKeyPolicy::LastWins, untyped / map target:
//
//     x: &x {a: 1, a: 2}
//     y:
//       <<: *x
//
// What the crate does: x == {a: 2} (LastWins, as documented) but y == {a: 1}: the mapping obtained
// by merging *x differs from *x itself within one document. Written out in full (`y: {a: 1, a: 2}`)
// y is {a: 2} as well.
//
// Second face of the same cause, DuplicateKeyPolicy::Error (the default):
//
//     <<: {a: 1, a: 2}
//
// is accepted and yields {a: 1}, although the policy is documented as "Error out on encountering a
// duplicate key" and the same mapping anywhere else (`v: {a: 1, a: 2}`, or as the anchor `&x` above)
// is rejected with "duplicate mapping key: a".
//
// What it should do: apply the configured policy to the entries of each merge source
// (LastWins -> a: 2, Error -> reject), exactly as when that mapping is deserialized as a value.
//
// Cause: src/de.rs `collect_entries_from_map` collects all own fields of a source without any
// duplicate handling, and the flush branch of `MA::next_key_seed` (`if self.flushing_merges { if
// is_duplicate { continue; } }`) drops every later occurrence silently because the `seen` set is
// shared between "already provided by an own key / a later source" and "repeated inside this
// source".
//
// Run: cargo test --offline --test defect_2   (no optional features needed)

use std::collections::BTreeMap;

use serde_saphyr::options::DuplicateKeyPolicy;
use serde_saphyr::{Options, from_str_with_options};

fn opts(policy: DuplicateKeyPolicy) -> Options {
    let mut o = Options::default();
    o.duplicate_keys = policy;
    o
}

type Doc = BTreeMap<String, BTreeMap<String, i32>>;

#[test]
fn last_wins_merging_an_alias_gives_the_entries_of_the_aliased_mapping() {
    let yaml = "x: &x {a: 1, a: 2}\ny:\n  <<: *x\n";
    let doc: Doc = from_str_with_options(yaml, opts(DuplicateKeyPolicy::LastWins)).unwrap();
    assert_eq!(doc["x"]["a"], 2, "LastWins on the anchored mapping itself");
    assert_eq!(
        doc["y"], doc["x"],
        "`<<: *x` with no own keys must equal the mapping *x"
    );
}

#[test]
fn last_wins_inline_source_equals_written_out_mapping() {
    let full: BTreeMap<String, i32> =
        from_str_with_options("{a: 1, a: 2, b: 3}\n", opts(DuplicateKeyPolicy::LastWins)).unwrap();
    let merged: BTreeMap<String, i32> = from_str_with_options(
        "{<<: {a: 1, a: 2}, b: 3}\n",
        opts(DuplicateKeyPolicy::LastWins),
    )
    .unwrap();
    assert_eq!(merged, full);
}

#[test]
fn error_policy_rejects_duplicate_inside_a_merge_source() {
    // The same mapping as an ordinary value is rejected ...
    let plain: Result<Doc, _> =
        from_str_with_options("v: {a: 1, a: 2}\n", opts(DuplicateKeyPolicy::Error));
    assert!(plain.is_err());
    // ... so it must not be accepted silently as a merge source.
    let merged: Result<BTreeMap<String, i32>, _> =
        from_str_with_options("<<: {a: 1, a: 2}\n", opts(DuplicateKeyPolicy::Error));
    assert!(
        merged.is_err(),
        "duplicate key inside the merge source was accepted: {:?}",
        merged
    );
}
