// DEFECT 6 - an *empty* (implicit null) scalar is given a non-empty source range that covers
// the NEXT token of the document (`}`, `, `, `? `, `...`), i.e. text that belongs to another
// node / to punctuation, and type errors at that node point there too.
//
// Property clause violated:
//   "for a span-carrying scalar the reported byte range is exactly that node's source text,
//    and a type error at a node is reported at the position a span-carrying value would give
//    for that node" (title: "... name the right node")
//
// Minimal inputs (value type Spanned<Option<String>>):
//   "{ b   , c }"   value of `b`: 1:7, len 2, bytes 6..8  = ", "     value of `c`: 1:11 len 1 = "}"
//   "{b}"           value of `b`: 1:3, len 1               = "}"
//   "[ &a , b]"     element 0   : 1:6, len 2               = ", "
//   "? a\n? b\n"    value of `a`: 2:1, len 2               = "? "  (the indicator of the NEXT entry)
//   "--- # c\n...\n" root        : 2:1, len 3              = "..."
//   Block-style implicit nulls are fine: "a:\nb: x\n" gives 1:2 len 0, "{a: , b}" gives len 0
//   for `a`.
//
// What the crate does: see above; e.g. for "{ b   , c }" read as BTreeMap<String,i32> the error
//   "invalid i32" is reported at 1:7 with length 2 - the comma.
// What it should do: an empty node has empty source text: length 0 (char and byte), located at
//   the position where the node would stand (as it already does for `a:` / `{a: , b}`).
//
// Cause: the span of the empty scalar event comes from saphyr-parser-bw, which stamps the
//   synthesized empty scalar with the span of the token that triggered it (flow entry / flow
//   end / key indicator / document end); src/location.rs location_from_span() copies
//   `span.len()` and the byte length verbatim for zero-content scalars (and
//   src/live_events.rs reuses the DocumentEnd span as `last_location` for the synthesized
//   null of an empty document).

use serde_saphyr::{Location, Spanned};
use std::collections::BTreeMap;

type M = BTreeMap<String, Spanned<Option<String>>>;

fn range_text<'a>(text: &'a str, loc: &Location) -> &'a str {
    let start = loc.span().byte_offset().expect("byte offset") as usize;
    let len = loc.span().byte_len().expect("byte len") as usize;
    &text[start..start + len]
}

fn assert_empty_node(text: &str, s: &Spanned<Option<String>>, what: &str) {
    assert!(s.value.is_none(), "{what}: expected a null");
    for (name, loc) in [("referenced", &s.referenced), ("defined", &s.defined)] {
        assert_eq!(
            (loc.span().len(), range_text(text, loc)),
            (0, ""),
            "{what}.{name}: an empty node at {}:{} reports a non-empty source range in {text:?}",
            loc.line(),
            loc.column()
        );
    }
}

#[test]
fn control_block_and_explicit_flow_empty_values_have_empty_range() {
    let text = "a:\nb: x\n";
    let m: M = serde_saphyr::from_str(text).unwrap();
    assert_empty_node(text, &m["a"], "a");
    let text = "{a: , b: x}\n";
    let m: M = serde_saphyr::from_str(text).unwrap();
    assert_empty_node(text, &m["a"], "a");
}

#[test]
fn flow_mapping_key_without_value() {
    let text = "{ b   , c }\n";
    let m: M = serde_saphyr::from_str(text).unwrap();
    assert_empty_node(text, &m["b"], "b");
    assert_empty_node(text, &m["c"], "c");
}

#[test]
fn flow_sequence_anchor_only_element() {
    let text = "[ &a , b]\n";
    let v: Vec<Spanned<Option<String>>> = serde_saphyr::from_str(text).unwrap();
    assert_empty_node(text, &v[0], "[0]");
}

#[test]
fn explicit_block_key_without_value() {
    let text = "? a\n? b\n";
    let m: M = serde_saphyr::from_str(text).unwrap();
    assert_empty_node(text, &m["a"], "a");
}

#[test]
fn type_error_at_empty_flow_value_points_at_the_comma() {
    let text = "{ b   , c: 1 }\n";
    let err = serde_saphyr::from_str::<BTreeMap<String, i32>>(text).unwrap_err();
    let loc = err.location().expect("location");
    assert_eq!(
        (loc.span().len(), range_text(text, &loc)),
        (0, ""),
        "error for the empty value of `b` is reported on {:?} at {}:{}",
        range_text(text, &loc),
        loc.line(),
        loc.column()
    );
}
