// C20 defect 5 (lower confidence - partly a documented trade-off, see below): with
// `yaml_12: true` the strings "y", "n", "yes", "no", "on", "off" (any case) are written as
// plain scalars, and the crate's own reader turns them into booleans wherever the target
// does not force a string (untyped trees, `serde_json::Value`, untagged enums, `deserialize_any`).
//
// Violated clause: "all serializer options affect only the layout of the emitted document:
// it deserializes to the same data as without them ... data compared through an untyped tree".
//
// Minimal input: vec!["yes", "off"] with `ser_options! { yaml_12: true }`.
//
// What the crate does: it writes
//     %YAML 1.2
//     ---
//     - yes
//     - off
// and `from_str::<serde_json::Value>` returns [true, false]; an untagged
// `enum U { B(bool), S(String) }` reads U::S("yes") back as U::B(true).  Without the option
// the output is `- "yes"\n- "off"` and reads back as the two strings.
//
// What it should do: the rustdoc of `SerializerOptions::yaml_12` says the YAML 1.1 boolean
// spellings "will not be treated as booleans for the purpose of auto-quoting", so leaving
// them unquoted is intended (and pinned by tests/yaml12.rs) - but nothing says that the data
// changes when the document is read back with this crate.  The reader
// (`Options::strict_booleans` defaults to false) ignores the `%YAML 1.2` directive that the
// serializer itself has just written, so the pair serializer+reader does not preserve the
// data.  Either the reader should resolve plain scalars by the core schema when the document
// carries `%YAML 1.2`, or the option should keep quoting what the default reader infers as
// a boolean.
//
// Cause: src/ser_quoting.rs `is_ambiguous_value` (`if !yaml_12 && parse_yaml11_bool(s).is_ok()`)
// together with the reader's YAML 1.1 boolean inference, which has no notion of the version
// directive (src/de.rs / src/parse_scalars.rs `parse_yaml11_bool`).
//
// Run: cargo test --offline --test defect_5

use serde::{Deserialize, Serialize};

#[derive(Serialize, Deserialize, Debug, PartialEq, Clone)]
#[serde(untagged)]
enum U {
    B(bool),
    S(String),
}

#[test]
fn yaml_12_keeps_strings_strings_in_an_untyped_tree() {
    let value = vec!["yes".to_string(), "off".to_string(), "n".to_string()];

    let reference = serde_saphyr::to_string(&value).unwrap();
    let tree: serde_json::Value = serde_saphyr::from_str(&reference).unwrap();
    assert_eq!(tree, serde_json::json!(["yes", "off", "n"]));

    let yaml =
        serde_saphyr::to_string_with_options(&value, serde_saphyr::ser_options! { yaml_12: true })
            .unwrap();
    let tree: serde_json::Value = serde_saphyr::from_str(&yaml).unwrap();
    assert_eq!(
        tree,
        serde_json::json!(["yes", "off", "n"]),
        "yaml_12: true changed the data:\n{yaml}"
    );
}

#[test]
fn yaml_12_keeps_strings_strings_in_an_untagged_enum() {
    let value = vec![U::S("yes".into()), U::B(true)];

    let reference = serde_saphyr::to_string(&value).unwrap();
    assert_eq!(serde_saphyr::from_str::<Vec<U>>(&reference).unwrap(), value);

    let yaml =
        serde_saphyr::to_string_with_options(&value, serde_saphyr::ser_options! { yaml_12: true })
            .unwrap();
    let back: Vec<U> = serde_saphyr::from_str(&yaml).unwrap();
    assert_eq!(back, value, "yaml_12: true changed the data:\n{yaml}");
}
