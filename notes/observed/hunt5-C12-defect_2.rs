// C12 defect 2: a string that is the payload of an enum variant does not survive in flow
// context (FlowMap / FlowSeq): the variant emitters are not flow-aware.
//
// Violated clause: "Every string ... serialized in any position (... block or flow context,
// enum payload) under any valid serializer options, deserializes back into the same type as
// the identical value".
//
// Minimal inputs (default options):
//  (a) FlowMap(BTreeMap { "k": E::V("x") })            E::V = newtype variant
//      crate writes   {k: V: x}
//      which does not read back: "invalid type: unit value, expected a string" (the nested
//      `V: x` is no legal value of a flow mapping entry). Expected: {k: {V: x}}.
//  (b) FlowSeq(vec![E::S { f: "x" }])                   E::S = struct variant
//      crate writes   "[S:\n  f: x]\n"  (a block mapping, with a line break, inside `[ ]`)
//      which does not read back: "unexpected event: expected mapping start".
//      Expected: [{S: {f: x}}] (or S: {f: x} as a single-pair entry).
//  A tuple variant as a flow-mapping value, {k: T: [x, y]}, fails the same way.
//
// Cause: src/ser.rs `serialize_newtype_variant`, `serialize_tuple_variant`,
// `serialize_struct_variant`: they always write `Variant:` in block fashion (struct variants
// even write ":\n" and indentation) and never look at `self.in_flow`; only when the variant is
// a direct item of a flow *sequence* does the `[V: x]` single-pair form happen to be legal.
use serde::{Deserialize, Serialize};
use serde_saphyr::{FlowMap, FlowSeq};
use std::collections::BTreeMap;

#[derive(Serialize, Deserialize, Debug, PartialEq, Clone)]
enum E {
    V(String),
    T(String, String),
    S { f: String },
}

#[test]
fn newtype_variant_payload_as_flow_map_value() {
    let mut m = BTreeMap::new();
    m.insert("k".to_string(), E::V("x".to_string()));
    let v = FlowMap(m);
    let yaml = serde_saphyr::to_string(&v).unwrap();
    let back: FlowMap<BTreeMap<String, E>> = serde_saphyr::from_str(&yaml)
        .unwrap_or_else(|e| panic!("output does not read back: {e}\n{yaml:?}"));
    assert_eq!(back, v);
}

#[test]
fn tuple_variant_payload_as_flow_map_value() {
    let mut m = BTreeMap::new();
    m.insert("k".to_string(), E::T("x".to_string(), "y".to_string()));
    let v = FlowMap(m);
    let yaml = serde_saphyr::to_string(&v).unwrap();
    let back: FlowMap<BTreeMap<String, E>> = serde_saphyr::from_str(&yaml)
        .unwrap_or_else(|e| panic!("output does not read back: {e}\n{yaml:?}"));
    assert_eq!(back, v);
}

#[test]
fn struct_variant_payload_in_flow_seq() {
    let v = FlowSeq(vec![E::S { f: "x".to_string() }]);
    let yaml = serde_saphyr::to_string(&v).unwrap();
    let back: FlowSeq<Vec<E>> = serde_saphyr::from_str(&yaml)
        .unwrap_or_else(|e| panic!("output does not read back: {e}\n{yaml:?}"));
    assert_eq!(back, v);
}
