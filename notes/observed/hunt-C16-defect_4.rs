// DEFECT 4 - a type error raised by the *visitor* of a mapping value (serde's static
// `invalid_value` / `invalid_type` ..., e.g. `NonZeroU32` reading `0`) is reported at the
// entry's KEY, not at the value node; for a top-level scalar no location is reported at all.
//
// Property clause violated:
//   "a type error at a node is reported at the position a span-carrying value would give for
//    that node"  (mechanism: "serde's static errors get the fallback location",
//    src/de_error.rs maybe_attach_fallback_location)
//
// Minimal input:
//     e: 1
//     n:     0
//   target: struct { e: i32, n: NonZeroU32 }   (the offending node `0` is at 2:8)
//
// What the crate does: "line 2 column 1: invalid value: integer `0`, expected a nonzero u32" -
//   location 2:1 len 1, i.e. the key `n`. `Spanned<u32>` for that node gives 2:8, and the
//   same value inside a *sequence* (`- 0`) is correctly reported at the value.
//   For the document `  0` read as NonZeroU32, Error::location() is None.
// What it should do: report 2:8 (the value node) resp. 1:3.
//
// Cause: src/de.rs deserialize_map -> MA::next_key_seed installs
//   MissingFieldLocationGuard with the *key* location and MA::next_value_seed never replaces
//   it with the value's location, so de_error.rs `invalid_value()` ->
//   maybe_attach_fallback_location() picks the key; afterwards
//   attach_alias_locations_if_missing() keeps it because `err.location().is_some()`.
//   (SeqAccess::next_element_seed does install a guard for the element, which is why sequences
//   are right.) At the top level no guard is installed at all and nothing attaches
//   a location afterwards.

use serde::Deserialize;
use serde_saphyr::Spanned;
use std::num::NonZeroU32;

#[derive(Debug, Deserialize)]
#[allow(dead_code)]
struct Typed {
    e: i32,
    n: NonZeroU32,
}

#[derive(Debug, Deserialize)]
#[allow(dead_code)]
struct Span {
    e: i32,
    n: Spanned<u32>,
}

#[test]
fn control_sequence_element_is_reported_at_the_value() {
    let err = serde_saphyr::from_str::<Vec<NonZeroU32>>("- 1\n-   0\n").unwrap_err();
    let loc = err.location().unwrap();
    assert_eq!((loc.line(), loc.column()), (2, 5));
}

#[test]
fn visitor_error_for_mapping_value_is_reported_at_the_value() {
    let yaml = "e: 1\nn:     0\n";
    let spanned: Span = serde_saphyr::from_str(yaml).unwrap();
    assert_eq!((spanned.n.referenced.line(), spanned.n.referenced.column()), (2, 8));

    let err = serde_saphyr::from_str::<Typed>(yaml).unwrap_err();
    let loc = err.location().expect("location");
    assert_eq!(
        loc, spanned.n.referenced,
        "error reported at {}:{} but the node is at {}:{}; error: {}",
        loc.line(),
        loc.column(),
        spanned.n.referenced.line(),
        spanned.n.referenced.column(),
        err.to_string().lines().next().unwrap_or("")
    );
}

#[test]
fn visitor_error_for_top_level_scalar_has_a_location() {
    let err = serde_saphyr::from_str::<NonZeroU32>("  0\n").unwrap_err();
    let loc = err.location().expect("a type error at the root node must carry its location");
    assert_eq!((loc.line(), loc.column()), (1, 3));
}
