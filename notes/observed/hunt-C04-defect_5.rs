// C04 defect 5: the key fingerprint ignores the scalar style, so a quoted string key collides with
// the plain null / number / boolean key of the same text: keys the crate itself deserializes to
// DIFFERENT values are reported as duplicates.
//
// Violated clause: "Mappings without repeated keys deserialize identically under all three
// policies." (and "same key node (same structure, scalar text and TAG)": a plain `~` resolves to
// tag:yaml.org,2002:null, a quoted "~" to tag:yaml.org,2002:str - YAML 1.2 §10.3.2 - they are
// different nodes, and the crate agrees: LastWins delivers None and Some("~")).
//
// Minimal input:
//     ~: 1
//     "~": 2
// Target `BTreeMap<Option<String>, i32>`:
//   LastWins  -> {None: 1, Some("~"): 2}     (two distinct keys, nothing is overwritten)
//   Error     -> Err("duplicate mapping key: ~" at line 2 column 1)
//   FirstWins -> {None: 1}                   (the entry "~": 2 is lost)
// Same for keys nested in a sequence key: `? [~]` vs `? ["~"]`, and for an omitted (empty) key
// next to "~".
// Expected: the three policies agree on {None: 1, Some("~"): 2}.
//
// Cause: src/de.rs `KeyNode::fingerprint` / `KeyFingerprint::Scalar { value, tag }` is built from
// the event's `value` and explicit `tag` only; `style` (Plain vs quoted), which decides between
// null and string everywhere else in the deserializer (`scalar_is_nullish(value, style)`), is not
// part of the fingerprint.
//
// Run: cargo test --offline --test defect_5

use serde_saphyr::{DuplicateKeyPolicy, Options};
use std::collections::BTreeMap;

fn opts(p: DuplicateKeyPolicy) -> Options {
    Options {
        duplicate_keys: p,
        ..Options::default()
    }
}

type M = BTreeMap<Option<String>, i32>;
const YAML: &str = "~: 1\n\"~\": 2\n";

fn expected() -> M {
    let mut m = M::new();
    m.insert(None, 1);
    m.insert(Some("~".to_string()), 2);
    m
}

#[test]
fn last_wins_shows_the_keys_are_distinct() {
    // Passes.
    let m: M = serde_saphyr::from_str_with_options(YAML, opts(DuplicateKeyPolicy::LastWins)).unwrap();
    assert_eq!(m, expected());
}

#[test]
fn error_policy_must_accept_null_key_next_to_quoted_tilde() {
    let r: Result<M, _> = serde_saphyr::from_str_with_options(YAML, opts(DuplicateKeyPolicy::Error));
    assert_eq!(r.map_err(|e| e.to_string()), Ok(expected()));
}

#[test]
fn first_wins_must_not_drop_the_string_key() {
    let m: M = serde_saphyr::from_str_with_options(YAML, opts(DuplicateKeyPolicy::FirstWins)).unwrap();
    assert_eq!(m, expected());
}

#[test]
fn nested_in_sequence_keys() {
    type S = BTreeMap<Vec<Option<String>>, i32>;
    let y = "? [~]\n: 1\n? [\"~\"]\n: 2\n";
    let last: S = serde_saphyr::from_str_with_options(y, opts(DuplicateKeyPolicy::LastWins)).unwrap();
    assert_eq!(last.len(), 2);
    let err: Result<S, _> = serde_saphyr::from_str_with_options(y, opts(DuplicateKeyPolicy::Error));
    assert_eq!(err.map_err(|e| e.to_string()), Ok(last));
}
