// DEFECT 6 (C18): `read_valid` / `read_validate` do not return what `read` returns for a stream
// of valid documents that is longer than 256 MiB: `read` yields every document, the validating
// iterators end with an I/O error ("input size limit of 268435456 bytes exceeded").
//
// Needs: cargo test --offline --features garde,validator,miette,robotics --test defect_6
//        (only `garde` and `validator` are really required). SLOW: it has to push a bit more than
//        256 MiB through the parser three times (about 30 s until it fails on the unchanged crate,
//        about 45 s when it passes, debug build).
//
// Violated clause: "The entry points that run declarative validation after deserializing return
// exactly what the plain entry points return whenever validation passes" (quantified over
// "string and reader entry points, single and multi-document").
//
// Minimal input: the stream
//
//     a: 1
//     # ... comment lines, 256 MiB + a little ...
//     ---
//     a: 2
//
// read as `struct Doc { #[garde(range(min = 1))] a: u32 }` - both documents are valid.
//
// What the crate does: `read::<_, Doc>(reader)` yields Ok(Doc{a:1}), Ok(Doc{a:2});
// `read_valid::<_, Doc>(reader)` and `read_validate::<_, Doc>(reader)` yield a single
// Err(IOError { FileTooLarge, "input size limit of 268435456 bytes exceeded" }).
//
// What it should do: the same two documents. `read` is documented as "uses the same defaults
// as Options::default() except it disables the max_reader_input_bytes budget to better support
// long-lived streams"; `read_valid` / `read_validate` are its validating counterparts and their
// documentation announces no other limits.
//
// Cause: src/lib.rs - `read` builds its options with `budget.max_reader_input_bytes: None`,
// whereas `read_valid` and `read_validate` call `read_with_options_valid(reader,
// Default::default())` / `read_with_options_validate(reader, Default::default())`, i.e. with the
// 256 MiB reader cap of `Budget::default()` still on.

use serde::Deserialize;
use std::io::Read;

#[derive(Debug, Deserialize, PartialEq, garde::Validate, validator::Validate)]
struct Doc {
    #[garde(range(min = 1))]
    #[validate(range(min = 1))]
    a: u32,
}

/// `head` + `blocks` x `block` + `tail`, generated on the fly.
struct Stream {
    head: &'static [u8],
    block: Vec<u8>,
    blocks: usize,
    tail: &'static [u8],
    pos: usize,
}

impl Stream {
    fn new() -> Self {
        // One comment line of 4-byte characters: the reader cap counts decoded UTF-8 bytes, so
        // this reaches the cap with a quarter of the characters an ASCII comment would need.
        let mut block = String::from("#");
        for _ in 0..1023 {
            block.push('\u{1F600}');
        }
        block.push('\n');
        let block = block.into_bytes();
        let blocks = (256 * 1024 * 1024) / block.len() + 32;
        Stream {
            head: b"a: 1\n",
            block,
            blocks,
            tail: b"---\na: 2\n",
            pos: 0,
        }
    }
    fn len(&self) -> usize {
        self.head.len() + self.block.len() * self.blocks + self.tail.len()
    }
}

impl Read for Stream {
    fn read(&mut self, buf: &mut [u8]) -> std::io::Result<usize> {
        let mid = self.block.len() * self.blocks;
        let (src, off): (&[u8], usize) = if self.pos < self.head.len() {
            (self.head, self.pos)
        } else if self.pos < self.head.len() + mid {
            (&self.block, (self.pos - self.head.len()) % self.block.len())
        } else if self.pos < self.len() {
            (self.tail, self.pos - self.head.len() - mid)
        } else {
            return Ok(0);
        };
        let n = buf.len().min(src.len() - off);
        buf[..n].copy_from_slice(&src[off..off + n]);
        self.pos += n;
        Ok(n)
    }
}

fn summary<T: std::fmt::Debug>(items: Vec<Result<T, serde_saphyr::Error>>) -> Vec<String> {
    items
        .into_iter()
        .map(|r| match r {
            Ok(v) => format!("Ok({v:?})"),
            Err(e) => format!("Err({e})"),
        })
        .collect()
}

#[test]
fn validating_iterators_agree_with_read_on_a_long_stream() {
    assert!(Stream::new().len() > 256 * 1024 * 1024);

    let mut reader = Stream::new();
    let plain = summary(serde_saphyr::read::<_, Doc>(&mut reader).collect());
    assert_eq!(plain, vec!["Ok(Doc { a: 1 })", "Ok(Doc { a: 2 })"], "plain `read`");

    let mut reader = Stream::new();
    let garde = summary(serde_saphyr::read_valid::<_, Doc>(&mut reader).collect());
    assert_eq!(garde, plain, "read_valid must return what read returns");

    let mut reader = Stream::new();
    let validator = summary(serde_saphyr::read_validate::<_, Doc>(&mut reader).collect());
    assert_eq!(validator, plain, "read_validate must return what read returns");
}
