// Property C11, clause violated:
//   "The streaming iterator ... ends after a syntax error"
// and the crate's own documentation of `read_with_options` (src/lib.rs): "After a **syntax
// error** or budget/alias limit exceeded, the iterator ends because the parser state may be
// unrecoverable."
//
// Minimal input (an undeclared tag handle `!b!` on an item of an indentless block sequence that
// is a mapping value):
//
//     k:
//     - !b!x
//     ---
//     2
//
// What the crate does: `read` yields Err("the handle wasn't declared at line 2, column 3") and then
// carries on: Ok(2) (and every further document). The very same syntax error one level up
// (`- !b!x`), in a nested mapping (`k:\n  j: !b!x`), in flow style (`k: [!b!x]`) or with a value
// behind the tag (`k:\n- !b!x 1`) ends the iterator, as documented. Whether the iterator
// survives a syntax error thus depends on where in the document the error is.
//
// What it should do: end after the syntax error (yield exactly one Err item), like for every
// other syntax error.
//
// Cause: src/lib.rs `ReadIter::next` (and the copies in `read_with_options_valid` /
// `read_with_options_validate`) calls `skip_to_next_document()` after EVERY error that is not an
// I/O error, syntax errors included, and src/live_events.rs `skip_to_next_document_impl` relies
// on the parser to fail again ("Syntax error while skipping; treat as EOF"). Scanner errors are
// latched by saphyr-parser, but errors raised by the parser proper are not: after
// "the handle wasn't declared" (parser.rs `resolve_tag`, the tag token already consumed)
// `Parser::next` resumes and, in the shape above, produces SequenceEnd, SequenceEnd, MappingEnd,
// DocumentEnd, DocumentStart - so the recovery finds "the next document" and the iterator goes on
// with a parser whose state the documentation itself calls unrecoverable.
//
// Run: cargo test --offline --test defect_2
use serde_json::Value;

fn items(text: &str) -> Vec<Result<Value, String>> {
    let mut reader = std::io::Cursor::new(text.as_bytes());
    serde_saphyr::read::<_, Value>(&mut reader)
        .take(10)
        .map(|r| r.map_err(|e| e.to_string()))
        .collect()
}

#[test]
fn iterator_ends_after_a_syntax_error() {
    let text = "k:\n- !b!x\n---\n2\n---\n3\n";
    // It is a syntax error: the batch function and the plain parser agree.
    assert!(serde_saphyr::from_multiple::<Value>(text).is_err());
    let got = items(text);
    assert!(got[0].is_err());
    assert_eq!(
        got.len(),
        1,
        "the iterator went on after a syntax error: {got:?}"
    );
}

#[test]
fn same_syntax_error_same_outcome_wherever_it_occurs() {
    // reference: the same error as a top-level sequence item ends the iterator
    assert_eq!(items("- !b!x\n---\n2\n").len(), 1);
    assert_eq!(items("k:\n  j: !b!x\n---\n2\n").len(), 1);
    // ... but not here
    assert_eq!(items("k:\n- !b!x\n---\n2\n").len(), 1);
}
