// C04 defect 4: the same application tag written in two spellings (shorthand through a
// `%TAG` handle / primary handle vs. verbatim `!<...>`) gives two different keys.
//
// Violated clause: "When the same key node (same structure, scalar text and tag ...) occurs
// more than once among a mapping's own entries, the Error policy fails ..., FirstWins gives the
// result of the document with every later entry ... deleted". Tag shorthands are a presentation
// detail (YAML 1.2.2, 6.9.1 / 3.3.2: a shorthand is resolved to the full tag; `!<!foo>` is the
// local tag `!foo`, `!e!foo` with `%TAG !e! tag:example.com,2000:app/` is
// `tag:example.com,2000:app/foo`). src/tags.rs says so itself for the core tags ("A verbatim tag
// ... is the same tag as the one spelled in shorthand") and `!!str a` / `!<tag:yaml.org,2002:str> a`
// ARE recognised as one key.
//
// Minimal inputs:
//     !foo a: 1
//     !<!foo> a: 2
// and
//     %TAG !e! tag:example.com,2000:app/
//     ---
//     !e!foo a: 1
//     !<tag:example.com,2000:app/foo> a: 2
//
// What the crate does: no duplicate under Error (a BTreeMap<String, i32> is silently
//   overwritten: {"a": 2}); FirstWins yields {"a": 2}.
// What it should do: Error -> DuplicateMappingKey at line 2 (resp. 4), at the key
//   scalar; FirstWins -> {"a": 1}.
//
// Cause: src/de.rs KeyFingerprint::with_custom_tag / KeyFingerprint::Tagged(String, ..) uses
// `raw_tag`, which src/live_events.rs fills with `Tag::to_string()` of the parser's
// (handle, suffix) pair: "!foo" for the shorthand, "!!foo" for the verbatim form;
// "tag:example.com,2000:app/!foo" for the %TAG shorthand, "!tag:example.com,2000:app/foo" for
// the verbatim form. The fingerprint should be built from the resolved tag (handle prefix and
// suffix concatenated) instead of the printed (handle, suffix) pair.

use serde_saphyr::options::DuplicateKeyPolicy;
use std::collections::BTreeMap;

type T = BTreeMap<String, i32>;

const LOCAL: &str = "!foo a: 1\n!<!foo> a: 2\n";
const GLOBAL: &str =
    "%TAG !e! tag:example.com,2000:app/\n---\n!e!foo a: 1\n!<tag:example.com,2000:app/foo> a: 2\n";

#[test]
fn control_core_tag_spellings_are_one_key() {
    let opts = serde_saphyr::options! { duplicate_keys: DuplicateKeyPolicy::Error };
    let r: Result<T, _> =
        serde_saphyr::from_str_with_options("!!str a: 1\n!<tag:yaml.org,2002:str> a: 2\n", opts);
    assert!(r.unwrap_err().to_string().contains("duplicate mapping key"));
    // and the same spelling of the application tag is one key, too
    let opts = serde_saphyr::options! { duplicate_keys: DuplicateKeyPolicy::Error };
    let r: Result<T, _> = serde_saphyr::from_str_with_options("!foo a: 1\n!foo a: 2\n", opts);
    assert!(r.unwrap_err().to_string().contains("duplicate mapping key"));
}

#[test]
fn error_policy_local_tag_shorthand_vs_verbatim() {
    let opts = serde_saphyr::options! { duplicate_keys: DuplicateKeyPolicy::Error };
    let r: Result<T, _> = serde_saphyr::from_str_with_options(LOCAL, opts);
    assert!(
        matches!(&r, Err(e) if e.to_string().contains("duplicate mapping key")),
        "`!foo a` and `!<!foo> a` are the same key, got {:?}",
        r.map_err(|e| e.to_string())
    );
}

#[test]
fn error_policy_tag_directive_shorthand_vs_verbatim() {
    let opts = serde_saphyr::options! { duplicate_keys: DuplicateKeyPolicy::Error };
    let r: Result<T, _> = serde_saphyr::from_str_with_options(GLOBAL, opts);
    assert!(
        matches!(&r, Err(e) if e.to_string().contains("duplicate mapping key")),
        "got {:?}",
        r.map_err(|e| e.to_string())
    );
}

#[test]
fn first_wins_keeps_the_first_entry() {
    for yaml in [LOCAL, GLOBAL] {
        let opts = serde_saphyr::options! { duplicate_keys: DuplicateKeyPolicy::FirstWins };
        let m: T = serde_saphyr::from_str_with_options(yaml, opts).unwrap();
        assert_eq!(m.get("a"), Some(&1), "FirstWins on {yaml:?}");
    }
}
