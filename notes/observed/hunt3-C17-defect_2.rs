// C17 defect 2: input that starts with two U+FEFF characters: the marker is drawn one column to
// the right of the reported column (under the wrong character).
//
// Violated clause: "includes the line the location refers to with the marker under the reported
// column".
//
// Minimal input: "\u{FEFF}\u{FEFF}a: [1, X]\n" into HashMap<String, Vec<i32>>.
// The parser skips ONE leading byte order mark (src/lib.rs: "A single leading UTF-8 BOM is ignored
// by LiveEvents::from_str"); the second U+FEFF is content: it becomes part of the key
// ("\u{FEFF}a") and counts as column 1. The error (invalid i32 `X`) is reported at line 1
// column 9, which is right for that way of counting.
//
// What the crate does:   1 | a: [1, X]
//                          |         ^ invalid i32          <- under ']'
// What it should do: caret under 'X'.
//
// Cause: the byte order mark is stripped twice on the way to the snippet:
// src/de_error.rs Error::with_snippet / with_snippet_offset do
// `text.strip_prefix('\u{FEFF}')`, and then src/de/snippet.rs crop_source_window() does the same
// again on the already stripped text. The second strip removes a character that the parser did
// count, so every column on the first line is shifted by one. (The same unconditional strip in
// with_snippet_offset also hits a reader fragment whose first retained line happens to start
// with U+FEFF in the middle of a stream.)
// Same result through from_reader (the decoder drops the first mark, the ring keeps both).
//
// Run: cargo test --offline --test defect_2

use std::collections::HashMap;

type M = HashMap<String, Vec<i32>>;

/// Character that stands above the first '^' of the report (U+FEFF is zero width: ignored).
fn char_above_caret(rendered: &str) -> Option<char> {
    let lines: Vec<&str> = rendered.lines().collect();
    for i in 1..lines.len() {
        let l = lines[i];
        let Some(bar) = l.find('|') else { continue };
        if !l[..bar].trim().is_empty() || !l[bar + 1..].trim_start().starts_with('^') {
            continue;
        }
        let caret_idx = l[bar + 1..].chars().take_while(|c| *c != '^').count();
        let src = lines[i - 1];
        let sbar = src.find('|')?;
        return src[sbar + 1..]
            .chars()
            .filter(|c| *c != '\u{feff}')
            .nth(caret_idx);
    }
    None
}

#[test]
fn control_single_bom() {
    let err = serde_saphyr::from_str::<M>("\u{feff}a: [1, X]\n").unwrap_err();
    assert_eq!(char_above_caret(&err.to_string()), Some('X'));
}

#[test]
fn double_bom_from_str() {
    let input = "\u{feff}\u{feff}a: [1, X]\n";
    let err = serde_saphyr::from_str::<M>(input).unwrap_err();
    let loc = err.location().unwrap();
    // one mark is skipped, the other one is column 1: X is column 9
    assert_eq!((loc.line(), loc.column()), (1, 9));
    let rendered = err.to_string();
    assert_eq!(
        char_above_caret(&rendered),
        Some('X'),
        "marker is not under the reported column:\n{rendered}"
    );
}

#[test]
fn double_bom_from_reader() {
    let input = "\u{feff}\u{feff}a: [1, X]\n";
    let err = serde_saphyr::from_reader::<_, M>(std::io::Cursor::new(input.as_bytes())).unwrap_err();
    let rendered = err.to_string();
    assert_eq!(char_above_caret(&rendered), Some('X'), "{rendered}");
}
