// Defect 2 (property C10, writer side)
//
// Violated clause: "if the output writer fails at any write, serialization returns that I/O
// error and what was written is a prefix of the fault-free output" (quantified over "fail ...
// the k-th write, for every k").
//
// Minimal input: `struct { first: SpaceAfter<i32>, second: i32 }` (the example from the
// `SpaceAfter` docs) serialized with `to_io_writer` into a writer whose k-th `write` call fails
// and whose other calls succeed.
//
// What the crate does: when the failing write is one of those that emit the wrapped value
// (here write #2, the " " before `1`, or write #3, the `1` itself), the serializer still writes
// the extra "\n" of `SpaceAfter` *after* the failed write and only then returns the error. The
// sink receives "first:\n" (resp. "first: \n"), which is not a prefix of the fault-free
// output "first: 1\n\nsecond: 2\n" - a hole where the value should be. The same happens for
// any failing write inside an arbitrarily large value wrapped in `SpaceAfter`.
//
// What it should do: stop writing at the first failed write.
//
// Cause: src/ser.rs `YamlSerializer::serialize_newtype_struct`, arm `NAME_SPACE_AFTER`:
//     let result = value.serialize(&mut *self);
//     if self.in_flow == 0 { self.newline()?; }   // runs even when `result` is Err
//     return result;
//
// Run: cargo test --offline --test defect_2

use serde::Serialize;
use serde_saphyr::SpaceAfter;
use std::io::{self, Write};

struct FailKth {
    out: Vec<u8>,
    calls: usize,
    fail_on: usize,
}

impl Write for FailKth {
    fn write(&mut self, b: &[u8]) -> io::Result<usize> {
        let i = self.calls;
        self.calls += 1;
        if i == self.fail_on {
            return Err(io::Error::new(io::ErrorKind::Other, "disk full"));
        }
        self.out.extend_from_slice(b);
        Ok(b.len())
    }
    fn flush(&mut self) -> io::Result<()> {
        Ok(())
    }
}

#[derive(Serialize)]
struct Config {
    first: SpaceAfter<i32>,
    second: i32,
}

#[derive(Serialize)]
struct Nested {
    block: SpaceAfter<Vec<String>>,
    tail: i32,
}

fn sweep<T: Serialize>(value: &T) {
    let mut w = FailKth { out: Vec::new(), calls: 0, fail_on: usize::MAX };
    serde_saphyr::to_io_writer(&mut w, value).unwrap();
    let full = w.out;
    let n = w.calls;
    assert!(n > 2);

    for k in 0..n {
        let mut w = FailKth { out: Vec::new(), calls: 0, fail_on: k };
        let res = serde_saphyr::to_io_writer(&mut w, value);
        assert!(
            matches!(&res, Err(serde_saphyr::ser::Error::IO { error }) if error.to_string() == "disk full"),
            "write #{k} failed but serialization returned {res:?}"
        );
        assert!(
            full.starts_with(&w.out),
            "write #{k} failed; the sink got {:?}, which is not a prefix of the fault-free output {:?}",
            String::from_utf8_lossy(&w.out),
            String::from_utf8_lossy(&full)
        );
        assert_eq!(
            w.calls,
            k + 1,
            "write #{k} failed, yet {} more write(s) were issued afterwards",
            w.calls - (k + 1)
        );
    }
}

#[test]
fn space_after_scalar_stops_at_the_failed_write() {
    sweep(&Config { first: SpaceAfter(1), second: 2 });
}

#[test]
fn space_after_collection_stops_at_the_failed_write() {
    sweep(&Nested {
        block: SpaceAfter(vec!["a".to_string(), "b".to_string(), "c".to_string()]),
        tail: 7,
    });
}
