// C08 defect 4: in a multi-document stream the anchor tables of LiveEvents only ever grow, and every
// document boundary walks all of them: work is (number of documents) x (anchors seen so far in the
// whole stream), memory grows without bound over a stream whose documents are all tiny.
//
// Violated clause: "What deserialization costs is bounded by the configured limits" / "processed
// after bounded work". `serde_saphyr::read` uses EnforcingPolicy::PerDocument precisely because
// "potentially infinite input may need to be supported" (doc of Budget::max_reader_input_bytes,
// EnforcingPolicy): every per-document limit is respected by every document below (3 events, 1
// anchor, no alias), yet the cost per document grows linearly with the position in the stream.
//
// Minimal input: the 9-byte document
//
//     --- &a 1
//
// repeated n times, read with `serde_saphyr::read::<_, i32>`.
//
// What the crate does: saphyr-parser numbers anchors consecutively over the whole stream (it clears
// only the name table per document), and `LiveEvents` indexes `anchors: Vec<Option<Box<[Ev]>>>` and
// `per_anchor_expansions: Vec<usize>` by that id. `reset_document_state` (src/live_events.rs), called
// for every DocumentStart *and* every DocumentEnd, does
//     for slot in &mut self.anchors { *slot = None; }
//     for cnt in &mut self.per_anchor_expansions { *cnt = 0; }
// over the full length, which is never reduced ("keep the allocation"). After k documents with one
// anchor each that is 2k slot writes per document: n documents cost ~n^2 (40_000 documents =
// 360 KB: ~6 s in a debug build versus ~0.15 s for the same stream without the `&a`), and the two
// vectors keep 24 B per anchor ever seen for the life of the iterator.
//
// What it should do: per-document work independent of the documents before it, e.g. remember the
// first anchor id of the current document and index relative to it / truncate at the boundary.
//
// Observer: wall time against the same stream without anchors, and growth when n doubles (the crate
// forbids `unsafe`, so no counting allocator in tests/). Measured: ~30x and ~4x; allowed: 8x and 3x.
//
// Run: cargo test --offline --test defect_4

use std::time::{Duration, Instant};

fn time(n: usize, doc: &str) -> Duration {
    let y = doc.repeat(n);
    let t = Instant::now();
    let mut rd = y.as_bytes();
    let ok = serde_saphyr::read::<_, i32>(&mut rd)
        .filter(|r| matches!(r, Ok(1)))
        .count();
    let d = t.elapsed();
    assert_eq!(ok, n, "every document is read");
    d
}

#[test]
fn per_document_work_does_not_depend_on_earlier_documents() {
    let n = 30_000;
    let _warm_up = time(100, "--- &a 1\n");
    let plain = time(n, "---    1\n").min(time(n, "---    1\n"));
    let anchored = time(n, "--- &a 1\n");
    let half = time(n / 2, "--- &a 1\n");
    let ratio = anchored.as_secs_f64() / plain.as_secs_f64();
    let growth = anchored.as_secs_f64() / half.as_secs_f64();
    println!("{n} documents: plain {plain:?}, each with one anchor {anchored:?} ({ratio:.1}x)");
    println!("{} documents with one anchor: {half:?}; doubling the stream multiplies the time by {growth:.1}", n / 2);
    assert!(
        ratio < 8.0 && growth < 3.0,
        "{n} one-anchor documents took {anchored:?}, the same stream without anchors {plain:?} \
         ({ratio:.1}x); half the stream took {half:?} ({growth:.1}x for 2x the input): the cost of a \
         document grows with the number of anchors in all documents before it"
    );
}
