// Defect 1 (property C10, reader side, iterator entry points)
//
// Violated clause: "If the underlying reader reports an error ... or the configured input-byte
// cap is exceeded at any point, reader-based deserialization returns an error"; "I/O faults and
// the input-size cap are never swallowed"; quantified over "both single-document and iterator
// entry points".
//
// Minimal input: a multi-document stream whose first document has a *deserialization* error
// (type mismatch) near its beginning, read with `serde_saphyr::read` / `read_with_options`
// into `struct Doc { id: i32 }`:
//
//     id: x            <- "invalid i32": ordinary per-document error, iterator is documented to recover
//     pad0: 1
//     ...              <- the reader fails (hard error) / the byte cap is hit somewhere in here
//     ---
//     id: 2
//     ---
//     id: 3
//
// What the crate does: the iterator yields `Err(invalid i32)` and then ends (`None`), exactly as
// if the stream had ended cleanly after the first document. The I/O error (or FileTooLarge cap
// breach) is never reported; documents 2 and 3 are silently missing.
//
// What it should do: report the I/O error / cap breach as an `Err(Error::IOError { .. })` item
// (fault-free result is `[Err(invalid i32), Ok(2), Ok(3)]`).
//
// Cause: src/lib.rs `ReadIter::next` (and the `_valid` / `_validate` twins): after a
// deserialization error it calls `LiveEvents::skip_to_next_document()` (src/live_events.rs).
// That function pulls raw events straight from the parser, never consults the shared I/O error
// cell, and returns `false` ("EOF-like") when the parser runs dry or hits a syntax error - which
// is precisely what happens when `ChunkedChars` signalled end-of-input because of the stored
// error. The iterator then sets `finished = true` and never calls `finish()`, so the stored
// error is dropped.
//
// Run: cargo test --offline --test defect_1

use serde::Deserialize;
use std::io::{self, Read};

#[derive(Debug, Deserialize, PartialEq)]
struct Doc {
    id: i32,
}

/// Serves `data` one byte per read; every read after `fail_at` bytes is a hard error.
struct FailAfter {
    data: Vec<u8>,
    pos: usize,
    fail_at: usize,
}

impl Read for FailAfter {
    fn read(&mut self, buf: &mut [u8]) -> io::Result<usize> {
        if self.pos >= self.fail_at {
            return Err(io::Error::new(io::ErrorKind::ConnectionReset, "boom"));
        }
        if buf.is_empty() || self.pos >= self.data.len() {
            return Ok(0);
        }
        buf[0] = self.data[self.pos];
        self.pos += 1;
        Ok(1)
    }
}

fn stream() -> (Vec<u8>, usize) {
    let mut s = String::from("id: x\n");
    for i in 0..50 {
        s.push_str(&format!("pad{i}: 1\n"));
    }
    let middle_of_first_doc = s.len() / 2;
    s.push_str("---\nid: 2\n---\nid: 3\n");
    (s.into_bytes(), middle_of_first_doc)
}

fn is_io(e: &serde_saphyr::Error) -> bool {
    matches!(e.without_snippet(), serde_saphyr::Error::IOError { .. })
}

#[test]
fn sanity_fault_free_stream_recovers_after_the_bad_document() {
    let (data, _) = stream();
    let mut r = &data[..];
    let items: Vec<Result<Doc, serde_saphyr::Error>> = serde_saphyr::read(&mut r).collect();
    assert_eq!(items.len(), 3);
    assert!(items[0].is_err());
    assert_eq!(items[1].as_ref().unwrap(), &Doc { id: 2 });
    assert_eq!(items[2].as_ref().unwrap(), &Doc { id: 3 });
}

#[test]
fn reader_error_while_skipping_a_failed_document_is_reported() {
    let (data, k) = stream();
    let mut r = FailAfter { data, pos: 0, fail_at: k };
    let items: Vec<Result<Doc, serde_saphyr::Error>> = serde_saphyr::read(&mut r).collect();
    let shown: Vec<String> = items
        .iter()
        .map(|i| match i {
            Ok(d) => format!("Ok({d:?})"),
            Err(e) => format!("Err({})", e.to_string().lines().next().unwrap_or("")),
        })
        .collect();
    assert!(
        items.iter().any(|i| matches!(i, Err(e) if is_io(e))),
        "the reader failed after {k} bytes, but the iterator ended without any I/O error: {shown:?}"
    );
}

#[test]
fn cap_breach_while_skipping_a_failed_document_is_reported() {
    let (data, k) = stream();
    let opts = serde_saphyr::options! {
        budget: serde_saphyr::budget! { max_reader_input_bytes: Some(k), },
    };
    let mut r = &data[..];
    let items: Vec<Result<Doc, serde_saphyr::Error>> =
        serde_saphyr::read_with_options(&mut r, opts).collect();
    let shown: Vec<String> = items
        .iter()
        .map(|i| match i {
            Ok(d) => format!("Ok({d:?})"),
            Err(e) => format!("Err({})", e.to_string().lines().next().unwrap_or("")),
        })
        .collect();
    assert!(
        items.iter().any(|i| matches!(i, Err(e) if is_io(e))),
        "input of {} bytes exceeds the cap of {k} bytes, but the iterator ended without reporting it: {shown:?}",
        data.len()
    );
}
