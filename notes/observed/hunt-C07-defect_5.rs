// Defect 5 (C07): a limit exceeded by a REPLAYED event is not reported as the budget error
//
// Violated clause: "fails with the matching budget error as soon as one is exceeded" together
// with "replayed events are counted too".
//
// Minimal input:
//     a: &x [1, 2]
//     b: *x
// 9 nodes including the 3 replayed ones; Budget { max_nodes: 8, .. } so that the limit is hit by
// the last replayed scalar.
//
// What the crate does: returns
//     Error::AliasError { msg: "budget breached: Nodes { nodes: 9 } at line 1, column 11",
//                         locations: .. }
// i.e. the structured `Error::Budget { breach: BudgetBreach::Nodes { nodes: 9 }, .. }` has been
// flattened into a string inside a different error variant. Code that recognises budget
// failures by `matches!(err, Error::Budget { .. })` (the crate does so itself in
// src/lib.rs / src/de/with_deserializer.rs) does not see it, and the `BudgetBreach` value with the
// counter is lost. The same limit hit by a non-replayed event (max_nodes: 5) gives the proper
// `Error::Budget { breach: Nodes { nodes: 6 } }`. The same happens for every counter that a
// replayed event can exceed (events, depth, scalar bytes, merge keys) and for the
// sequence-element position (`[&x [1, 2], *x]`).
//
// What it should do: return Error::Budget { breach: BudgetBreach::Nodes { nodes: 9 }, .. }
// (possibly carrying both locations), as for any other event.
//
// Cause: src/de.rs `attach_alias_locations_if_missing`, used by the map-value / sequence-element
// / enum-payload paths for values that come from an alias: every error raised while such a
// value is deserialized - including the `Error::Budget` produced by
// `LiveEvents::observe_budget_for_replay` (src/live_events.rs) - is replaced by
// `Error::AliasError { msg: err.to_string(), .. }`.
//
// Run: cargo test --offline --test defect_5

use serde_saphyr::budget::{Budget, BudgetBreach};
use serde_saphyr::{Error, Options};

const YAML: &str = "a: &x [1, 2]\nb: *x\n";

fn parse(max_nodes: usize) -> Result<serde_json::Value, Error> {
    let mut options = Options::default();
    options.budget = Some(Budget {
        max_nodes,
        ..Budget::default()
    });
    serde_saphyr::from_str_with_options(YAML, options)
}

#[test]
fn limit_is_exact_with_replayed_nodes_counted() {
    // 6 parsed nodes + 3 replayed nodes.
    assert!(parse(9).is_ok());
    assert!(parse(8).is_err());
}

#[test]
fn breach_by_a_parsed_event_is_a_budget_error() {
    let err = parse(5).unwrap_err();
    assert!(matches!(
        err.without_snippet(),
        Error::Budget {
            breach: BudgetBreach::Nodes { nodes: 6 },
            ..
        }
    ));
}

#[test]
fn breach_by_a_replayed_event_is_a_budget_error() {
    let err = parse(8).unwrap_err();
    assert!(
        matches!(
            err.without_snippet(),
            Error::Budget {
                breach: BudgetBreach::Nodes { nodes: 9 },
                ..
            }
        ),
        "expected Error::Budget {{ breach: Nodes {{ nodes: 9 }} }}, got {:?}",
        err.without_snippet()
    );
}

#[test]
fn breach_by_a_replayed_sequence_element_is_a_budget_error() {
    let mut options = Options::default();
    options.budget = Some(Budget {
        max_total_scalar_bytes: 3,
        ..Budget::default()
    });
    // scalars: 1, 2 parsed (2 bytes) + 1, 2 replayed (4 bytes in total)
    let err = serde_saphyr::from_str_with_options::<serde_json::Value>("[&x [1, 2], *x]\n", options)
        .unwrap_err();
    assert!(
        matches!(
            err.without_snippet(),
            Error::Budget {
                breach: BudgetBreach::ScalarBytes { .. },
                ..
            }
        ),
        "got {:?}",
        err.without_snippet()
    );
}
