// DEFECT 3 (C05): an empty block scalar (`|`, `|-`, `>`, `>-` without content) read into
// `Option<String>` yields `None`, although it is a string node (the empty string), not a null.
//
// Violated clause: "option/null handling ... honoured"; "every Rust position is filled from the
// YAML node at the corresponding position" - the node at the position is the string "", the
// value returned pretends that the node was null / absent.
//
// Minimal input:  "a: |\nb: 1\n"   into   struct { a: Option<String>, b: i32 }
//
// What the crate does:  a == None.
//   The same node read into `String` gives "" (so the crate itself classifies it as a string and
//   NOT as a null: a plain empty / `~` / `null` scalar into `String` is the error "cannot
//   deserialize null into string"). The quoted empty string `''` into Option<String> gives
//   Some(""). The crate's own output does not survive a round trip:
//   to_string(&W { a: Some(LitString("")) , b: 1 }) == "a: |-\nb: 1\n", which reads back as
//   W { a: None, b: 1 }.
// What it should do:    a == Some("")  (documentation of `deserialize_option`: None is
//   "a scalar that is empty-unquoted / `~` / `null` in plain style"; a block scalar is not in
//   plain style).
//
// Cause: src/parse_scalars.rs `scalar_is_nullish_for_option` - the first alternative
//   `value.is_empty() && !matches!(style, SingleQuoted | DoubleQuoted)` also covers
//   ScalarStyle::Literal and ScalarStyle::Folded; `scalar_is_nullish` (used for String, unit,
//   seq, map) restricts itself to ScalarStyle::Plain. Used by src/de.rs `deserialize_option`
//   and `take_unanchored_null`.
//
// Run: cargo test --offline --test defect_3

use serde::{Deserialize, Serialize};
use serde_saphyr::LitString;

#[derive(Debug, Deserialize, PartialEq)]
struct W {
    a: Option<String>,
    b: i32,
}

#[derive(Debug, Deserialize, Serialize, PartialEq)]
struct L {
    a: Option<LitString>,
    b: i32,
}

#[test]
fn the_node_is_a_string_for_a_string_target() {
    #[derive(Debug, Deserialize, PartialEq)]
    struct S {
        a: String,
        b: i32,
    }
    let s: S = serde_saphyr::from_str("a: |\nb: 1\n").unwrap();
    assert_eq!(s, S { a: String::new(), b: 1 });
    // ... whereas a real null is rejected for String:
    assert!(serde_saphyr::from_str::<S>("a: ~\nb: 1\n").is_err());
    assert!(serde_saphyr::from_str::<S>("a:\nb: 1\n").is_err());
}

#[test]
fn empty_literal_block_scalar_into_option_string_is_some_empty() {
    let w: W = serde_saphyr::from_str("a: |\nb: 1\n").unwrap();
    assert_eq!(w, W { a: Some(String::new()), b: 1 });
}

#[test]
fn empty_folded_block_scalar_into_option_string_is_some_empty() {
    let w: W = serde_saphyr::from_str("a: >-\nb: 1\n").unwrap();
    assert_eq!(w, W { a: Some(String::new()), b: 1 });
}

#[test]
fn sequence_positions() {
    let v: Vec<Option<String>> = serde_saphyr::from_str("- |\n- ''\n- ~\n").unwrap();
    assert_eq!(v, vec![Some(String::new()), Some(String::new()), None]);
}

#[test]
fn own_output_round_trips() {
    let value = L { a: Some(LitString(String::new())), b: 1 };
    let yaml = serde_saphyr::to_string(&value).unwrap();
    let back: L = serde_saphyr::from_str(&yaml).unwrap();
    assert_eq!(back, value, "yaml was {yaml:?}");
}
