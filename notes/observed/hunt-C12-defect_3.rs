// DEFECT 3 (property C12): a string that is the payload of an enum variant does not survive when
// the enum is a value of a flow mapping (or a struct variant inside a flow sequence)
//
// Violated clause: "Every string ... serialized in any position (... mapping value, ... block or
// flow context, enum payload) under any valid serializer options, deserializes back into the same
// type as the identical value".
//
// Minimal input (default options): FlowMap(BTreeMap { "a" => E::N("x") }) with
// `enum E { N(String), S { f: String, g: String } }`.
//
// What the crate does: it writes `{a: N: x}` - a mapping `N: x` in the value position of a flow
// mapping entry without braces. That is not YAML; the crate's own reader fails with "while parsing
// a flow mapping, did not find expected ',' or '}'". A struct variant inside a flow sequence is
// written as "[S:\n  f: xg: x]" (block layout pasted into the flow collection), equally unreadable.
// (A newtype variant directly inside a flow *sequence*, `[N: x]`, happens to be valid YAML - a
// single-pair mapping - and does read back.)
//
// What it should do: inside a flow collection write the variant as a flow mapping:
// `{a: {N: x}}`, `[{S: {f: x, g: x}}]`.
//
// Cause: src/ser.rs, `serialize_newtype_variant` / `serialize_tuple_variant` /
// `serialize_struct_variant`: none of them looks at `self.in_flow`; they always emit the block
// form `Variant:` + value (struct variants even emit "Variant:\n" and indented fields).
//
// Run: cargo test --offline --test defect_3

use serde::{Deserialize, Serialize};
use serde_saphyr::{FlowMap, FlowSeq};
use std::collections::BTreeMap;

#[derive(Serialize, Deserialize, PartialEq, Debug, Clone)]
enum E {
    N(String),
    S { f: String, g: String },
}

#[test]
fn newtype_variant_payload_in_flow_map_value_round_trips() {
    let mut m = BTreeMap::new();
    m.insert("a".to_string(), E::N("x".to_string()));
    let v = FlowMap(m);
    let yaml = serde_saphyr::to_string(&v).unwrap();
    let back: FlowMap<BTreeMap<String, E>> = serde_saphyr::from_str(&yaml)
        .unwrap_or_else(|e| panic!("own output does not parse: {yaml:?}\n{e}"));
    assert_eq!(back, v);
}

#[test]
fn struct_variant_payload_in_flow_seq_round_trips() {
    let v = FlowSeq(vec![E::S { f: "x".to_string(), g: "y".to_string() }]);
    let yaml = serde_saphyr::to_string(&v).unwrap();
    let back: FlowSeq<Vec<E>> = serde_saphyr::from_str(&yaml)
        .unwrap_or_else(|e| panic!("own output does not parse: {yaml:?}\n{e}"));
    assert_eq!(back, v);
}
