// Defect 6 (property C06): the untyped entry point turns a decimal integer outside the
// 64-bit range into a rounded f64 (and the same value written in hex into a string).
//
// Violated clause: "integers accept exactly the documented notations ... and yield the
// mathematically exact value or an error when it does not fit the target width - never a
// wrapped, saturated or truncated one" (quantified over "... untyped targets"), together
// with the documented inference order of `deserialize_any` "(null-like -> bool -> int ->
// float) before falling back to string".
//
// Minimal inputs / behaviour:
//   serde_json::Value <- `18446744073709551617` (u64::MAX + 2)
//        => Number(1.8446744073709552e19)   i.e. 18446744073709551616.0 - the value changed
//   serde_json::Value <- `-9223372036854775809` (i64::MIN - 1)
//        => Number(-9.223372036854776e18)   i.e. i64::MIN as a float - the value changed
//   an untyped visitor that implements visit_u128 / visit_i128 (see `Wide` below) never
//   gets the exact value although u128 / i128 targets parse the very same token exactly
//   serde_json::Value <- `0x10000000000000001`  => String("0x10000000000000001"):
//   the same number in another documented radix takes yet another type.
// What it should do: call visit_u128 / visit_i128 with the exact value (serde_json::Value
// then reports "number out of range", a wide visitor gets the exact number) or fail -
// never hand out a silently rounded number.
//
// Cause: src/de.rs `deserialize_any`: only `parse_int_unsigned::<u64>` /
// `parse_int_signed::<i64>` are tried; when both fail the token falls through to
// `parse_yaml12_float::<f64>`, which happily parses a long digit string.
//
// Run: cargo test --offline --test defect_6   (no optional features needed)

use serde::de::{Deserialize, Deserializer, Visitor};
use serde_json::Value;
use std::fmt;

/// An untyped target that can take any integer width, floats and strings.
#[derive(Debug, PartialEq)]
enum Wide {
    U(u128),
    I(i128),
    F(f64),
    S(String),
}

impl<'de> Deserialize<'de> for Wide {
    fn deserialize<D: Deserializer<'de>>(d: D) -> Result<Self, D::Error> {
        struct V;
        impl<'de> Visitor<'de> for V {
            type Value = Wide;
            fn expecting(&self, f: &mut fmt::Formatter) -> fmt::Result {
                f.write_str("a scalar")
            }
            fn visit_u64<E>(self, v: u64) -> Result<Wide, E> {
                Ok(Wide::U(v as u128))
            }
            fn visit_i64<E>(self, v: i64) -> Result<Wide, E> {
                Ok(Wide::I(v as i128))
            }
            fn visit_u128<E>(self, v: u128) -> Result<Wide, E> {
                Ok(Wide::U(v))
            }
            fn visit_i128<E>(self, v: i128) -> Result<Wide, E> {
                Ok(Wide::I(v))
            }
            fn visit_f64<E>(self, v: f64) -> Result<Wide, E> {
                Ok(Wide::F(v))
            }
            fn visit_str<E>(self, v: &str) -> Result<Wide, E> {
                Ok(Wide::S(v.to_owned()))
            }
        }
        d.deserialize_any(V)
    }
}

#[test]
fn typed_wide_targets_are_exact() {
    // baseline: the token is a perfectly good integer for the crate
    assert_eq!(
        serde_saphyr::from_str::<u128>("18446744073709551617").unwrap(),
        18446744073709551617u128
    );
    assert_eq!(
        serde_saphyr::from_str::<i128>("-9223372036854775809").unwrap(),
        -9223372036854775809i128
    );
}

#[test]
fn untyped_wide_visitor_gets_the_exact_integer() {
    let r = serde_saphyr::from_str::<Wide>("18446744073709551617");
    match r {
        Ok(Wide::U(v)) => assert_eq!(v, 18446744073709551617u128),
        Err(_) => {} // an error would be acceptable
        other => panic!("integer u64::MAX+2 arrived as {other:?}"),
    }
    let r = serde_saphyr::from_str::<Wide>("-9223372036854775809");
    match r {
        Ok(Wide::I(v)) => assert_eq!(v, -9223372036854775809i128),
        Err(_) => {}
        other => panic!("integer i64::MIN-1 arrived as {other:?}"),
    }
}

#[test]
fn json_value_is_exact_or_error() {
    let r = serde_saphyr::from_str::<Value>("18446744073709551617");
    if let Ok(v) = r {
        // 18446744073709551617 is not representable as f64: a Number here is a changed value
        assert!(
            !v.is_f64(),
            "integer 18446744073709551617 silently became the float {v}"
        );
    }
}
