// C19 defect 1: the first field of a sexagesimal literal is accumulated digit by digit in f64
// (one rounding per digit), so a long `hh` / `D` field is not the IEEE-754 value of its digits.
//
// Needs the optional feature:  cargo test --offline --features robotics --test defect_1
//
// Violated clause: "every accepted arithmetic / angle expression yields the IEEE-754 result of
// evaluating it" (the property quantifies over "sexagesimal forms" and "numbers"; the crate
// documents `hh:mm[:ss[.frac]]` without any bound on the number of digits of `hh`, only the
// global MAX_NUM_DIGITS = 1_000_000).
//
// Minimal input (angle_conversions: true, target f64):
//     deg(87915795054720153:00)
// The literal is 87915795054720153 degrees 0 minutes, i.e. exactly the number 87915795054720153,
// whose nearest f64 is 8.791579505472016e16 - that is what the crate itself returns for
// `deg(87915795054720153)`, and what `"87915795054720153".parse::<f64>()` returns.
// For the sexagesimal spelling the crate uses 8.791579505472014e16 instead (one ulp lower),
// and returns deg -> rad of that. In the default time mode `87915795054720153:00` likewise
// differs from `87915795054720153 * 3600`, although `hh:mm` is documented as hh*3600 + mm*60 seconds.
// About 23 % of all 17-digit fields, and nearly all fields of 20 or more digits are affected;
// underscore-separated fields (`87_915_795_054_720_153:00`) go the same way.
//
// Expected: the field has the value of the correctly rounded decimal -> f64 conversion of its
// digits (as every other number of the expression language has - they go through f64::from_str),
// so that D:00 == D and hh:00 == hh*3600.
//
// Cause: src/robotics.rs, Parser::read_uint_unders_to_f64 - `v = v * 10.0 + digit` in f64 rounds
// twice per digit as soon as v exceeds 2^53 (same kind of fault as the already repaired
// "SS.fff = whole + fraction", but in a different function and for the hour / degree field).

#![cfg(feature = "robotics")]

fn eval(expr: &str) -> f64 {
    let options = serde_saphyr::options! { angle_conversions: true };
    serde_saphyr::from_str_with_options::<f64>(expr, options)
        .unwrap_or_else(|e| panic!("`{expr}` must be accepted: {e}"))
}

#[test]
fn degree_field_of_a_sexagesimal_literal_is_the_f64_of_its_digits() {
    // D:00 inside deg() is D degrees.
    let plain = eval("deg(87915795054720153)");
    let expected = "87915795054720153".parse::<f64>().unwrap() * (std::f64::consts::PI / 180.0);
    assert_eq!(plain.to_bits(), expected.to_bits(), "reference value");
    let sexagesimal = eval("deg(87915795054720153:00)");
    assert_eq!(
        sexagesimal.to_bits(),
        plain.to_bits(),
        "deg(87915795054720153:00) = {sexagesimal:e}, deg(87915795054720153) = {plain:e}"
    );
}

#[test]
fn hour_field_of_a_sexagesimal_literal_is_the_f64_of_its_digits() {
    // hh:00 is hh * 3600 seconds.
    let product = eval("87915795054720153 * 3600");
    let expected = "87915795054720153".parse::<f64>().unwrap() * 3600.0;
    assert_eq!(product.to_bits(), expected.to_bits(), "reference value");
    let sexagesimal = eval("87915795054720153:00");
    assert_eq!(
        sexagesimal.to_bits(),
        product.to_bits(),
        "87915795054720153:00 = {sexagesimal:e}, 87915795054720153 * 3600 = {product:e}"
    );
}

#[test]
fn tagged_degrees_sexagesimal_with_long_degree_field() {
    // `!degrees D:00` is D degrees converted once.
    let options = serde_saphyr::options! { angle_conversions: true };
    let tagged: f64 =
        serde_saphyr::from_str_with_options("!degrees 12345678901234567890:00", options).unwrap();
    let expected = "12345678901234567890".parse::<f64>().unwrap() * (std::f64::consts::PI / 180.0);
    assert_eq!(tagged.to_bits(), expected.to_bits(), "{tagged:e} vs {expected:e}");
}
