// DEFECT 2 (property C05): surplus bytes of a `!!binary` scalar read into a tuple / fixed-size
// array / tuple struct / tuple variant are dropped silently.
//
// Violated clause: "tuple and sequence arity ... are honoured. ... surplus or missing elements ...
// are reported as errors, never silently re-synchronised."
//
// Minimal input:   !!binary AQID      (3 bytes: 1, 2, 3)      target: (u8, u8)
//
// What the crate does: returns Ok((1, 2)); the third byte disappears. (Too FEW bytes are
// reported correctly: `!!binary AQ==` -> "invalid length 1, expected a tuple of size 2", and a
// plain sequence `[1, 2, 3]` is rejected as well.)
//
// What it should do: fail (3 elements for a 2-tuple), as for `[1, 2, 3]`.
//
// Cause: src/de.rs, deserialize_seq(), the `tag == &SfTag::Binary` branch: it returns
// `visitor.visit_seq(ByteSeq { data, idx: 0 })` directly and never checks that the visitor
// consumed all of `data` (serde's tuple visitors stop after N elements). deserialize_tuple /
// deserialize_tuple_struct and VA::tuple_variant all delegate to it.
//
// Run: cargo test --offline --test defect_2      (no optional features needed)

use serde::Deserialize;
use std::collections::BTreeMap;

fn describe<T: std::fmt::Debug>(r: &Result<T, serde_saphyr::Error>) -> String {
    match r {
        Ok(v) => format!("Ok({v:?})"),
        Err(e) => format!("Err({})", e.to_string().lines().next().unwrap_or("")),
    }
}

#[test]
fn control_missing_byte_and_plain_surplus_are_errors() {
    assert!(serde_saphyr::from_str::<(u8, u8)>("!!binary AQ==").is_err());
    assert!(serde_saphyr::from_str::<(u8, u8)>("[1, 2, 3]").is_err());
    assert_eq!(serde_saphyr::from_str::<(u8, u8)>("!!binary AQI=").unwrap(), (1, 2));
}

#[test]
fn surplus_byte_into_tuple_is_an_error() {
    let r = serde_saphyr::from_str::<(u8, u8)>("!!binary AQID");
    assert!(r.is_err(), "3 bytes into a 2-tuple must fail, got {}", describe(&r));
}

#[test]
fn surplus_byte_into_array_is_an_error() {
    let r = serde_saphyr::from_str::<[u8; 2]>("!!binary AQID");
    assert!(r.is_err(), "3 bytes into [u8; 2] must fail, got {}", describe(&r));
}

#[derive(Debug, Deserialize, PartialEq)]
enum E {
    D(u8, u8),
}

#[test]
fn surplus_byte_into_tuple_variant_and_nested_positions_is_an_error() {
    let r = serde_saphyr::from_str::<E>("{D: !!binary AQID}");
    assert!(r.is_err(), "3 bytes into D(u8, u8) must fail, got {}", describe(&r));

    let r = serde_saphyr::from_str::<BTreeMap<String, (u8, u8)>>("a: !!binary AQID\nb: [4, 5]\n");
    assert!(r.is_err(), "3 bytes into a 2-tuple map value must fail, got {}", describe(&r));
}
