// Needs the optional feature garde: run with
//   cargo test --offline --features garde --test defect_3
//
// VIOLATED CLAUSE (property C18): "whenever it fails they return a validation error in which
// every reported field path is mapped to the position where that field's value is used in the
// YAML".
//
// MINIMAL INPUT: an optional string validated with garde's `inner` rule
//
//     struct Root { #[garde(inner(length(min = 2)))] o: Option<String> }
//
//     o: x
//
// WHAT THE CRATE DOES: the issue is reported as "validation error at o.: length is lower than 2"
// - a path with a spurious trailing `.` - and without any position (Error::location() is None,
// no snippet, no line / column in the text), although the value `x` sits at line 1 column 4.
// Because it is the first issue without a position, all other issues of the document lose their
// snippets too. The same happens for `Option<Vec<String>>` (`ov.[1]`) and `Vec<Option<String>>`
// (`vo[1].`). garde itself prints this path as `o`.
//
// WHAT IT SHOULD DO: report `o` at line 1 column 4 (like `#[garde(length(min = 2))] s: String`).
//
// CAUSE: src/path_map.rs, path_key_from_garde(): garde describes "the value inside an Option"
// with a path component of kind `Kind::None` and empty text (garde::error::NoKey, used by
// `impl Inner<T> for Option<T>`). The `_ =>` arm turns it into a `PathKind::Key` segment named
// "", so the path has one segment more than anything the recorder stored (`o` -> `o.""`):
// PathMap::search() finds nothing and format_path_with_resolved_leaf() prints the empty
// segment. `Kind::None` components carry no key and must be skipped.

use garde::Validate;
use serde::Deserialize;

#[derive(Debug, Deserialize, Validate)]
struct Root {
    #[garde(inner(length(min = 2)))]
    o: Option<String>,
}

#[derive(Debug, Deserialize, Validate)]
struct Control {
    #[garde(length(min = 2))]
    o: String,
}

#[test]
fn control_plain_string_field_is_located() {
    // This passes: it only documents the expected behaviour.
    let err = serde_saphyr::from_str_valid::<Control>("o: x\n").expect_err("too short");
    let loc = err.location().expect("position of `o`");
    assert_eq!((loc.line(), loc.column()), (1, 4));
}

#[test]
fn garde_inner_rule_on_option_is_located() {
    let err = serde_saphyr::from_str_valid::<Root>("o: x\n").expect_err("too short");
    let rendered = err.to_string();
    assert!(
        !rendered.contains("o.:") && !rendered.contains("`o.`"),
        "the path of the failed field is `o`, not `o.`:\n{rendered}"
    );
    let loc = err
        .location()
        .unwrap_or_else(|| panic!("the failed field `o` must have a position; report:\n{rendered}"));
    assert_eq!((loc.line(), loc.column()), (1, 4), "report:\n{rendered}");
}

#[test]
fn garde_inner_rule_on_option_is_located_through_the_reader_entry_point() {
    let err = serde_saphyr::from_reader_valid::<_, Root>(std::io::Cursor::new(b"o: x\n"))
        .expect_err("too short");
    let rendered = err.to_string();
    let loc = err
        .location()
        .unwrap_or_else(|| panic!("the failed field `o` must have a position; report:\n{rendered}"));
    assert_eq!((loc.line(), loc.column()), (1, 4), "report:\n{rendered}");
}
