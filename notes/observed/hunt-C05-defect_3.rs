// DEFECT 3 (property C05): deserialize_seq does not notice that the visitor left elements
// unread; the multi-document iterator `read` / `read_with_options` therefore returns Ok for a
// document with surplus tuple elements and then re-synchronises on the leftovers, presenting
// them as further "documents".
//
// Violated clause: "deserialization either fails or returns the value in which every Rust
// position is filled from the YAML node at the corresponding position: tuple and sequence arity
// ... are honoured. A node is never consumed by a neighbouring position: surplus or missing
// elements ... are reported as errors, never silently re-synchronised."
//
// Minimal input:   "[1, 2, 3]\n"   via serde_saphyr::read::<_, (i32, i32)>
//
// What the crate does: the iterator yields Ok((1, 2)) for the document `[1, 2, 3]`, then an
// unrelated-looking error ("expected sequence start" at the `3`). With `[1, 2, [3, 4]]` it yields
// Ok((1, 2)) AND Ok((3, 4)) - a document that does not exist - before failing on the dangling
// sequence end. With an Option target and a null surplus (`[1, ~]` into Option<(i32,)>) it yields
// Ok(Some((1,))) followed by an ENDLESS stream of Ok(None) (deserialize_option answers None at
// the dangling SeqEnd without consuming it); `from_multiple::<Option<(i32,)>>("[1, ~]")` never
// returns for the same reason (not exercised here: it would exhaust memory).
//
// What it should do: the item for `[1, 2, 3]` must be an Err (3 elements for a 2-tuple); no item
// may be produced from the leftovers of a document.
//
// Cause: src/de.rs, deserialize_seq(): after `visitor.visit_seq(SA { .. })` it only does
// `if let Some(Ev::SeqEnd { .. }) = self.ev.peek()? { self.ev.next()?; }` and returns Ok(result)
// when the next event is NOT the sequence end (serde's tuple / array / tuple-struct visitors stop
// after N elements). The single-document entry points only catch this by accident through their
// "anything left over?" peek (and then report the misleading "multiple YAML documents detected");
// src/lib.rs read_with_options (ReadIter::next) and from_multiple_with_options have no such check
// between documents, and document boundaries are not part of the event stream
// (src/live_events.rs skips DocumentStart / DocumentEnd).
//
// Run: cargo test --offline --test defect_3      (no optional features needed)

fn run<T: serde::de::DeserializeOwned + std::fmt::Debug>(yaml: &str, max: usize) -> Vec<Result<T, String>> {
    let mut reader = std::io::Cursor::new(yaml.as_bytes().to_vec());
    serde_saphyr::read::<_, T>(&mut reader)
        .take(max)
        .map(|r| r.map_err(|e| e.to_string().lines().next().unwrap_or("").to_string()))
        .collect()
}

#[test]
fn control_well_formed_stream() {
    let items = run::<(i32, i32)>("[1, 2]\n---\n[4, 5]\n", 10);
    assert_eq!(items, vec![Ok((1, 2)), Ok((4, 5))]);
}

#[test]
fn surplus_element_is_not_returned_as_ok() {
    let items = run::<(i32, i32)>("[1, 2, 3]\n---\n[4, 5]\n", 10);
    assert!(
        !matches!(items.first(), Some(Ok((1, 2)))),
        "document `[1, 2, 3]` was returned as Ok((1, 2)); all items: {items:?}"
    );
}

#[test]
fn leftovers_are_not_presented_as_a_document() {
    let items = run::<(i32, i32)>("[1, 2, [3, 4]]\n---\n[4, 5]\n", 10);
    let oks: Vec<_> = items.iter().filter_map(|r| r.as_ref().ok()).collect();
    assert_eq!(
        oks,
        vec![&(4, 5)],
        "only the second document is a well-formed pair; all items: {items:?}"
    );
}

#[test]
fn one_document_does_not_produce_an_endless_stream() {
    // A single one-line document can yield at most one item (plus, at worst, one error).
    let items = run::<Option<(i32,)>>("[1, ~]\n", 50);
    assert!(
        items.len() <= 2,
        "one document produced {} items (capped at 50): {:?} ...",
        items.len(),
        &items[..4]
    );
}
