// Property C02, violated clause:
//   "Attaching an anchor to a node never changes that node's own value"
//   (and, as a consequence, "Deserializing a document that uses anchors and aliases yields exactly
//   the value obtained from the document in which every alias is replaced by a copy of the node
//   ... and every anchor mark is removed").
//
// Minimal input (target: an externally tagged enum, i.e. any type that gets to see the text of
// the scalar):
//
//     -          # omitted node            -> unit variant named "~"
//     - &a       # the same omitted node,  -> unit variant named ""   (or "unknown variant ``")
//                # with an anchor
//     - { : 1}   -> variant "~" with payload 1
//     - {&a : 1} -> variant ""  with payload 1
//
// What the crate does: an omitted (empty) node is delivered to the enum deserializer as the
// scalar text "~" when it carries no anchor, but as the scalar text "" when it carries an anchor
// (and so is every alias of it). `deserialize_enum` uses that text verbatim as the variant name,
// so `- &a` selects a different variant than `-` (or fails with "unknown variant ``" where the
// un-anchored document succeeds, or the other way round).
//
// What it should do: the anchored omitted node, the alias of it and the un-anchored omitted node
// are the same node and must select the same variant / fail in the same way. (The same
// discrepancy was already repaired for mapping keys - "an omitted key node is the same key with
// and without an anchor", KeyNode::fingerprint in src/de.rs - but not for the enum path.)
//
// Cause: saphyr-parser `Event::empty_scalar()` yields ("~", Plain) while
// `Event::empty_scalar_with_anchor()` (parser.rs, parse_node, branch
// `Token(mark, _) if tag.is_some() || anchor_id > 0`) yields ("", Plain);
// src/live_events.rs next_impl (Event::Scalar arm) records / forwards the text unchanged, and
// src/de.rs `deserialize_enum` (`Mode::Unit(value, ..)` from `take_scalar_event()`, and
// `Mode::Map(value.to_string(), ..)` for the `{ key: payload }` form) takes the raw text as the
// variant name without normalising the two spellings of the omitted node.
//
// Run: cargo test --offline --test defect_1

use serde::Deserialize;

#[derive(Debug, Deserialize, PartialEq)]
enum Level {
    /// what an omitted node selects
    #[serde(rename = "~")]
    Unset,
    Low,
    High,
    /// `{ : 1}` form
    #[serde(rename = "")]
    Empty(Option<i32>),
}

fn parse(yaml: &str) -> Result<Vec<Level>, String> {
    serde_saphyr::from_str::<Vec<Level>>(yaml).map_err(|e| {
        // keep only the message kind, not the position
        let first = e.to_string().lines().next().unwrap_or("").to_string();
        first
            .split(':')
            .last()
            .unwrap_or("")
            .trim()
            .to_string()
    })
}

#[test]
fn anchor_on_omitted_node_does_not_change_the_enum_variant() {
    // the un-anchored document: both omitted nodes select the variant named "~"
    let plain = parse("-\n- Low\n-\n");
    assert_eq!(plain, Ok(vec![Level::Unset, Level::Low, Level::Unset]));

    // the same document with an anchor on the first omitted node and an alias for the second
    let anchored = parse("- &a\n- Low\n- *a\n");
    assert_eq!(
        anchored, plain,
        "`- &a` / `*a` must read like the un-anchored omitted node `-`"
    );
}

#[test]
fn anchor_on_omitted_variant_key_does_not_change_the_enum_variant() {
    #[derive(Debug, Deserialize, PartialEq)]
    enum E {
        #[serde(rename = "~")]
        Tilde(i32),
        #[serde(rename = "")]
        Empty(i32),
    }
    let plain = serde_saphyr::from_str::<Vec<E>>("- { : 1}\n").map_err(|e| e.to_string());
    let anchored = serde_saphyr::from_str::<Vec<E>>("- {&a : 1}\n").map_err(|e| e.to_string());
    assert_eq!(plain, Ok(vec![E::Tilde(1)]));
    assert_eq!(anchored, plain, "an anchor on the omitted key node changed the variant");
}
