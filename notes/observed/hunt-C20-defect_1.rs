// C20 defect 1: an anchor is lost / moved to the wrong node when the anchored string is written
// as a block scalar (LitStr / FoldStr wrapper, or the automatic block styles that the options
// `prefer_block_scalars` / `folded_wrap_chars` select).
//
// Violated clause: "The presentation wrappers (... literal and folded string ...) and all
// serializer options affect only the layout of the emitted document: it deserializes to the same
// data as without them".
//
// Minimal input:
//     struct Doc { a: RcAnchor<LitString>, b: i32, c: RcAnchor<LitString> }   (a and c share one Rc)
//     a = c = "x\ny", b = 1
// The crate emits
//     a: |-
//       x
//       y
//     b: &a1 1
//     c: *a1
// i.e. the `&a1` that belongs to the value of `a` is not written there; it stays pending and is
// attached to the next scalar (`b`), so the alias `c` now reads back as 1 instead of "x\ny".
// (If no scalar follows, the alias refers to an unknown anchor and the document is rejected.)
// The same value without the wrapper and with `prefer_block_scalars: false` is written correctly
// as `a: &a1 "x\ny"`. With a plain `RcAnchor<String>` the default options (prefer_block_scalars =
// true) or a small `folded_wrap_chars` trigger the very same loss, so the options change the data.
//
// Expected: `a: &a1 |-` (anchor before the block scalar header).
//
// Cause: src/ser.rs, `serialize_str`, the `if let Some(style) = self.pending_str_style.take()`
// branch that writes `|` / `>` block scalars never calls `write_scalar_prefix_if_anchor()`
// (only its quoted fall-back and the plain path do), so `pending_anchor_id` survives the node.
//
// Run: cargo test --offline --test defect_1

use serde::{Deserialize, Serialize};
use serde_saphyr::{LitString, RcAnchor, ser_options};
use std::rc::Rc;

#[derive(Serialize)]
struct DocLit {
    a: RcAnchor<LitString>,
    b: i32,
    c: RcAnchor<LitString>,
}

#[derive(Serialize)]
struct DocPlain {
    a: RcAnchor<String>,
    b: i32,
    c: RcAnchor<String>,
}

#[derive(Deserialize, Debug, PartialEq)]
struct Back {
    a: String,
    b: serde_json::Value,
    c: serde_json::Value,
}

fn expected(text: &str) -> Back {
    Back {
        a: text.to_string(),
        b: serde_json::json!(1),
        c: serde_json::json!(text),
    }
}

#[test]
fn litstr_wrapper_under_an_anchor_keeps_the_alias_target() {
    let shared = Rc::new(LitString("x\ny".to_string()));
    let doc = DocLit {
        a: RcAnchor(shared.clone()),
        b: 1,
        c: RcAnchor(shared),
    };
    let yaml = serde_saphyr::to_string(&doc).unwrap();
    let back: Back = serde_saphyr::from_str(&yaml)
        .unwrap_or_else(|e| panic!("document with LitString does not parse: {e}\n{yaml}"));
    assert_eq!(back, expected("x\ny"), "emitted document:\n{yaml}");
}

#[test]
fn block_scalar_options_do_not_change_what_an_alias_refers_to() {
    // reference: block scalars switched off
    let shared = Rc::new("one two three".to_string());
    let doc = DocPlain {
        a: RcAnchor(shared.clone()),
        b: 1,
        c: RcAnchor(shared),
    };
    let reference =
        serde_saphyr::to_string_with_options(&doc, ser_options! { prefer_block_scalars: false })
            .unwrap();
    let back: Back = serde_saphyr::from_str(&reference).unwrap();
    assert_eq!(back, expected("one two three"));

    // a small wrap width makes the string a folded block scalar: only the layout may change
    let yaml =
        serde_saphyr::to_string_with_options(&doc, ser_options! { folded_wrap_chars: 4 }).unwrap();
    let back: Back = serde_saphyr::from_str(&yaml)
        .unwrap_or_else(|e| panic!("document does not parse: {e}\n{yaml}"));
    assert_eq!(back, expected("one two three"), "emitted document:\n{yaml}");
}

#[test]
fn default_options_multiline_string_under_an_anchor() {
    let shared = Rc::new("x\ny".to_string());
    let doc = DocPlain {
        a: RcAnchor(shared.clone()),
        b: 1,
        c: RcAnchor(shared),
    };
    let yaml = serde_saphyr::to_string(&doc).unwrap();
    let back: Back = serde_saphyr::from_str(&yaml)
        .unwrap_or_else(|e| panic!("document does not parse: {e}\n{yaml}"));
    assert_eq!(back, expected("x\ny"), "emitted document:\n{yaml}");
}
