// C16 defect 2: an alias used as a VALUE inside a merged mapping that is written in place
// (`<<: {a: *x}`) loses its use site.
//
// Violated clause:
//   "For a value reached through an alias or a merge the use-site location is that of the
//    alias / merge entry and the definition-site location that of the anchored node, and an
//    error caused by such a value reports both."
//
// Minimal input:
//     x: &x 5
//     t:
//       <<: {a: *x}
//
// What the crate does: `t.a: Spanned<i32>` has referenced == defined == 1:7 (the anchored `5`);
//   the alias token `*x` (3:11) is reported nowhere. With `x: &x z` the type error
//   "invalid i32" is reported at 1:7 only (Error::locations(): reference == defined == 1:7),
//   i.e. the user is pointed at a line that is fine for its own purpose and is not told where
//   the value is used. The un-merged form `t: {a: *x}` reports referenced = `*x`, defined = `5`,
//   and an AliasError with both sites.
// What it should do: referenced = 3:11 (`*x`), defined = 1:7; the error names both.
//
// Cause: src/de.rs collect_entries_from_map(): `capture_node(ev)` expands the alias into the
//   anchored node's events, then (written_in_place branch, added by 69f8b6d) the entry's
//   reference_location is taken from `value.location()`, which for an expanded alias is the
//   DEFINITION site. The use site (`ev.reference_location()` before capturing the value) is
//   never looked at. Same for `<<: [{a: *x}]`.

use serde::Deserialize;
use serde_saphyr::Spanned;

#[derive(Debug, Deserialize)]
struct InSp {
    a: Spanned<i32>,
}
#[derive(Debug, Deserialize)]
struct DocSp {
    t: InSp,
}

#[derive(Debug, Deserialize)]
struct In {
    #[allow(dead_code)]
    a: i32,
}
#[derive(Debug, Deserialize)]
struct Doc {
    #[allow(dead_code)]
    t: In,
}

#[test]
fn spanned_alias_value_in_inplace_merged_mapping_keeps_use_site() {
    for yaml in ["x: &x 5\nt:\n  <<: {a: *x}\n", "x: &x 5\nt:\n  <<: [{a: *x}]\n"] {
        let col = yaml.lines().nth(2).unwrap().find("*x").unwrap() as u64 + 1;
        let d: DocSp = serde_saphyr::from_str(yaml).unwrap();
        let a = &d.t.a;
        assert_eq!(a.value, 5);
        assert_eq!((a.defined.line(), a.defined.column()), (1, 7), "{yaml:?}");
        assert_eq!(
            (a.referenced.line(), a.referenced.column()),
            (3, col),
            "{yaml:?}: use site must be the alias token `*x`"
        );
    }
}

#[test]
fn type_error_of_alias_value_in_inplace_merged_mapping_names_both_sites() {
    let yaml = "x: &x z\nt:\n  <<: {a: *x}\n";
    let err = serde_saphyr::from_str::<Doc>(yaml).expect_err("z is no i32");
    let locs = err.locations().expect("locations");
    assert_eq!(
        (locs.defined_location.line(), locs.defined_location.column()),
        (1, 7),
        "{err}"
    );
    assert_eq!(
        (locs.reference_location.line(), locs.reference_location.column()),
        (3, 11),
        "the error must name the use site `*x` as well: {err}"
    );

    // Reference behaviour: the same value used without the merge.
    let plain = "x: &x z\nt: {a: *x}\n";
    let err = serde_saphyr::from_str::<Doc>(plain).expect_err("z is no i32");
    let locs = err.locations().unwrap();
    assert_eq!((locs.reference_location.line(), locs.reference_location.column()), (2, 8));
    assert_eq!((locs.defined_location.line(), locs.defined_location.column()), (1, 7));
}
