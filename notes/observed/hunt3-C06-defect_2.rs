// DEFECT 2 (C06): a scalar that is a string by its tag (`!!str null`, `!!str ~`, `!!str` with
// empty content, and the non-specific tag `! null`) is still taken for a null by Option<T>,
// by untyped targets (serde_json::Value) and - for `!` - even by String.
//
// Property clauses violated:
//   "A scalar is interpreted from its text, style, tag, ..." / "tag table and
//   string-compatibility of tags" / "null-likes ... follow the documented tables".
//   The crate's own statements:
//     - src/lib.rs, is_null_document: "A scalar that is a string by its tag (`!!str null`,
//       `!!str ~`) ... is a value, as it is for the single-document entry points."
//     - tests/de_coverage.rs: "deserialize_any: !!str tagged scalar -> always string ...
//       !!str forces string interpretation regardless of scalar content"
//     - src/tags.rs: "Non-specific tag "!" (no resolution) - we force scalar to be treated as
//       string"
//
// Minimal inputs and behaviour (unchanged crate):
//   `!!str null`  as String          -> Ok("null")          (correct)
//   `!!str null`  as Option<String>  -> Ok(None)            should be Some("null")
//   `!!str null`  as serde_json::Value -> Null              should be String("null")
//   `!!str ~`     as Option<String>  -> Ok(None)            should be Some("~")
//   `k: !!str null` as BTreeMap<String, Option<String>> -> {"k": None}
//   `! null`      as String          -> Err(cannot deserialize null into string)
//                                      should be Ok("null") (`! 5` -> "5", `! true` -> "true")
//   `! null`      as serde_json::Value -> Null              should be String("null")
//
// Cause: src/de.rs - `deserialize_option` (arm `scalar_is_nullish_for_option`, only exempts
// SfTag::Binary), `deserialize_any` (`if tag != &SfTag::Binary && scalar_is_nullish(..)` comes
// before the `tag == &SfTag::String` / NonSpecific string branch), and the null pre-checks of
// `deserialize_str` / `deserialize_string` (exempt String and Binary but not NonSpecific).
// The earlier `!!binary null` fix added the exemption for Binary only.
//
// Run: cargo test --offline --test defect_2

use serde_json::Value;
use std::collections::BTreeMap;

#[test]
fn str_tagged_null_spelling_is_a_string_for_option() {
    // Baseline that already holds: the String target sees the text.
    assert_eq!(serde_saphyr::from_str::<String>("!!str null").unwrap(), "null");
    assert_eq!(serde_saphyr::from_str::<String>("!!str ~").unwrap(), "~");

    assert_eq!(
        serde_saphyr::from_str::<Option<String>>("!!str null").unwrap(),
        Some("null".to_owned())
    );
    assert_eq!(
        serde_saphyr::from_str::<Option<String>>("!!str ~").unwrap(),
        Some("~".to_owned())
    );
    let m: BTreeMap<String, Option<String>> = serde_saphyr::from_str("k: !!str null").unwrap();
    assert_eq!(m["k"], Some("null".to_owned()));
}

#[test]
fn str_tagged_null_spelling_is_a_string_for_untyped() {
    // `!!str 42` is String("42") for Value (asserted by the crate's own tests) ...
    assert_eq!(
        serde_saphyr::from_str::<Value>("!!str 42").unwrap(),
        Value::String("42".into())
    );
    // ... so is `!!str null`.
    assert_eq!(
        serde_saphyr::from_str::<Value>("!!str null").unwrap(),
        Value::String("null".into())
    );
    assert_eq!(
        serde_saphyr::from_str::<Value>("- !!str ~").unwrap(),
        serde_json::json!(["~"])
    );
}

#[test]
fn non_specific_tag_forces_string_also_for_null_spelling() {
    assert_eq!(serde_saphyr::from_str::<String>("! 5").unwrap(), "5");
    assert_eq!(serde_saphyr::from_str::<String>("! true").unwrap(), "true");
    assert_eq!(serde_saphyr::from_str::<String>("! null").unwrap(), "null");
    assert_eq!(
        serde_saphyr::from_str::<Value>("! null").unwrap(),
        Value::String("null".into())
    );
}
