// C20 defect 1: an anchor in front of a string that is written as a block scalar is lost
// (and moves to the next node) - triggered by the LitStr / FoldStr wrappers and by the
// `prefer_block_scalars` option.
//
// Violated clause: "The presentation wrappers (... literal and folded string ...) and all
// serializer options affect only the layout of the emitted document: it deserializes to the
// same data as without them".
//
// Minimal input: struct { a: RcAnchor<String>, b: RcAnchor<String>, c: i32 } with a and b sharing
// Rc::new("line1\nline2\n") - default options (prefer_block_scalars: true) - or
// vec![RcAnchor(rc.clone()), RcAnchor(rc)] with rc = Rc::new(LitString("x y".into())).
//
// The crate writes
//     a: |
//       line1
//       line2
//     b: *a1
//     c: &a1 3
// i.e. the `&a1` is not written before the block scalar header, stays pending and is attached to
// the next scalar of the document (`c`). The document fails to load ("alias references unknown
// anchor"), or - if the alias comes after the node that inherited the anchor - loads different
// data. With `prefer_block_scalars: false` (or without the LitString wrapper) the output is
// `a: &a1 "line1\nline2\n"` / `- &a1 x y` and round-trips.
//
// Expected: `a: &a1 |` (anchor before the block scalar header).
//
// Cause: src/ser.rs, `serialize_str`: the branch `if let Some(style) = self.pending_str_style.take()`
// that emits `|` / `>` never calls `write_scalar_prefix_if_anchor()`; only the plain / quoted
// paths (and the fall-back inside the block branch) do.
//
// Run: cargo test --offline --test defect_1   (no optional features needed)

use serde::{Deserialize, Serialize};
use serde_saphyr::{LitString, RcAnchor, ser_options};
use std::rc::Rc;

#[derive(Serialize, Deserialize)]
struct Doc {
    a: RcAnchor<String>,
    b: RcAnchor<String>,
    c: i32,
}

#[test]
fn option_prefer_block_scalars_loses_anchor() {
    let s = Rc::new("line1\nline2\n".to_string());
    let doc = Doc { a: RcAnchor(s.clone()), b: RcAnchor(s), c: 3 };

    // Reference: without block scalars the document round-trips.
    let plain = serde_saphyr::to_string_with_options(&doc, ser_options! { prefer_block_scalars: false }).unwrap();
    let back: Doc = serde_saphyr::from_str(&plain).expect("reference output must load");
    assert_eq!(*back.b.0, "line1\nline2\n");

    // Default options (prefer_block_scalars: true) must give the same data.
    let yaml = serde_saphyr::to_string(&doc).unwrap();
    let back: Doc = serde_saphyr::from_str(&yaml)
        .unwrap_or_else(|e| panic!("output with prefer_block_scalars does not load:\n{yaml}\n{e}"));
    assert_eq!(*back.a.0, "line1\nline2\n");
    assert_eq!(*back.b.0, "line1\nline2\n");
    assert_eq!(back.c, 3);
}

#[test]
fn lit_string_wrapper_loses_anchor() {
    let l = Rc::new(LitString("x y".to_string()));
    let v = vec![RcAnchor(l.clone()), RcAnchor(l)];
    let yaml = serde_saphyr::to_string(&v).unwrap();
    let back: Vec<String> = serde_saphyr::from_str(&yaml)
        .unwrap_or_else(|e| panic!("output with LitString does not load:\n{yaml}\n{e}"));
    assert_eq!(back, vec!["x y".to_string(), "x y".to_string()]);
}
