// C20 defect 2: `indent_step: 1` changes the data: everything nested below the first key of a
// mapping (or below an enum variant label) that starts on the line of a sequence dash is written
// in the column of that key and becomes its sibling.
//
// Violated clause: "all serializer options affect only the layout of the emitted document: it
// deserializes to the same data as without them".
// (`indent_step: 1` is a legal value: the `ser_options!` macro accepts 1..=65535, see
// tests/ui/indent_step_ok.rs, and `SerializerOptions::consistent` rejects only 0.)
//
// Minimal input: vec![Item { a: Inner { b: 1 }, d: 2 }] with `ser_options! { indent_step: 1 }`.
// The crate emits
//     - a:
//       b: 1
//       d: 2
// which reads back as [{a: null, b: 1, d: 2}]; expected is a document that reads back as
// [{a: {b: 1}, d: 2}] (e.g. `b` in column 3). The same happens for `- St:` (struct variant: the
// fields land in the column of the label), `- Tu:` (tuple variant: the items' dashes are written
// LEFT of the label -> parse error) and a sequence below such a key.
//
// Cause: src/ser.rs. A mapping / variant label that starts inline after "- " sits two columns
// after the dash (MapSer::serialize_key `align_after_dash`, serialize_newtype_variant /
// serialize_struct_variant / serialize_tuple_variant with `after_dash_depth`), but children are
// placed at `indent_step * (depth + 1)` (serialize_map `depth_next = base + 1`, serialize_seq,
// StructVariantSer depth `d + 2`), which for indent_step = 1 is not deeper than "dash column + 2".
//
// Run: cargo test --offline --test defect_2

use serde::{Deserialize, Serialize};
use serde_saphyr::ser_options;

#[derive(Serialize, Deserialize, Debug, PartialEq, Clone)]
struct Inner {
    b: i32,
}
#[derive(Serialize, Deserialize, Debug, PartialEq, Clone)]
struct Item {
    a: Inner,
    d: i32,
}
#[derive(Serialize, Deserialize, Debug, PartialEq, Clone)]
enum E {
    St { fa: i32, fb: i32 },
    Tu(i32, i32),
}

#[test]
fn indent_step_1_nested_mapping_in_sequence_item() {
    let value = vec![Item { a: Inner { b: 1 }, d: 2 }];
    let reference = serde_saphyr::to_string(&value).unwrap();
    let tree_ref: serde_json::Value = serde_saphyr::from_str(&reference).unwrap();

    let yaml = serde_saphyr::to_string_with_options(&value, ser_options! { indent_step: 1 }).unwrap();
    let tree: serde_json::Value = serde_saphyr::from_str(&yaml)
        .unwrap_or_else(|e| panic!("does not parse: {e}\n{yaml}"));
    assert_eq!(tree, tree_ref, "indent_step: 1 changed the data, document:\n{yaml}");
    let back: Vec<Item> = serde_saphyr::from_str(&yaml).unwrap();
    assert_eq!(back, value);
}

#[test]
fn indent_step_1_enum_variants_in_sequence_items() {
    let value = vec![E::St { fa: 1, fb: 2 }, E::Tu(3, 4)];
    let reference = serde_saphyr::to_string(&value).unwrap();
    let back_ref: Vec<E> = serde_saphyr::from_str(&reference).unwrap();
    assert_eq!(back_ref, value);

    let yaml = serde_saphyr::to_string_with_options(&value, ser_options! { indent_step: 1 }).unwrap();
    let back: Vec<E> = serde_saphyr::from_str(&yaml)
        .unwrap_or_else(|e| panic!("does not parse: {e}\n{yaml}"));
    assert_eq!(back, value, "document:\n{yaml}");
}
