// Needs the optional feature validator: run with
//   cargo test --offline --features validator --test defect_4
//
// VIOLATED CLAUSE (property C18): "whenever it fails they return a validation error in which
// every reported field path is mapped to the position where that field's value is used in the
// YAML ... For a stream, every failing document is reported".
//
// MINIMAL INPUT: a nested struct with a struct-level (`schema`) validator rule
//
//     #[derive(Validate)] #[validate(schema(function = "a_le_b"))] struct Pair { a: u32, b: u32 }
//     #[derive(Validate)] struct Root { #[validate(nested)] pair: Pair }
//
//     pair: {a: 2, b: 1}
//
// WHAT THE CRATE DOES: `validator` files struct-level errors under the pseudo field `__all__`
// of the struct that failed. serde-saphyr reports "validation error at pair.__all__: a_gt_b"
// with no position at all (Error::location() and Error::locations() are None, no snippet),
// although the position of the offending struct `pair` (line 1 column 7) was recorded. The same
// holds for `pairs[1].__all__`, `op.__all__` (Option<Pair>), for from_multiple_validate /
// read_validate (each failing document is listed, none is located). When it happens to be the
// first issue of the report it also strips the snippets from every other issue of the document.
// garde's equivalent (`#[garde(custom(..))]` on the field) is located correctly.
//
// WHAT IT SHOULD DO: map `pair.__all__` to the struct it is about: line 1 column 7.
//
// CAUSE: src/de_error.rs, collect_validator_issues_inner() (and its twin
// collect_validator_entries_inner() in src/miette.rs) joins every key of
// `ValidationErrors::errors()` to the path as if it were a YAML key. Only the placeholder
// `_tmp_validator` is special-cased; `__all__` is not, so the path `pair.__all__` is looked up
// in the PathMap, where only `pair` exists. The renderer and Error::location()/locations() use
// PathMap::search() without the ancestor fallback.

use serde::Deserialize;
use validator::{Validate, ValidationError};

fn a_le_b(p: &Pair) -> Result<(), ValidationError> {
    if p.a > p.b {
        Err(ValidationError::new("a_gt_b"))
    } else {
        Ok(())
    }
}

#[derive(Debug, Deserialize, Validate)]
#[validate(schema(function = "a_le_b"))]
struct Pair {
    a: u32,
    b: u32,
}

#[derive(Debug, Deserialize, Validate)]
struct Root {
    #[validate(nested)]
    pair: Pair,
}

#[test]
fn struct_level_issue_of_a_nested_struct_is_located() {
    let err = serde_saphyr::from_str_validate::<Root>("pair: {a: 2, b: 1}\n")
        .expect_err("a > b must be rejected");
    let rendered = err.to_string();
    assert!(rendered.contains("a_gt_b"), "{rendered}");
    let loc = err.location().unwrap_or_else(|| {
        panic!("the failed struct `pair` must have a position (line 1 column 7); report:\n{rendered}")
    });
    assert_eq!((loc.line(), loc.column()), (1, 7), "report:\n{rendered}");
    assert!(
        rendered.contains("line 1"),
        "the report must name the line of the failed struct:\n{rendered}"
    );
}

#[test]
fn struct_level_issues_of_a_stream_are_located() {
    let yaml = "pair: {a: 2, b: 1}\n---\npair: {a: 1, b: 2}\n---\npair:\n  a: 3\n  b: 1\n";
    let mut reader = std::io::Cursor::new(yaml.as_bytes());
    let results: Vec<_> = serde_saphyr::read_validate::<_, Root>(&mut reader).collect();
    assert_eq!(results.len(), 3);
    assert!(results[1].is_ok());
    let lines: Vec<Option<u64>> = [&results[0], &results[2]]
        .iter()
        .map(|r| {
            r.as_ref()
                .expect_err("a > b must be rejected")
                .location()
                .map(|l| l.line())
        })
        .collect();
    assert_eq!(
        lines,
        vec![Some(1), Some(6)],
        "every failing document must be located (documents start at lines 1 and 5)"
    );
}
