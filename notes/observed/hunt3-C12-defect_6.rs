// C12 defect 6 (lower confidence, see the note on documentation below): a plain `String`
// wrapped in `SpaceAfter` reads back with one line break too many when the serializer itself
// picks the keep-chomping literal style (`|+`) for it.
//
// Violated clause: "Every string ... deserializes back ... as the identical value - strings
// character for character"; "no string is ever emitted in a form that reads back as ... a
// different string".
//
// Minimal input (default options):
//     struct S { a: SpaceAfter<String>, b: i32 }     S { a: SpaceAfter("x\n\n"), b: 5 }
// is written as
//     a: |+
//       x
//       <indent only>
//     <the empty line added by SpaceAfter>
//     b: 5
// With keep chomping every trailing empty line belongs to the scalar, so `a` reads back as
// "x\n\n\n".
//
// Documentation: SpaceAfter's doc comment warns "Avoid using this wrapper with
// `LitStr`/`LitString` as it may add the empty line to the string content" and states that for
// "other YAML values (e.g. `key: value`, quoted scalars), the extra empty line is cosmetic".
// Here the user wrapped an ordinary `String`; the literal style with `+` chomping was selected
// by the serializer (prefer_block_scalars, the default), so the user cannot know that the
// caveat applies, and the line is not cosmetic.
//
// Expected: the string reads back unchanged - e.g. the serializer does not auto-select a `|+`
// block scalar (uses the quoted form) when an empty line is going to follow, or SpaceAfter does
// not write its empty line after a keep-chomped block scalar.
//
// Cause: src/ser.rs, `serialize_newtype_struct`, `NAME_SPACE_AFTER` arm: writes `newline()`
// after the value unconditionally (outside flow), also when `serialize_str` has just emitted an
// auto-selected `|+` literal (the `trailing_nl >= 2` case of the `StrStyle::Literal` arm).
//
// Run: cargo test --offline --test defect_6

use serde::{Deserialize, Serialize};
use serde_saphyr::SpaceAfter;

#[derive(Serialize, Deserialize, Debug, PartialEq)]
struct S {
    a: SpaceAfter<String>,
    b: i32,
}

#[test]
fn string_with_two_trailing_line_breaks_survives_space_after() {
    let v = S {
        a: SpaceAfter("x\n\n".to_string()),
        b: 5,
    };
    let yaml = serde_saphyr::to_string(&v).unwrap();
    let back: S = serde_saphyr::from_str(&yaml).unwrap();
    assert_eq!(back, v, "yaml: {yaml:?}");
}
