// C09 defect 3: a PLAIN scalar that stands verbatim in the input is not lent to a borrowed string
// target when the value is reached through `deserialize_any` (serde's `#[serde(flatten)]`,
// `#[serde(untagged)]`, `#[serde(tag = ...)]` buffers, or any visitor driven by
// `deserialize_any`). The same text written as a quoted scalar, or tagged `!!str`, IS lent, and
// the same plain scalar is lent when the target asks for a string directly.
//
// Violated clause: "Deserializing into borrowed strings succeeds exactly when the scalar appears
// verbatim in the input and then yields the same text as the owned variant" (and: "borrowing is
// delegated to the parser's Cow and refused with a dedicated error otherwise" - the refusal here is
// not even the dedicated CannotBorrowTransformedString error but serde's generic
// `invalid type: string "hello", expected a borrowed string` / `data did not match any variant`).
// The crate's documentation (src/lib.rs, `from_str`): "Borrowed strings are supported when
// deserializing from an in-memory input (`from_str` / `from_slice`), and only when the scalar
// exists verbatim in the input (i.e., no escape processing, folding, or other normalization is
// required)."
//
// Minimal input:  `x: hello`  into  struct F<'a> { #[serde(flatten, borrow)] inner: Inner<'a> }
//                 with            struct Inner<'a> { x: &'a str }
//
// What the crate does:
//   from_str::<F>("x: \"hello\"")   -> Ok, x borrowed from the input
//   from_str::<F>("x: !!str hello") -> Ok, x borrowed from the input
//   from_str::<Inner>("x: hello")   -> Ok, x borrowed from the input
//   from_str::<F>("x: hello")       -> Err(invalid type: string "hello", expected a borrowed string)
//   (the owned variant, x: String, accepts all four and yields "hello")
// What it should do: lend the plain scalar as well - the parser hands it over as Cow::Borrowed.
//
// Cause: src/de.rs `YamlDeserializer::deserialize_any`. The branch for quoted / string-tagged
// scalars uses `take_scalar_cow_event()` and calls `visitor.visit_borrowed_str(b)` for
// `Cow::Borrowed`. The branch for plain untagged scalars calls `take_scalar_event()`, which turns
// the parser's Cow into an owned `String`, tries bool / int / float, and then falls back to
// `visitor.visit_string(s)` - the borrow the parser offered is dropped.
//
// Run: cargo test --offline --test defect_3

use serde::Deserialize;

#[derive(Debug, Deserialize, PartialEq)]
struct Inner<'a> {
    #[serde(borrow)]
    x: &'a str,
}

#[derive(Debug, Deserialize, PartialEq)]
struct Flat<'a> {
    #[serde(flatten, borrow)]
    inner: Inner<'a>,
}

#[derive(Debug, Deserialize, PartialEq)]
struct FlatOwned {
    #[serde(flatten)]
    inner: InnerOwned,
}

#[derive(Debug, Deserialize, PartialEq)]
struct InnerOwned {
    x: String,
}

#[derive(Debug, Deserialize, PartialEq)]
#[serde(untagged)]
enum Untagged<'a> {
    #[serde(borrow)]
    S(&'a str),
}

#[derive(Debug, Deserialize, PartialEq)]
#[serde(tag = "t")]
enum Internally<'a> {
    A {
        #[serde(borrow)]
        x: &'a str,
    },
}

fn lent_from(input: &str, s: &str) -> bool {
    let r = input.as_bytes().as_ptr_range();
    r.start <= s.as_ptr() && s.as_ptr() < r.end
}

#[test]
fn controls_quoted_tagged_and_direct_plain_scalars_are_lent() {
    let doc = "x: \"hello\"";
    let v: Flat = serde_saphyr::from_str(doc).unwrap();
    assert!(v.inner.x == "hello" && lent_from(doc, v.inner.x));

    let doc = "x: !!str hello";
    let v: Flat = serde_saphyr::from_str(doc).unwrap();
    assert!(v.inner.x == "hello" && lent_from(doc, v.inner.x));

    let doc = "x: hello";
    let v: Inner = serde_saphyr::from_str(doc).unwrap();
    assert!(v.x == "hello" && lent_from(doc, v.x));

    let v: FlatOwned = serde_saphyr::from_str(doc).unwrap();
    assert_eq!(v.inner.x, "hello");
}

#[test]
fn plain_scalar_behind_flatten() {
    let doc = "x: hello";
    let v: Flat = serde_saphyr::from_str(doc)
        .unwrap_or_else(|e| panic!("`hello` stands verbatim in {doc:?} but was not lent: {e}"));
    assert_eq!(v.inner.x, "hello");
    assert!(lent_from(doc, v.inner.x));
}

#[test]
fn plain_scalar_into_untagged_enum() {
    let quoted: Untagged = serde_saphyr::from_str("'hello'").unwrap();
    assert_eq!(quoted, Untagged::S("hello"));
    let doc = "hello";
    let v: Untagged = serde_saphyr::from_str(doc)
        .unwrap_or_else(|e| panic!("`hello` stands verbatim in {doc:?} but was not lent: {e}"));
    assert_eq!(v, Untagged::S("hello"));
}

#[test]
fn plain_scalar_into_internally_tagged_enum() {
    let quoted: Internally = serde_saphyr::from_str("t: A\nx: 'hello'").unwrap();
    assert_eq!(quoted, Internally::A { x: "hello" });
    let doc = "t: A\nx: hello";
    let v: Internally = serde_saphyr::from_str(doc)
        .unwrap_or_else(|e| panic!("`hello` stands verbatim in {doc:?} but was not lent: {e}"));
    assert_eq!(v, Internally::A { x: "hello" });
}
