// DEFECT 4 (C05): with DuplicateKeyPolicy::FirstWins a mapping entry whose key is NOT a duplicate
// is dropped silently: the null key (`null`, `~`, omitted) and the quoted strings "null" / "~"
// are taken for the same key.
//
// Violated clause: "for EVERY input / option combination ... deserialization either fails or
// returns the value in which every Rust position is filled from the YAML node at the
// corresponding position ... [nothing is] silently re-synchronised" - an entry of the map is
// skipped (key and value consumed and ignored) although its key differs from every other key,
// both as a YAML node (null vs. string) and as a Rust value (None vs. Some("null")).
//
// Minimal input:  "null: 1\n\"null\": 2\n"  into  BTreeMap<Option<String>, i32>
//                 with Options { duplicate_keys: FirstWins }
//
// What the crate does:  Ok({None: 1})  - the entry  Some("null") => 2  is gone.
//   (LastWins, which does not compare keys, returns both entries {None: 1, Some("null"): 2};
//   the default policy `Error` rejects the document with "duplicate mapping key: null" - and this
//   document is the crate's OWN serialization of that map, see `own_output_round_trips`.)
//   Same inside composite keys: `? [~]` vs `? ["~"]` for keys of type Vec<Option<String>>.
// What it should do:    Ok({None: 1, Some("null"): 2}).
//
// Cause: src/de.rs `KeyNode::fingerprint` / `KeyFingerprint::Scalar { value, tag }` (built in
//   `capture_node`): the fingerprint used for duplicate detection in `MA::next_key_seed`
//   (and `collect_entries_from_map`) keeps the scalar text and the tag but not the scalar style,
//   so the plain scalar `null` (a null) and the quoted scalar "null" (a string) collide; the
//   empty plain scalar is additionally normalised to "~", which collides with the string '~'.
//
// Run: cargo test --offline --test defect_4

use serde_saphyr::{DuplicateKeyPolicy, Options};
use std::collections::BTreeMap;

fn first_wins() -> Options {
    let mut o = Options::default();
    o.duplicate_keys = DuplicateKeyPolicy::FirstWins;
    o
}

fn expected() -> BTreeMap<Option<String>, i32> {
    let mut m = BTreeMap::new();
    m.insert(None, 1);
    m.insert(Some("null".to_string()), 2);
    m
}

#[test]
fn first_wins_keeps_distinct_keys_null_and_quoted_null() {
    let got: BTreeMap<Option<String>, i32> =
        serde_saphyr::from_str_with_options("null: 1\n\"null\": 2\n", first_wins()).unwrap();
    assert_eq!(got, expected());
}

#[test]
fn first_wins_keeps_distinct_keys_tilde() {
    let got: BTreeMap<Option<String>, i32> =
        serde_saphyr::from_str_with_options("{~: 1, '~': 2}", first_wins()).unwrap();
    let mut want = BTreeMap::new();
    want.insert(None, 1);
    want.insert(Some("~".to_string()), 2);
    assert_eq!(got, want);
}

#[test]
fn first_wins_keeps_distinct_composite_keys() {
    let got: BTreeMap<Vec<Option<String>>, i32> =
        serde_saphyr::from_str_with_options("? [~]\n: 1\n? ['~']\n: 2\n", first_wins()).unwrap();
    let mut want = BTreeMap::new();
    want.insert(vec![None], 1);
    want.insert(vec![Some("~".to_string())], 2);
    assert_eq!(got, want);
}

#[test]
fn own_output_round_trips() {
    // The serializer writes `null: 1` and `"null": 2`; with the default policy the reader
    // rejects this as a duplicate key, with FirstWins it loses an entry.
    let yaml = serde_saphyr::to_string(&expected()).unwrap();
    let back: BTreeMap<Option<String>, i32> = serde_saphyr::from_str(&yaml)
        .unwrap_or_else(|e| panic!("own output {yaml:?} rejected: {e}"));
    assert_eq!(back, expected());
}
