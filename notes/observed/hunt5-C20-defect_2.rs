// C20 defect 2: `indent_step: 1` produces documents that load as different data or not at all
// whenever a mapping starts after a sequence dash.
//
// Violated clause: "all serializer options affect only the layout of the emitted document: it
// deserializes to the same data as without them" (quantified over "all option vectors";
// SerializerOptions documents only indent_step == 0 as invalid).
//
// Minimal input: vec![ {"a": {"b": 1}} ]  (Vec<BTreeMap<String, BTreeMap<String, i32>>>)
// with ser_options! { indent_step: 1 }.
//
// The crate writes
//     - a:
//       b: 1
// (the nested key `b` is in the same column as its parent key `a`), which loads as
// [{a: null, b: 1}] - silently different data. With a sequence as the value,
// vec![ {"a": [1]} ] and `compact_list_indent: true`, it writes
//     - a:
//      - 1
// (inner dash left of the key), which is rejected: "did not find expected '-' indicator".
// With indent_step 2..=10 both round-trip.
//
// Expected: children of a key of a mapping that starts after a dash must be indented deeper than
// that key (column of dash + 2), whatever the step.
//
// Cause: src/ser.rs: keys of a mapping that starts inline after a dash are placed at
// "dash column + 2" (MapSer::serialize_key, `align_after_dash`), but the children are indented with
// `indent_step * (depth + 1)` (serialize_map / serialize_seq: `depth_next = base + 1`), which for
// indent_step == 1 is dash column + 2 as well (maps) or dash column + 1 (sequences).
// serialize_str already knows the problem for block scalars (`indent_n == 0` falls back to a
// quoted scalar); collections have no such guard.
//
// Run: cargo test --offline --test defect_2

use serde_saphyr::ser_options;
use std::collections::BTreeMap;

#[test]
fn indent_step_1_nested_map_after_dash() {
    let mut inner = BTreeMap::new();
    inner.insert("b".to_string(), 1);
    let mut outer = BTreeMap::new();
    outer.insert("a".to_string(), inner);
    let v = vec![outer];

    let reference = serde_saphyr::to_string(&v).unwrap();
    let back: Vec<BTreeMap<String, BTreeMap<String, i32>>> = serde_saphyr::from_str(&reference).unwrap();
    assert_eq!(back, v);

    let yaml = serde_saphyr::to_string_with_options(&v, ser_options! { indent_step: 1 }).unwrap();
    let untyped: serde_json::Value = serde_saphyr::from_str(&yaml).unwrap();
    assert_eq!(untyped, serde_json::json!([{"a": {"b": 1}}]), "indent_step 1 changed the data:\n{yaml}");
}

#[test]
fn indent_step_1_seq_value_in_map_after_dash() {
    let mut outer = BTreeMap::new();
    outer.insert("a".to_string(), vec![1]);
    let v = vec![outer];
    let yaml = serde_saphyr::to_string_with_options(&v, ser_options! { indent_step: 1, compact_list_indent: true }).unwrap();
    let back: Vec<BTreeMap<String, Vec<i32>>> = serde_saphyr::from_str(&yaml)
        .unwrap_or_else(|e| panic!("indent_step 1 output does not load:\n{yaml}\n{e}"));
    assert_eq!(back, v);
}
