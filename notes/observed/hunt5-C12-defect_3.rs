// C12 defect 3: LitStr("\n") / LitString("\n") (a string that is exactly one line break,
// through the documented literal-block wrapper) reads back as "" whenever another node
// follows it.
//
// Violated clause: "Every string (any Unicode content and length) ... deserializes back ... as
// the identical value - strings character for character"; mechanism named by the property:
// "automatic and explicit block scalars: indentation indicator, chomping indicator".
//
// Minimal input: struct { a: LitString("\n"), z: 1 }, default options (every option vector
// I tried behaves the same; also as a sequence item that is not the last one).
// The crate writes   "a: |\n  \nz: 1\n"   - header `|` (clip) and one line of indentation only.
// With clip chomping a block scalar that has no content line is the empty string (YAML 1.2
// 8.1.1.2: the trailing empty lines are chomped), and that is what the crate's own reader
// returns: a == "". Expected: a form that keeps the line break (`|+` with one empty line, or
// "\n" double-quoted as the serializer does for plain `String`).
//
// Cause: src/ser.rs `serialize_str`, `historical_empty`: for the explicit wrappers the strings
// "" and "\n" are exempted from `wrapping::fits_block_scalar` (which knows that "a scalar
// without any content line cannot express its line breaks reliably") and "\n" is written with
// trailing_nl == 1 -> clip.
use serde::{Deserialize, Serialize};
use serde_saphyr::LitString;

#[derive(Serialize, Deserialize, Debug, PartialEq)]
struct Doc {
    a: LitString,
    z: i32,
}

#[test]
fn lit_string_single_line_break_round_trips() {
    let doc = Doc { a: LitString("\n".to_string()), z: 1 };
    let yaml = serde_saphyr::to_string(&doc).unwrap();
    let back: Doc = serde_saphyr::from_str(&yaml).unwrap();
    assert_eq!(back, doc, "yaml: {yaml:?}");
}

#[test]
fn lit_string_single_line_break_in_sequence() {
    let v = vec![LitString("\n".to_string()), LitString("x".to_string())];
    let yaml = serde_saphyr::to_string(&v).unwrap();
    let back: Vec<LitString> = serde_saphyr::from_str(&yaml).unwrap();
    assert_eq!(back, v, "yaml: {yaml:?}");
}
