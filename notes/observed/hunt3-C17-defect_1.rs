// C17 defect 1: the origin line (" --> <input>:LINE:COL") of the snippet report shows the column
// inside the *cropped* line, not the reported column, whenever the error line is cropped on the left.
//
// Violated clause: "includes the line the location refers to with the marker under the reported
// column" / "show the right line" - the report names two different positions for one error: the
// title says "line 2 column 126", the origin line says "<input>:2:66". The crate's own tests
// (tests/test_missing_field_reporting.rs, tests/typos.rs) assert that the origin line carries the
// real line:column ("--> <input>:5:9"), and tools / editors use that `file:line:col` form to jump
// to the error.
//
// Minimal input: any line on which the error column is further than `crop_radius` (default 64)
// from the beginning of the line, e.g.  "a: [1, 1, ... (40 times) ... X]".
//
// What the crate does:   error: line 2 column 126: invalid i32
//                         --> <input>:2:66            <- 1 ('…') + 64 + 1, whatever the real column is
// What it should do:      --> <input>:2:126
//
// Cause: src/de/snippet.rs, Snippet::fmt_or_fallback: the window is cropped by crop_window_text()
// and the annotation span is rebased into the cropped text; annotate-snippets then derives the
// origin column from that rebased span. Only `line_start` is corrected, nothing corrects the column
// (with a crop radius larger than the line, i.e. no crop, the origin is right).
//
// Run: cargo test --offline --test defect_1

use std::collections::HashMap;

type M = HashMap<String, Vec<i32>>;

fn origin_of(rendered: &str) -> String {
    rendered
        .lines()
        .find(|l| l.trim_start().starts_with("-->"))
        .unwrap_or("")
        .trim()
        .to_string()
}

#[test]
fn origin_line_is_right_on_a_short_line() {
    let err = serde_saphyr::from_str::<M>("b: [1]\na: [1, X]\n").unwrap_err();
    let loc = err.location().unwrap();
    assert_eq!((loc.line(), loc.column()), (2, 8));
    assert_eq!(origin_of(&err.to_string()), "--> <input>:2:8");
}

#[test]
fn origin_line_keeps_the_reported_column_when_the_line_is_cropped() {
    let pre = "1, ".repeat(40);
    let input = format!("b: [1]\na: [{pre} X, 2]\nc: [1]\n");
    let err = serde_saphyr::from_str::<M>(&input).unwrap_err();
    let loc = err.location().unwrap();
    // the location itself is right: it is the X
    let line = input.lines().nth(loc.line() as usize - 1).unwrap();
    assert_eq!(line.chars().nth(loc.column() as usize - 1), Some('X'));

    let rendered = err.to_string();
    let expected = format!("--> <input>:{}:{}", loc.line(), loc.column());
    assert_eq!(
        origin_of(&rendered),
        expected,
        "origin line does not name the reported position:\n{rendered}"
    );
}

#[test]
fn origin_line_keeps_the_reported_column_reader_and_small_radius() {
    let pre = "1, ".repeat(10);
    let input = format!("a: [{pre} X, 2]\n");
    let opts = serde_saphyr::options! { crop_radius: 5 };
    let err = serde_saphyr::from_reader_with_options::<_, M>(std::io::Cursor::new(input.as_bytes()), opts)
        .unwrap_err();
    let loc = err.location().unwrap();
    let rendered = err.to_string();
    let expected = format!("--> <input>:{}:{}", loc.line(), loc.column());
    assert_eq!(origin_of(&rendered), expected, "{rendered}");
}
