// C04 defect 6: a scalar key that spells out the tag it would resolve to anyway (`!!str a`,
// `!!int 1`, `!!bool true`, `!!null ~`) is not recognised as the same key as the untagged spelling
// (`"a"`, `1`, `true`, `~`) - although for collections the crate does exactly that
// (`!!seq [1]` / `[1]` and `!!map {a: 1}` / `{a: 1}` ARE reported as duplicates)
//
// Violated clause: "When the same key node (same structure, scalar text and tag ...) occurs more
// than once among a mapping's own entries, the Error policy fails with a duplicate-key error
// located at the repeated key, FirstWins gives the result of the document with every later entry
// ... deleted". In YAML every node has a tag; an untagged node gets it by resolution (YAML 1.2.2
// section 3.3.2 / 10.3.2): a quoted scalar `"a"` is tag:yaml.org,2002:str, plain `1` is
// tag:yaml.org,2002:int, `~` is tag:yaml.org,2002:null. `!!str a` and `"a"` are therefore the same
// node: same tag, same text. The crate agrees on the value - it delivers the same Rust key for
// both - and it applies this very rule to sequence and mapping keys.
//
// Minimal inputs (target BTreeMap<K, i32>):
//
//     !!str a: 1          !!int 1: 1        !!null ~: 1        !!bool true: 1
//     "a": 2              1: 2              ~: 2               true: 2
//
// What the crate does: Error -> Ok, the map silently holds the LATER value ({"a": 2}, {1: 2},
// {None: 2}, {true: 2}); FirstWins -> also the later value.
//
// What it should do: Error -> duplicate-key error at line 2 column 1; FirstWins -> the first value.
//
// Cause: src/de.rs `KeyNode::fingerprint` / `KeyFingerprint::Scalar { value, tag }` stores the
// EXPLICIT tag of the event (`SfTag::String` / `Int` / ... vs. `SfTag::None` for an untagged
// scalar) and compares it verbatim, whereas `capture_node` ignores an explicit `!!seq` and the
// `!!map` tag is not even carried by `Ev::MapStart`. An explicit core-schema tag that equals the
// resolved tag of the untagged scalar must not distinguish two keys.
//
// Run: cargo test --offline --test defect_6

use serde_saphyr::options::DuplicateKeyPolicy;
use std::collections::BTreeMap;
use std::fmt::Debug;

fn parse<T: serde::de::DeserializeOwned>(
    yaml: &str,
    policy: DuplicateKeyPolicy,
) -> Result<T, serde_saphyr::Error> {
    let opts = serde_saphyr::options! { duplicate_keys: policy, };
    serde_saphyr::from_str_with_options::<T>(yaml, opts)
}

fn check<K>(yaml: &str, key: K)
where
    K: serde::de::DeserializeOwned + Ord + Debug + Clone,
{
    // Both spellings are the same Rust key for the crate itself.
    let mut lines = yaml.lines();
    let first: BTreeMap<K, i32> = parse(lines.next().unwrap(), DuplicateKeyPolicy::Error).unwrap();
    let second: BTreeMap<K, i32> = parse(lines.next().unwrap(), DuplicateKeyPolicy::Error).unwrap();
    assert_eq!(first.keys().collect::<Vec<_>>(), vec![&key]);
    assert_eq!(second.keys().collect::<Vec<_>>(), vec![&key]);

    match parse::<BTreeMap<K, i32>>(yaml, DuplicateKeyPolicy::Error) {
        Ok(v) => panic!("{yaml:?}: Error policy accepted a repeated key and silently produced {v:?}"),
        Err(e) => {
            assert!(e.to_string().contains("duplicate mapping key"), "{yaml:?}: {e}");
            let loc = e.location().expect("location");
            assert_eq!(loc.line(), 2, "{yaml:?}");
        }
    }
    let got: BTreeMap<K, i32> = parse(yaml, DuplicateKeyPolicy::FirstWins).unwrap();
    assert_eq!(got, BTreeMap::from([(key, 1)]), "{yaml:?}: FirstWins keeps the first entry");
}

#[test]
fn control_collections_with_explicit_default_tag_are_the_same_key() {
    let e = parse::<BTreeMap<Vec<i32>, i32>>("!!seq [1]: 1\n[1]: 2\n", DuplicateKeyPolicy::Error)
        .unwrap_err();
    assert!(e.to_string().contains("duplicate mapping key"), "{e}");
    let e = parse::<BTreeMap<BTreeMap<String, i32>, i32>>(
        "!!map {a: 1}: 1\n{a: 1}: 2\n",
        DuplicateKeyPolicy::Error,
    )
    .unwrap_err();
    assert!(e.to_string().contains("duplicate mapping key"), "{e}");
}

#[test]
fn str_tag_and_quoted_scalar() {
    check::<String>("!!str a: 1\n\"a\": 2\n", "a".to_owned());
}

#[test]
fn str_tag_and_plain_scalar() {
    check::<String>("!!str a: 1\na: 2\n", "a".to_owned());
}

#[test]
fn int_tag_and_plain_int() {
    check::<i32>("!!int 1: 1\n1: 2\n", 1);
}

#[test]
fn bool_tag_and_plain_bool() {
    check::<bool>("!!bool true: 1\ntrue: 2\n", true);
}

#[test]
fn null_tag_and_plain_null() {
    check::<Option<i32>>("!!null ~: 1\n~: 2\n", None);
}
