// C19 defect 2: an ordinary float literal whose text is longer than 1_000_000 bytes - but still
// within the documented limit of 1_000_000 digits - read as f32 with angle_conversions on has a
// different value than with the option off (it is rounded twice: decimal -> f64 -> f32).
//
// Needs the optional feature:  cargo test --offline --features robotics --test defect_2
//
// Violated clause: "Ordinary float literals keep exactly the value they have without the
// extension, and nothing changes unless the option is switched on."
//
// Minimal input: the plain scalar
//     1.000000059604644775390625 000...000 1        (1_000_001 bytes, 1_000_000 digits)
// i.e. a number just above 1 + 2^-24, the midpoint of the f32 neighbours 1.0 and 1.0000001.
//   angle_conversions: false -> f32 1.0000001 (correct: the decimal is above the midpoint)
//   angle_conversions: true  -> f32 1.0       (decimal -> f64 gives exactly 1 + 2^-24, the tie is
//                                              then rounded to even)
// The same literal one byte shorter (1_000_000 bytes) gives 1.0000001 with the option on, and the
// literal is accepted in both modes (it has exactly MAX_NUM_DIGITS digits; the documented
// rejection only starts at more than 1_000_000 digits), so this is neither the documented digit
// limit nor an expression: it is a plain literal that changes value when the option is switched on.
// Any sign, leading / trailing blank or the decimal point pushes a literal of <= 1_000_000 digits
// over the byte threshold.
//
// Expected: the f32 the literal has without the extension (1.0000001).
//
// Cause: src/robotics.rs, parse_yaml12_float_angle_converting - the fast path that parses an
// ordinary literal directly as `T` (the repair of the known f32 double rounding) is guarded by
// `t.len() <= MAX_NUM_DIGITS`, a limit on *bytes* of the trimmed scalar, while the evaluator that
// takes over counts *digits* (`digits_seen > MAX_NUM_DIGITS`); literals between the two limits
// are evaluated in f64 and narrowed with `v as f32` (FromF64::from_f64).

#![cfg(feature = "robotics")]

fn literal(total_len: usize) -> String {
    let head = "1.000000059604644775390625"; // 1 + 2^-24 exactly
    let lit = format!("{head}{}1", "0".repeat(total_len - head.len() - 1));
    assert_eq!(lit.len(), total_len);
    lit
}

fn read_f32(yaml: &str, angle_conversions: bool) -> f32 {
    let options = serde_saphyr::options! { angle_conversions: angle_conversions };
    serde_saphyr::from_str_with_options::<f32>(yaml, options).expect("the literal is accepted")
}

#[test]
fn long_plain_literal_keeps_its_f32_value_when_the_option_is_on() {
    // Control: one byte shorter, both modes agree.
    let shorter = literal(1_000_000);
    assert_eq!(read_f32(&shorter, false), 1.000_000_1_f32);
    assert_eq!(read_f32(&shorter, true), 1.000_000_1_f32);

    // 1_000_001 bytes, 1_000_000 digits.
    let lit = literal(1_000_001);
    let off = read_f32(&lit, false);
    let on = read_f32(&lit, true);
    assert_eq!(off, 1.000_000_1_f32, "value without the extension");
    assert_eq!(
        on.to_bits(),
        off.to_bits(),
        "angle_conversions on: {on:?}, off: {off:?}"
    );
}
