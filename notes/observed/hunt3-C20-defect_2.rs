// C20 defect 2: a string that is emitted as a block scalar ('|' / '>') loses its anchor; the
// anchor is attached to the NEXT node of the document instead.
//
// Violated clause: "The presentation wrappers (... literal and folded string ...) and all
// serializer options affect only the layout of the emitted document: it deserializes to the
// same data as without them" (values arriving through aliases).
//
// Minimal input:
//     struct Doc { a: RcAnchor<LitString>, b: i32, c: RcAnchor<LitString> }   // a, c share one Rc
//     Doc { a: "hello", b: 5, c: <same Rc> }
//
// What the crate does: it writes
//     a: |-
//       hello
//     b: &a1 5          <- the anchor of `a` ends up on the unrelated scalar 5
//     c: *a1
// so `c` reads back as 5 (silently different data; a typed reader fails with a type error).
// When no other node follows, the alias is dangling: [RcAnchor("l1\nl2\n"), same] gives
//     - |
//       l1
//       l2
//     - *a1             -> "alias references unknown anchor"
// This needs no wrapper at all: with the default `prefer_block_scalars: true` every shared
// multi-line (or longer than `folded_wrap_chars`) String is hit, while
// `prefer_block_scalars: false` writes `- &a1 "l1\nl2\n"` / `- *a1` and round-trips.  So both
// the LitStr / FoldStr wrappers and the `prefer_block_scalars` / `folded_wrap_chars` options
// change the data here.
//
// What it should do: write the anchor in front of the block scalar header
// (`a: &a1 |-`), as it does for every other scalar style.
//
// Cause: src/ser.rs, `serialize_str`: the block-scalar branch (`if let Some(style) =
// self.pending_str_style.take()`) writes the header and body and returns without ever calling
// `write_scalar_prefix_if_anchor()`; only the quoted fall-back inside that branch and the
// plain path below do.  `pending_anchor_id` therefore stays set and is consumed by the next
// scalar / collection that is serialized.
//
// Run: cargo test --offline --test defect_2

use serde::{Deserialize, Serialize};
use serde_saphyr::{LitString, RcAnchor};
use std::rc::Rc;

#[derive(Serialize)]
struct Doc {
    a: RcAnchor<LitString>,
    b: i32,
    c: RcAnchor<LitString>,
}

#[derive(Deserialize, Debug, PartialEq)]
struct Plain {
    a: String,
    b: i32,
    c: String,
}

#[test]
fn anchor_of_a_literal_string_stays_on_the_string() {
    let shared = Rc::new(LitString("hello".to_string()));
    let doc = Doc {
        a: RcAnchor(shared.clone()),
        b: 5,
        c: RcAnchor(shared),
    };
    let yaml = serde_saphyr::to_string(&doc).unwrap();
    let tree: serde_json::Value = serde_saphyr::from_str(&yaml)
        .unwrap_or_else(|e| panic!("cannot read back:\n{yaml}\n{e}"));
    assert_eq!(
        tree,
        serde_json::json!({"a": "hello", "b": 5, "c": "hello"}),
        "the LitString wrapper changed the data:\n{yaml}"
    );
    let back: Plain = serde_saphyr::from_str(&yaml)
        .unwrap_or_else(|e| panic!("cannot read back:\n{yaml}\n{e}"));
    assert_eq!(
        back,
        Plain { a: "hello".into(), b: 5, c: "hello".into() }
    );
}

#[test]
fn prefer_block_scalars_does_not_break_shared_multiline_strings() {
    let shared = Rc::new("line1\nline2\n".to_string());
    let value = vec![RcAnchor(shared.clone()), RcAnchor(shared)];
    let expected = vec!["line1\nline2\n".to_string(); 2];

    // Reference: the same value with the option switched off round-trips.
    let quoted = serde_saphyr::to_string_with_options(
        &value,
        serde_saphyr::ser_options! { prefer_block_scalars: false },
    )
    .unwrap();
    assert_eq!(serde_saphyr::from_str::<Vec<String>>(&quoted).unwrap(), expected);

    // Default options (prefer_block_scalars: true).
    let yaml = serde_saphyr::to_string(&value).unwrap();
    let back: Vec<String> = serde_saphyr::from_str(&yaml)
        .unwrap_or_else(|e| panic!("prefer_block_scalars: true broke the document:\n{yaml}\n{e}"));
    assert_eq!(back, expected);
}
