// DEFECT 2 (property C13): a sequence (Vec / tuple / tuple struct / tuple variant) used as a
// composite mapping key: the items after the first one are not aligned with the first item when
// compact_list_indent is on, or when indent_step is not 2.
//
// Violated clause: "... maps with string, non-string and composite keys ... and every valid
// serializer option set [indent step, compact list indent, ...], the emitted text is a single
// well-formed YAML document that deserializes back into an equal value of the same type."
//
// Minimal input:  BTreeMap<Vec<i32>, i32>  { [1, 7]: 7 }
//
//  (a) compact_list_indent: true   emits          (b) indent_step: 4   emits
//        ? - 1                                          ? - 1
//        - 7      <- column 0                               - 7     <- column 4, first dash is at 2
//        : 7                                            : 7
//
// Neither parses back ("invalid i64" / "did not find expected key").  The default options give
// the correct "? - 1\n  - 7\n: 7\n".  Expected: all dashes of the key sequence in the column of
// the first dash (two columns after the '?').
//
// Cause: src/ser.rs.  MapSer::serialize_key (non-scalar key branch) writes "? " and lets the key
// start inline, so the first dash is always 2 columns after the '?'.
//  (a) serialize_seq: the key is mid-line and `current_map_depth` is Some, so it is taken for a
//      mapping VALUE and `compact_list_indent` sets `depth_next = base` (no extra level).
//  (b) SeqSer::serialize_element indents the following dashes by `indent_step * depth`, which
//      coincides with "? " + dash only for indent_step == 2 (the analogous "- - x" case is
//      special-cased in serialize_seq via `inline_first = after_dash && indent_step == 2`, the
//      "? - x" case is not).

use std::collections::BTreeMap;

fn roundtrip(opts: serde_saphyr::SerializerOptions) {
    let mut m: BTreeMap<Vec<i32>, i32> = BTreeMap::new();
    m.insert(vec![1, 7], 7);
    let yaml = serde_saphyr::to_string_with_options(&m, opts).unwrap();
    let back: BTreeMap<Vec<i32>, i32> = serde_saphyr::from_str(&yaml)
        .unwrap_or_else(|e| panic!("emitted text does not parse back: {e}\n{yaml}"));
    assert_eq!(back, m, "emitted:\n{yaml}");
}

#[test]
fn default_options_are_fine() {
    roundtrip(serde_saphyr::SerializerOptions::default());
}

#[test]
fn sequence_key_with_compact_list_indent() {
    roundtrip(serde_saphyr::ser_options! { compact_list_indent: true });
}

#[test]
fn sequence_key_with_indent_step_4() {
    roundtrip(serde_saphyr::ser_options! { indent_step: 4 });
}

#[test]
fn sequence_key_with_indent_step_3() {
    roundtrip(serde_saphyr::ser_options! { indent_step: 3 });
}
