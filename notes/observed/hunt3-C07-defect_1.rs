// C07 defect 1: under per-document enforcement the trailing StreamEnd event is charged to the
// LAST document of the stream (and DocumentEnd to every document, while DocumentStart/StreamStart
// are not), so the verdict on a document depends on whether another document follows it.
//
// Violated clauses:
//   "never rejects an input all of whose quantities are within the limits"
//   "Under per-document enforcement (the streaming iterator) quantities are counted per document,
//    so the number of documents already read never affects whether a document is accepted."
//
// Minimal input: the stream "a\n---\na\n" (two identical documents) read with
// `read_with_options` and `max_events: 2`.
//
// What the crate does: the first document `a` is accepted (it costs 2 events: Scalar +
// DocumentEnd; the counter is reset at the next DocumentStart). The second, identical document
// is yielded too, but then the parser's StreamEnd event is observed with the counters of the
// second document still live: events = 3 > 2 and the iterator yields an extra
// `Err(Budget { breach: Events { events: 3 } })`. The same happens for a one-document stream:
// "a\n" needs max_events = 3 while the very same document needs only 2 when another one follows.
// `check_yaml_budget(.., EnforcingPolicy::PerDocument)` shows the same asymmetry.
//
// What it should do: identical documents must get identical verdicts; a stream all of whose
// documents are within `max_events` must not produce a budget error.
//
// Cause: src/budget.rs `BudgetEnforcer::observe`: for `EnforcingPolicy::PerDocument` only
// `Event::DocumentStart` resets (and is not counted); `Event::StreamEnd` (and `StreamStart`)
// fall through to `self.report.events += 1` and the `max_events` comparison, so StreamEnd is
// added to the last document's count. src/live_events.rs `next_impl` hands every raw event,
// stream markers included, to `budget.observe`.

use serde_saphyr::budget::{Budget, EnforcingPolicy, check_yaml_budget};
use serde_saphyr::Options;

fn budget(max_events: usize) -> Budget {
    Budget {
        max_events,
        enforce_alias_anchor_ratio: false,
        ..Budget::default()
    }
}

fn read_all(yaml: &str, max_events: usize) -> Vec<Result<String, String>> {
    let mut options = Options::default();
    options.budget = Some(budget(max_events));
    let mut reader = std::io::Cursor::new(yaml.as_bytes().to_vec());
    serde_saphyr::read_with_options::<_, String>(&mut reader, options)
        .map(|r| r.map_err(|e| format!("{e:?}")))
        .take(10)
        .collect()
}

#[test]
fn identical_documents_get_identical_verdicts() {
    // Two identical documents; the first one is accepted with max_events = 2 ...
    let items = read_all("a\n---\na\n", 2);
    assert_eq!(items[0], Ok("a".to_string()), "first document must fit: {items:?}");
    // ... so the second one fits as well and nothing else may be reported.
    assert_eq!(
        items,
        vec![Ok("a".to_string()), Ok("a".to_string())],
        "a stream of two identical documents, the first of which is within max_events, \
         must not end in a budget error"
    );
}

#[test]
fn verdict_does_not_depend_on_a_following_document() {
    // `a` followed by another document is accepted with max_events = 2 ...
    let followed = read_all("a\n---\nb\n", 2);
    assert_eq!(followed[0], Ok("a".to_string()));
    // ... hence `a` alone must be accepted with the same budget.
    let alone = read_all("a\n", 2);
    assert_eq!(alone, vec![Ok("a".to_string())], "same document, same budget, but last in the stream");
}

#[test]
fn check_yaml_budget_per_document_charges_stream_end_to_the_last_document() {
    // The public pre-scan with the per-document policy: the only document of the stream costs
    // Scalar + DocumentEnd = 2 events (that is what it costs when another document follows),
    // but the StreamEnd marker is added to it.
    let one = check_yaml_budget("a\n", budget(2), EnforcingPolicy::PerDocument).unwrap();
    assert!(one.breached.is_none(), "{one:?}");
}
