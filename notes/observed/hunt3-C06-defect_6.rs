// DEFECT 6 (C06): core-schema tags written in the YAML *verbatim* form
// `!<tag:yaml.org,2002:...>` are not recognised; the scalar is treated as if it carried an
// unknown application tag, so `!!binary`, `!!null`, `!!str`, `!!int` ... semantics are lost.
//
// Property clauses violated:
//   "A scalar is interpreted from its text, style, tag, ..." / "`!!binary` payloads (strict
//   canonical base64) follow the documented tables" / mechanism "tag table and
//   string-compatibility of tags (src/tags.rs SfTag)".  The tag table itself lists the resolved
//   URIs ("tag:yaml.org,2002:binary" -> SfTag::Binary, ...), i.e. the full tag is meant to be
//   recognised, and it is when it arrives through a %TAG handle
//   (`%TAG !y! tag:yaml.org,2002:` + `!y!binary aGVsbG8=` -> "hello").
//
// Minimal inputs:
//   `!<tag:yaml.org,2002:binary> aGVsbG8=`
//        as String                -> "aGVsbG8="   should be "hello" (like `!!binary aGVsbG8=`)
//        as serde_bytes::ByteBuf  -> Err("bytes not supported (missing !!binary tag)")
//   `!<tag:yaml.org,2002:null> 5` as Option<i32> -> Some(5)   (`!!null 5` -> None)
//   `!<tag:yaml.org,2002:str> 5`  as serde_json::Value -> Number(5)  (`!!str 5` -> String("5"))
//   `!<tag:yaml.org,2002:int> 5`  as String -> Ok("5")   (`!!int 5` -> Err(cannot deserialize
//                                              tagged scalar into string))
//
// Cause: src/tags.rs `SfTag::from_optional_cow` looks up `Tag::to_string()`.  For a verbatim
// tag saphyr-parser reports `Tag { handle: "", suffix: "tag:yaml.org,2002:binary" }`, whose
// Display is "!tag:yaml.org,2002:binary" (a leading '!' is prepended for the empty handle);
// that spelling is not in TAG_LOOKUP_MAP, so the result is SfTag::Other.
//
// Run: cargo test --offline --test defect_6

use serde_json::Value;

#[test]
fn handle_forms_work() {
    // control: shorthand and %TAG-resolved forms are recognised
    assert_eq!(serde_saphyr::from_str::<String>("!!binary aGVsbG8=").unwrap(), "hello");
    assert_eq!(
        serde_saphyr::from_str::<String>("%TAG !y! tag:yaml.org,2002:\n--- !y!binary aGVsbG8=")
            .unwrap(),
        "hello"
    );
}

#[test]
fn verbatim_binary_tag_is_binary() {
    let s: String = serde_saphyr::from_str("!<tag:yaml.org,2002:binary> aGVsbG8=").unwrap();
    assert_eq!(s, "hello");
}

#[test]
fn verbatim_binary_tag_is_binary_for_bytes() {
    let b: serde_bytes::ByteBuf =
        serde_saphyr::from_str("!<tag:yaml.org,2002:binary> aGVsbG8=").unwrap();
    assert_eq!(b.as_ref(), b"hello");
}

#[test]
fn verbatim_null_and_str_tags() {
    assert_eq!(serde_saphyr::from_str::<Option<i32>>("!!null 5").unwrap(), None);
    assert_eq!(
        serde_saphyr::from_str::<Option<i32>>("!<tag:yaml.org,2002:null> 5").unwrap(),
        None
    );
    assert_eq!(
        serde_saphyr::from_str::<Value>("!<tag:yaml.org,2002:str> 5").unwrap(),
        Value::String("5".into())
    );
}

#[test]
fn verbatim_int_tag_is_not_string_compatible() {
    assert!(serde_saphyr::from_str::<String>("!!int 5").is_err());
    assert!(serde_saphyr::from_str::<String>("!<tag:yaml.org,2002:int> 5").is_err());
}
