// C20 defect 4: `yaml_12: true` writes the strings y / n / yes / no / on / off (any case) as plain
// scalars, and the crate's own reader resolves them to booleans when the target is untyped -
// the `%YAML 1.2` directive the option emits does not change that.
//
// Violated clause: "all serializer options affect only the layout of the emitted document: it
// deserializes to the same data as without them ... data compared through an untyped tree".
//
// Minimal input: vec!["y", "yes", "on", "off", "n", "NO"] with ser_options! { yaml_12: true }.
//
// The crate writes
//     %YAML 1.2
//     ---
//     - y
//     - yes
//     - on
//     - off
//     - n
//     - NO
// and `from_str::<serde_json::Value>` (default Options) returns
// [true, true, true, false, false, false]. Without the option the strings are written quoted
// ("y", "yes", ...) and the same reader returns the six strings.
//
// Expected: either the writer keeps quoting what the crate's default reader takes for a boolean,
// or the reader honours the `%YAML 1.2` directive (core schema: only true / false are booleans).
// The rustdoc of `yaml_12` says the spellings "will not be treated as booleans for the purpose of
// auto-quoting"; it does not say that the document then reads back as different data with this
// crate's default options.
//
// Cause: src/ser.rs `write_plain_or_quoted_value` -> src/ser_quoting.rs `is_plain_value_safe(s, yaml_12, ..)`
// skips the YAML 1.1 boolean check when `yaml_12` is set; the untyped scalar resolution of the
// deserializer (deserialize_any, strict_booleans off by default) does not look at the directive.
//
// Run: cargo test --offline --test defect_4

use serde_saphyr::ser_options;

#[test]
fn yaml_12_turns_strings_into_booleans() {
    let v = vec!["y", "yes", "on", "off", "n", "NO"];
    let expected = serde_json::json!(["y", "yes", "on", "off", "n", "NO"]);

    let reference = serde_saphyr::to_string(&v).unwrap();
    let r: serde_json::Value = serde_saphyr::from_str(&reference).unwrap();
    assert_eq!(r, expected);

    let yaml = serde_saphyr::to_string_with_options(&v, ser_options! { yaml_12: true }).unwrap();
    let got: serde_json::Value = serde_saphyr::from_str(&yaml).unwrap();
    assert_eq!(got, expected, "yaml_12 changed the data:\n{yaml}");
}
