// C02 defect 1: an anchored (or aliased) EMPTY node is not the same mapping key as the
// un-anchored empty node - duplicate-key detection changes when an anchor mark is attached.
//
// Violated clauses:
//   "Attaching an anchor to a node never changes that node's own value"
//   "Deserializing a document that uses anchors and aliases yields exactly the value obtained from
//    the document in which every alias is replaced by a copy of the node ... and every anchor mark
//    is removed"
//
// Minimal inputs (target BTreeMap<Option<String>, i32>, default Options = DuplicateKeyPolicy::Error):
//   (a) "? &a\n: 1\n? \n: 2\n"      two null keys. Without the `&a` the crate reports
//                                    "duplicate mapping key: ~"; with `&a` it silently returns
//                                    {None: 2} (the first entry is overwritten).
//   (b) "\"\": 1\n? &a\n: 2\n"      key "" (a string) and a null key. Without `&a` the crate returns
//                                    {None: 2, Some(""): 1}; with `&a` it fails with
//                                    "duplicate mapping key: " (a false duplicate).
//   (c) the same two effects when the empty node arrives through an alias (`*n` as a key, `n: &n`).
//
// Should: give the same result as the document without the anchor marks / with aliases expanded.
//
// Cause: saphyr-parser emits an un-anchored empty node as Scalar("~", Plain) (Event::empty_scalar)
// but an anchored empty node as Scalar("", Plain) (Event::empty_scalar_with_anchor). src/de.rs
// builds the duplicate-key fingerprint from the raw text and tag only (KeyNode::fingerprint /
// capture_node -> KeyFingerprint::Scalar { value, tag }), ignoring both the scalar style and
// null-ness. So the anchored null key has fingerprint "" - different from the plain null key "~"
// and equal to the quoted empty string key "". The same fingerprints drive the `seen` set in
// deserialize_map (MA::next_key_seed) for DuplicateKeyPolicy::Error / FirstWins and the
// "skip keys already present" rule of merge (`<<`) expansion.
//
// Run: cargo test --offline --test defect_1      (no optional features needed)

use serde::Deserialize;
use std::collections::BTreeMap;

type M = BTreeMap<Option<String>, i32>;

fn outcome<T: for<'de> Deserialize<'de> + std::fmt::Debug>(yaml: &str) -> Result<String, ()> {
    serde_saphyr::from_str::<T>(yaml)
        .map(|v| format!("{v:?}"))
        .map_err(|_| ())
}

#[test]
fn anchor_on_null_key_hides_a_duplicate() {
    let plain = "? \n: 1\n? \n: 2\n";
    let anchored = "? &a\n: 1\n? \n: 2\n";
    assert_eq!(
        outcome::<M>(anchored),
        outcome::<M>(plain),
        "attaching `&a` to the first (null) key changed the result of the document"
    );
}

#[test]
fn anchor_on_null_key_collides_with_empty_string_key() {
    let plain = "\"\": 1\n? \n: 2\n";
    let anchored = "\"\": 1\n? &a\n: 2\n";
    // sanity: "" and null are different keys of the target type
    assert_eq!(
        outcome::<M>(plain),
        Ok(format!("{:?}", M::from([(None, 2), (Some(String::new()), 1)])))
    );
    assert_eq!(
        outcome::<M>(anchored),
        outcome::<M>(plain),
        "attaching `&a` to the null key made it a duplicate of the key \"\""
    );
}

#[derive(Debug, Deserialize)]
#[allow(dead_code)]
struct Doc {
    n: Option<String>,
    m: M,
}

#[test]
fn alias_to_empty_node_as_key_differs_from_its_expansion() {
    // `*n` is a copy of the empty node anchored by `n: &n`
    let aliased = "n: &n\nm:\n  \"\": 1\n  *n : 2\n";
    let expanded = "n:\nm:\n  \"\": 1\n  ? \n  : 2\n";
    assert_eq!(outcome::<Doc>(aliased), outcome::<Doc>(expanded));

    let aliased = "n: &n\nm:\n  ? \n  : 1\n  *n : 2\n";
    let expanded = "n:\nm:\n  ? \n  : 1\n  ? \n  : 2\n";
    assert_eq!(outcome::<Doc>(aliased), outcome::<Doc>(expanded));
}
