// DEFECT 2 - nested tag-selected enum variants (`!Variant [ ... ]`) are buffered once per nesting
// level: memory = nesting depth x nodes, a 51 KB document allocates about 260 MB and a
// document well inside the DEFAULT budget (depth <= 2000, nodes <= 250 000, ~2.5 MB of text)
// needs tens of gigabytes, i.e. the process is killed / aborts on allocation failure.
//
//     cargo test --offline --test defect_2            (no optional feature needed; Linux: reads
//                                                      VmHWM / VmRSS from /proc/self/status)
//
// Violated clause (property C01): "returns either a value or an error value: it never panics,
// never aborts the process ... and always terminates", with "nesting-depth limit of the default
// budget bounds the recursion" named as the mechanism: the default budget is in force here
// and does not bound this cost.
//
// This is NOT the known "nested anchored containers cost depth x nodes memory (recording)" nor
// the path recorder of the validation entry points: there is no anchor, no alias, no merge key
// and no validation in the document below. It is a third, independent buffer.
//
// Minimal input (shape): a recursive externally tagged enum written with tags,
//
//     !Node
//     - !Node
//       - !Node
//         ...                      (D levels)
//           - !Leaf [1,1,1, ... ]   (N scalars in the innermost node)
//
// read as `enum Tree { Node(Vec<Tree>), Leaf(Vec<u8>) }`.
//
// What the crate does: `deserialize_enum` (src/de.rs, branch `Some(Ev::SeqStart { .. })` with a
// tag that names a variant) drains the complete sequence node into `replay_events: Vec<Ev>` and
// deserializes the payload from a `ReplayEvents` over that vector. The payload contains the next
// `!Node [...]`, whose `deserialize_enum` drains *its* complete node out of the parent's
// `ReplayEvents` into a new vector - `ReplayEvents::next` moves each event out and leaves an
// `Ev::Taken` placeholder of the same size (about 88 bytes) behind, and the parent's vector stays
// allocated until the parent returns. With D nested variants around N nodes all D vectors of
// about N slots are alive at the same time: D x N x 88 bytes. Measured (release build):
//     depth  50, 20 000 leaves,  41 KB of YAML ->  91 MB
//     depth 100, 20 000 leaves,  46 KB of YAML -> 176 MB
//     depth 200, 20 000 leaves,  61 KB of YAML -> 347 MB
//     depth 400, 20 000 leaves, 123 KB of YAML -> 694 MB
//     depth 100, 40 000 leaves,  86 KB of YAML -> 351 MB
// i.e. exactly linear in both factors; at the limits of `Budget::default()` (max_depth 2000,
// max_nodes 250 000, max_events 1 000 000) that is 2000 x 240 000 x 88 B = about 40 GB for a
// document of 2.5 MB, although every budget counter stays below its limit.
//
// What it should do: stay within memory proportional to the input (the same document in the
// `{Node: [...]}` notation, or read as an untyped value, is streamed), or refuse the document
// through the budget.
//
// Where: src/de.rs `YamlDeserializer::deserialize_enum`, the `Some(Ev::SeqStart { tag, raw_tag, .. })`
// arm (`replay_events` / `TaggedEA`), together with `ReplayEvents::next` (placeholder left behind).

use serde::Deserialize;

#[derive(Debug, Deserialize)]
#[allow(dead_code)]
enum Tree {
    Node(Vec<Tree>),
    Leaf(Vec<u8>),
}

fn status_kb(field: &str) -> usize {
    let status = std::fs::read_to_string("/proc/self/status").expect("/proc/self/status");
    status
        .lines()
        .find(|l| l.starts_with(field))
        .and_then(|l| l.split_whitespace().nth(1))
        .and_then(|v| v.parse().ok())
        .expect("field in /proc/self/status")
}

/// `depth` nested `!Node` sequences (block style), `leaves` scalars in the innermost `!Leaf`.
fn document(depth: usize, leaves: usize) -> String {
    let mut s = String::from("!Node\n");
    for i in 0..depth {
        for _ in 0..i {
            s.push(' ');
        }
        s.push_str("- ");
        if i + 1 < depth {
            s.push_str("!Node\n");
        }
    }
    s.push_str("!Leaf [");
    for i in 0..leaves {
        if i > 0 {
            s.push(',');
        }
        s.push('1');
    }
    s.push_str("]\n");
    s
}

#[test]
fn nested_tagged_variants_need_memory_proportional_to_the_input() {
    // 150 levels, 20 000 leaves: about 51 KB of YAML, every counter far below the default budget
    // (depth 151 of 2000, 20 152 nodes of 250 000).
    let yaml = document(150, 20_000);
    assert!(yaml.len() < 64 * 1024);

    // (a roomy stack: this test is about the heap, not about the known stack cost per level)
    let handle = std::thread::Builder::new()
        .stack_size(256 << 20)
        .spawn(move || {
            // control: the same text as an untyped value - streamed, a few megabytes at most
            let before_control = status_kb("VmHWM:");
            let untyped: serde::de::IgnoredAny = serde_saphyr::from_str(&yaml).expect("valid YAML");
            let _ = untyped;
            let control_kb = status_kb("VmHWM:").saturating_sub(before_control);

            let rss_before = status_kb("VmRSS:");
            let hwm_before = status_kb("VmHWM:");
            let tree: Tree = serde_saphyr::from_str(&yaml).expect("valid document for Tree");
            let hwm_after = status_kb("VmHWM:");
            drop(tree);
            // growth of the peak resident set caused by this one call
            let grown_kb = hwm_after.saturating_sub(hwm_before.max(rss_before));
            (yaml.len(), control_kb, grown_kb)
        })
        .unwrap();
    let (input_len, control_kb, grown_kb) = handle.join().unwrap();
    eprintln!(
        "input {} KB; untyped read raised the peak RSS by {} KB; typed read (nested !Node) by {} KB",
        input_len / 1024,
        control_kb,
        grown_kb
    );
    // 100 x the size of the input is a very generous bound for "proportional to the input"
    // (the result value itself is 20 000 bytes + 150 small vectors).
    assert!(
        grown_kb * 1024 < 100 * input_len,
        "reading a {} KB document allocated {} MB (depth x nodes buffering of `!Variant [..]` payloads)",
        input_len / 1024,
        grown_kb / 1024
    );
}
