// C18 defect 1: the second validation issue on a long line is rendered without its snippet
//
// Run with: cargo test --offline --features garde,validator --test defect_1
//
// Violated clause: "whenever it fails they return a validation error in which every reported
// field path is mapped to the position where that field's value is used in the YAML" together
// with the mechanism "rendering picks the snippet region covering each issue"
// (src/de_error.rs fmt_validation_error_with_snippets_offset / fmt_validator_error_with_snippets_offset).
//
// Minimal input: a document written on ONE line that is longer than 4 KiB (minified JSON is
// the everyday case) with two invalid values on that line, more than `crop_radius` (64)
// columns apart:
//
//   {"main":{"firstName":"ok"},"items":[{"firstName":"a"},{"firstName":"xxxx...5000 x"},{"firstName":"b"}]}
//
// What the crate does: issue 1 (`items[0].firstName`, column 50) is rendered with a snippet,
// issue 2 (`items[2].firstName`, column 5085) is rendered as plain text
//   "validation error: length is lower than 2 for `items[2].firstName` at line 1, column 5085"
// without any snippet - although the same issue gets its snippet when it is the only one.
//
// What it should do: render a snippet for every issue (a region for issue 2 was cropped and is
// stored in Error::WithSnippet::regions, it is just not the one that is picked).
//
// Cause: Error::with_snippet (src/de_error.rs) pre-crops one region per issue with
// crop_source_window (src/de/snippet.rs). When a line of the window is longer than 4 KiB that
// function crops the region *horizontally* around the issue's column (error line: cut on the
// right of column + crop_radius; context lines: cut on both sides). pick_cropped_region
// (src/de_error.rs) then selects a region by LINE only (`CroppedRegion::covers`), so every later
// issue on the same line (or on a context line of that window) gets the first issue's region,
// in which its own column no longer exists; Snippet::fmt_or_fallback cannot map the column and
// falls back to the plain "... at line L, column C" text.
#![cfg(all(feature = "garde", feature = "validator"))]

mod g {
    use garde::Validate;
    use serde::Deserialize;

    #[derive(Debug, Deserialize, Validate)]
    #[serde(rename_all = "camelCase")]
    pub struct Inner {
        #[garde(length(min = 2))]
        pub first_name: String,
    }

    #[derive(Debug, Deserialize, Validate)]
    pub struct Root {
        #[garde(dive)]
        pub main: Inner,
        #[garde(dive)]
        pub items: Vec<Inner>,
    }
}

mod v {
    use serde::Deserialize;
    use validator::Validate;

    #[derive(Debug, Deserialize, Validate)]
    #[serde(rename_all = "camelCase")]
    pub struct Inner {
        #[validate(length(min = 2))]
        pub first_name: String,
    }

    #[derive(Debug, Deserialize, Validate)]
    pub struct Root {
        #[validate(nested)]
        pub main: Inner,
        #[validate(nested)]
        pub items: Vec<Inner>,
    }
}

fn doc(first: &str, last: &str) -> String {
    let long = "x".repeat(5000);
    format!(
        "{{\"main\":{{\"firstName\":\"ok\"}},\"items\":[{{\"firstName\":\"{first}\"}},{{\"firstName\":\"{long}\"}},{{\"firstName\":\"{last}\"}}]}}\n"
    )
}

fn snippets(rendered: &str) -> usize {
    // every rendered snippet has exactly one " --> " header line
    rendered.matches(" --> ").count()
}

#[test]
fn garde_every_issue_on_a_long_line_gets_its_snippet() {
    // control: the far-right issue alone is rendered with a snippet
    let alone = serde_saphyr::from_str_valid::<g::Root>(&doc("ok", "b"))
        .expect_err("validation must fail")
        .to_string();
    assert_eq!(snippets(&alone), 1, "control failed: {alone}");
    assert!(alone.contains("items[2].firstName"), "{alone}");

    let both = serde_saphyr::from_str_valid::<g::Root>(&doc("a", "b"))
        .expect_err("validation must fail")
        .to_string();
    assert!(both.contains("items[0].firstName"), "{both}");
    assert!(both.contains("items[2].firstName"), "{both}");
    assert_eq!(
        snippets(&both),
        2,
        "two issues were reported, each must be rendered with its snippet:\n{both}"
    );
}

#[test]
fn validator_every_issue_on_a_long_line_gets_its_snippet() {
    let alone = serde_saphyr::from_str_validate::<v::Root>(&doc("ok", "b"))
        .expect_err("validation must fail")
        .to_string();
    assert_eq!(snippets(&alone), 1, "control failed: {alone}");

    let both = serde_saphyr::from_str_validate::<v::Root>(&doc("a", "b"))
        .expect_err("validation must fail")
        .to_string();
    assert_eq!(
        snippets(&both),
        2,
        "two issues were reported, each must be rendered with its snippet:\n{both}"
    );
}

// The same happens for an issue on a neighbouring line of a long line: the context lines of the
// first issue's region are cropped on both sides.
#[test]
fn garde_issue_on_the_line_after_a_long_line_gets_its_snippet() {
    let long = "x".repeat(5000);
    let yaml = format!(
        "items: [{{firstName: \"{long}\"}}, {{firstName: a}}]\nmain: {{firstName: \"{long}\", extra: [1, 2, 3], firstName2: b}}\n"
    );
    // line 1: long, invalid value far right; line 2: long, invalid value far right as well
    #[derive(Debug, serde::Deserialize, garde::Validate)]
    struct Main {
        #[garde(skip)]
        #[serde(rename = "firstName")]
        _first_name: String,
        #[garde(skip)]
        #[serde(rename = "extra")]
        _extra: Vec<i32>,
        #[garde(length(min = 2))]
        #[serde(rename = "firstName2")]
        first_name2: String,
    }
    #[derive(Debug, serde::Deserialize, garde::Validate)]
    struct Root2 {
        #[garde(dive)]
        items: Vec<g::Inner>,
        #[garde(dive)]
        main: Main,
    }
    let rendered = serde_saphyr::from_str_valid::<Root2>(&yaml)
        .expect_err("validation must fail")
        .to_string();
    assert!(rendered.contains("items[1].firstName"), "{rendered}");
    assert!(rendered.contains("main.firstName2"), "{rendered}");
    assert_eq!(
        snippets(&rendered),
        2,
        "two issues were reported, each must be rendered with its snippet:\n{rendered}"
    );
}
