// Defect 2 (property C13): a shared value (RcAnchor / ArcAnchor / weak anchors) whose payload is
// a string that is written as a BLOCK scalar ('|' / '>') loses its anchor: the `&a1` is not
// written before the block scalar header, stays pending and is attached to whatever scalar /
// collection is written next, while the later `*a1` aliases refer to an anchor that is undefined
// (or defined on the wrong node).
//
// Violated clause: "... the emitted text is a single well-formed YAML document that
//   deserializes back into an equal value of the same type" - quantified over "block-scalar
//   preference ... and custom anchor names", i.e. anchored values under prefer_block_scalars.
//
// Minimal input (default options: prefer_block_scalars = true):
//   let s = Rc::new("line1\nline2".to_string());
//   to_string(&vec![RcAnchor(s.clone()), RcAnchor(s)])
// The crate emits
//   - |-
//     line1
//     line2
//   - *a1
// -> "alias references unknown anchor".  Expected "- &a1 |-\n  line1\n  line2\n- *a1\n".
// Second effect: in `(RcAnchor(s.clone()), RcAnchor(s)), y: 1` the pending anchor leaks to the
// next scalar: "x:\n  - |-\n    line1\n    line2\n  - *a1\n\"y\": &a1 1\n".
// The same happens with a long single-line string (auto-folded '>') and with LitStr / FoldStr.
//
// Cause: src/ser.rs serialize_str - the block-scalar branch (`if let Some(style) =
//   self.pending_str_style.take()`) writes the header without calling
//   write_scalar_prefix_if_anchor(); only the quoted fallback and the plain path do.
use serde::{Deserialize, Serialize};
use serde_saphyr::RcAnchor;
use std::rc::Rc;

#[derive(Serialize)]
struct Doc {
    x: (RcAnchor<String>, RcAnchor<String>),
    y: i32,
}
#[derive(Deserialize, PartialEq, Debug)]
struct DocPlain {
    x: (String, String),
    y: i32,
}

#[test]
fn anchored_multiline_string_in_sequence() {
    let s = Rc::new("line1\nline2".to_string());
    let v = vec![RcAnchor(s.clone()), RcAnchor(s.clone())];
    let yaml = serde_saphyr::to_string(&v).unwrap();
    let back: Vec<String> = serde_saphyr::from_str(&yaml)
        .unwrap_or_else(|e| panic!("does not read back: {e}\nemitted text:\n{yaml}"));
    assert_eq!(back, vec![(*s).clone(), (*s).clone()], "emitted text:\n{yaml}");
}

#[test]
fn anchored_long_string_is_folded_without_anchor() {
    let s = Rc::new("word ".repeat(30).trim_end().to_string());
    let v = vec![RcAnchor(s.clone()), RcAnchor(s.clone())];
    let yaml = serde_saphyr::to_string(&v).unwrap();
    let back: Vec<String> = serde_saphyr::from_str(&yaml)
        .unwrap_or_else(|e| panic!("does not read back: {e}\nemitted text:\n{yaml}"));
    assert_eq!(back, vec![(*s).clone(), (*s).clone()], "emitted text:\n{yaml}");
}

#[test]
fn pending_anchor_leaks_to_the_next_node() {
    let s = Rc::new("line1\nline2".to_string());
    let d = Doc { x: (RcAnchor(s.clone()), RcAnchor(s.clone())), y: 1 };
    let yaml = serde_saphyr::to_string(&d).unwrap();
    assert!(
        !yaml.contains("&a1 1"),
        "anchor of the string was attached to the unrelated scalar `y`:\n{yaml}"
    );
    let back: DocPlain = serde_saphyr::from_str(&yaml)
        .unwrap_or_else(|e| panic!("does not read back: {e}\nemitted text:\n{yaml}"));
    assert_eq!(back, DocPlain { x: ((*s).clone(), (*s).clone()), y: 1 });
}
