// C18 defect 4: an issue below a map key loses its position when a sibling key differs only
// in case / separators - although the key of the failed entry matches EXACTLY
//
// Run with: cargo test --offline --features garde --test defect_4
//
// Violated clause: "every reported field path is mapped to the position where that field's
// value is used in the YAML" and the mechanism "lookup with case / naming-convention tolerant
// fallback that must stay unambiguous" (src/path_map.rs PathMap::search, find_unique_by,
// segments_equal_*).
//
// Minimal input:
//
//   services:
//     web: {maxConn: 0}      # invalid
//     Web: {maxConn: 5}      # fine, a different key
//
//   struct Root { #[garde(dive)] services: BTreeMap<String, Service> }
//   #[serde(rename_all = "camelCase")]
//   struct Service { #[garde(range(min = 1))] max_conn: u32 }
//
// What the crate does: "validation error at services.web.max_conn: lower than 1" - no line,
// no column, no snippet, `Error::location()` is None (and because it is the first issue, every
// other issue of the report loses its snippet as well). With the sibling spelled `Other` the
// same issue is reported at line 2, column 18 with a snippet. Same with `web-api` / `web_api`.
//
// What it should do: report line 2, column 18 - the path `services.web.<max_conn>` is not
// ambiguous: `web` is spelled exactly like the recorded key, only the leaf needs the
// naming-convention tolerance.
//
// Cause: the leaf is a renamed field (`max_conn` -> `maxConn`), so the direct lookup misses and
// PathMap::search falls back to the tolerant passes. Every tolerant pass
// (segments_equal_case_insensitive / _tokenized_ / _collapsed_) applies the tolerance to ALL
// segments of the path at once, including ancestors for which an exact match exists. `web` and
// `Web` are equal under every tolerant comparison, so find_unique_by sees two candidates
// (`services.web.maxConn`, `services.Web.maxConn`) and gives up as "ambiguous". A candidate
// whose ancestor segments match exactly should win over one that needs tolerance there.
#![cfg(feature = "garde")]

use garde::Validate;
use serde::Deserialize;
use serde_saphyr::{DefaultMessageFormatter, RenderOptions, SnippetMode};
use std::collections::BTreeMap;

#[derive(Debug, Deserialize, Validate)]
#[serde(rename_all = "camelCase")]
struct Service {
    #[garde(range(min = 1))]
    max_conn: u32,
}

#[derive(Debug, Deserialize, Validate)]
struct Root {
    #[garde(dive)]
    services: BTreeMap<String, Service>,
}

fn plain(e: &serde_saphyr::Error) -> String {
    let f = DefaultMessageFormatter;
    let mut o = RenderOptions::new(&f);
    o.snippets = SnippetMode::Off;
    e.render_with_options(o)
}

fn check(yaml: &str) {
    let err = serde_saphyr::from_str_valid::<Root>(yaml).expect_err("validation must fail");
    let text = plain(&err);
    assert!(
        text.contains("line 2, column 18"),
        "the invalid value is at line 2, column 18; reported: {text}"
    );
    let loc = err.location().expect("validation error must have a location");
    assert_eq!((loc.line(), loc.column()), (2, 18));
    assert!(err.to_string().contains(" --> "), "snippet expected: {err}");
}

#[test]
fn control_unrelated_sibling_key() {
    check("services:\n  web: {maxConn: 0}\n  Other: {maxConn: 5}\n");
}

#[test]
fn sibling_key_differs_in_case() {
    check("services:\n  web: {maxConn: 0}\n  Web: {maxConn: 5}\n");
}

#[test]
fn sibling_key_differs_in_separator() {
    let err = serde_saphyr::from_str_valid::<Root>(
        "services:\n  web_api: {maxConn: 0}\n  web-api: {maxConn: 5}\n",
    )
    .expect_err("validation must fail");
    let text = plain(&err);
    assert!(
        text.contains("line 2, column 22"),
        "the invalid value is at line 2, column 22; reported: {text}"
    );
}
