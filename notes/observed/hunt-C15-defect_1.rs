// Defect 1 (property C15) - needs `--features validator`:
//   cargo test --offline --features validator --test defect_1
//
// Violated clause: "The result of any serialization or deserialization call is the same whether
// it is the first call on a fresh thread or follows ... any sequence of other ... calls on the
// same thread. No ... hash seed survives a call in a way that can be observed."
//
// Minimal input: a struct with two or more fields that fail `validator` validation, e.g.
//   alpha: a\nbravo: b\n...   with #[validate(length(min = 5))] on every field,
// read with `serde_saphyr::from_str_validate` several times on the same thread.
//
// What the crate does: the *same call* returns a different error from one call to the next:
//   * `Error::location()` / `Error::locations()` ("the first validation entry") point at a
//     different field each time (line 2 in one call, line 6 in the next),
//   * the rendered message lists the failing fields in a different order each time, and
//   * the parameters of one entry are rendered in a different order
//     ("length (min=5, value=\"a\")" vs "length (value=\"a\", min=5)").
// The order is the iteration order of `validator::ValidationErrors` (a std `HashMap`, whose
// `RandomState` is seeded from a per-thread counter that every new map advances), so the outcome
// of a call depends on how many hash maps earlier calls on the thread created, and differs
// again on a fresh thread.
//
// What it should do: report the issues in an order that is a function of the input only (for
// example document order of the recorded locations, or sorted by path; parameters sorted by
// name), so that message and `location()` are reproducible.
//
// Cause: src/de_error.rs `collect_validator_issues_inner` iterates `errors.errors()` (HashMap)
// and `entry.params` (HashMap) without ordering them; `Error::location()`, `Error::locations()`,
// `fmt_validator_error_with_snippets_offset` and the message formatters
// (src/message_formatters.rs) all take "the first" / all entries in that order.

use serde::Deserialize;
use validator::Validate;

#[allow(dead_code)]
#[derive(Debug, Deserialize, Validate)]
struct Cfg {
    #[validate(length(min = 5))]
    alpha: String,
    #[validate(length(min = 5))]
    bravo: String,
    #[validate(length(min = 5))]
    charlie: String,
    #[validate(length(min = 5))]
    delta: String,
    #[validate(length(min = 5))]
    echo: String,
    #[validate(length(min = 5))]
    foxtrot: String,
}

const YAML: &str = "alpha: a\nbravo: b\ncharlie: c\ndelta: d\necho: e\nfoxtrot: f\n";

fn call() -> (Option<serde_saphyr::Location>, String) {
    let err = serde_saphyr::from_str_validate::<Cfg>(YAML).unwrap_err();
    (err.location(), err.to_string())
}

#[test]
fn validator_error_is_the_same_on_every_call_location() {
    let (first_location, _) = call();
    for i in 1..40 {
        let (location, _) = call();
        assert_eq!(
            location, first_location,
            "call #{i} on the same thread reports another location than the first call"
        );
    }
}

#[test]
fn validator_error_is_the_same_on_every_call_message() {
    let (_, first_message) = call();
    for i in 1..40 {
        let (_, message) = call();
        assert_eq!(
            message, first_message,
            "call #{i} on the same thread renders another message than the first call"
        );
    }
}

#[test]
fn validator_error_is_the_same_on_a_fresh_thread() {
    let here = call();
    for i in 0..10 {
        let there = std::thread::spawn(call).join().unwrap();
        assert_eq!(there, here, "fresh thread #{i} gives another result");
    }
}
