// C13 defect 6: a shared (anchored) string that is emitted as a block scalar does not get its
// anchor; the pending anchor leaks to the NEXT node that is written.
//
// Violated clause: "... the emitted text is a single well-formed YAML document that
// deserializes back into an equal value of the same type" (the property quantifies over
// anchored values: "... tagged enums and custom anchor names").
//
// Minimal input (default options; any string that the serializer writes in block style: it
// contains a line break, or it is longer than folded_wrap_chars):
//     let s = Rc::new("line1\nline2\n".to_string());
//     Doc { a: RcAnchor(s.clone()), b: "other".into(), c: RcAnchor(s) }
// The crate emits
//     a: |
//       line1
//       line2
//     b: &a1 other        <- the anchor of `a` lands on the unrelated next scalar
//     c: *a1
// which is well-formed but reads back with c == "other": silent data corruption.  When no
// other node follows before the alias (vec![RcAnchor(s.clone()), RcAnchor(s)]) the text is
// "- |\n  line1\n  line2\n- *a1\n" and is rejected: "alias references unknown anchor".
// Expected: "a: &a1 |\n  line1\n  line2\nb: other\nc: *a1\n".
//
// Cause: src/ser.rs, serialize_str. The plain/quoted path calls
// `write_scalar_prefix_if_anchor()`, the block-scalar path (`if let Some(style) =
// self.pending_str_style.take() { ... }`) writes the "|" / ">" header without ever consuming
// `pending_anchor_id`, so the id stays pending until the next scalar or collection.
//
// Run: cargo test --offline --test defect_6
use serde::{Deserialize, Serialize};
use serde_saphyr::RcAnchor;
use std::rc::Rc;

#[derive(Serialize, Deserialize)]
struct Doc {
    a: RcAnchor<String>,
    b: String,
    c: RcAnchor<String>,
}

#[test]
fn anchored_multiline_string_anchor_lands_on_next_scalar() {
    let s = Rc::new("line1\nline2\n".to_string());
    let doc = Doc {
        a: RcAnchor(s.clone()),
        b: "other".to_string(),
        c: RcAnchor(s.clone()),
    };
    let yaml = serde_saphyr::to_string(&doc).unwrap();
    let back: Doc = serde_saphyr::from_str(&yaml)
        .unwrap_or_else(|e| panic!("emitted text does not read back: {e}\n{yaml}"));
    assert_eq!(*back.a.0, *s, "emitted:\n{yaml}");
    assert_eq!(back.b, "other", "emitted:\n{yaml}");
    assert_eq!(*back.c.0, *s, "field c must be the shared string; emitted:\n{yaml}");
}

#[test]
fn anchored_long_string_in_sequence_alias_is_undefined() {
    let s = Rc::new("word ".repeat(30).trim_end().to_string());
    let v = vec![RcAnchor(s.clone()), RcAnchor(s.clone())];
    let yaml = serde_saphyr::to_string(&v).unwrap();
    let back: Vec<RcAnchor<String>> = serde_saphyr::from_str(&yaml)
        .unwrap_or_else(|e| panic!("emitted text does not read back: {e}\n{yaml}"));
    assert_eq!(back.len(), 2);
    assert_eq!(*back[0].0, *s, "emitted:\n{yaml}");
    assert_eq!(*back[1].0, *s, "emitted:\n{yaml}");
}
