// DEFECT 1 - rendering the miette report of an error located past column 65 535 panics
//
// Needs the optional feature `miette`:
//     cargo test --offline --features miette --test defect_1
// (`--features garde,validator,miette,robotics` works as well.)
//
// Violated clause (property C01): "Turning any returned error into text is equally total"
// (and, for the crate's own command line tool, "never panics, never aborts the process").
//
// Minimal input: one line of YAML / JSON whose faulty node starts at a column above
// u16::MAX, e.g. `k: [1, 1, 1, ... (22 000 times) ..., x]` read as a map of integer lists.
// Such lines are ordinary: minified JSON documents are a single line, usually far longer.
//
// What the crate does: `from_str` returns a perfectly good `Error` (invalid integer, line 1,
// column 65 540). `serde_saphyr::miette::to_miette_report(&err, source, file)` - the crate's
// documented way to turn the error into a miette diagnostic, also used by the crate's own
// binary (`src/main.rs`: `eprintln!("{report:?}")`, the default mode of `serde-saphyr <file>`) -
// builds a label whose span starts at that column, and formatting the report (`{:?}`, the
// graphical reporter that the documentation of `to_miette_report` advertises) panics with
// "Formatting argument out of range": miette's `render_single_line_highlights` pads the
// underline with `format!("{:width$}", "", width = <visual column of the label>)`, and a
// run-time width above u16::MAX panics on current toolchains (rustc 1.95 here).
//
// What it should do: produce text. The crate's own snippet renderer has exactly this guard
// (src/de/snippet.rs `write_caret_line`: "a run-time format width panics above u16::MAX, and
// the column of a node is bounded only by the length of its line"; the `annotate-snippets`
// path crops long lines around the error column), the miette bridge has not: it hands the
// whole, uncropped source line and the raw offset to miette.
//
// Where: src/miette.rs `to_miette_report_with_formatter` / `build_diagnostic` /
// `to_source_span` (no cropping of the source around the label, no cap on the label column);
// the panic site itself is miette-7.6.0 src/handlers/graphical.rs:1159.

use std::collections::BTreeMap;

fn long_line_with_error_at_column_above(col: usize) -> String {
    let mut s = String::from("k: [");
    while s.len() < col {
        s.push_str("1, ");
    }
    s.push_str("x]\n");
    s
}

#[test]
fn error_below_u16_max_columns_renders() {
    // control: the same document shape, error at column ~ 60 000, renders fine
    let yaml = long_line_with_error_at_column_above(60_000);
    let err = serde_saphyr::from_str::<BTreeMap<String, Vec<i32>>>(&yaml).unwrap_err();
    let report = serde_saphyr::miette::to_miette_report(&err, &yaml, "config.yaml");
    let text = format!("{report:?}");
    assert!(!text.is_empty());
}

#[test]
fn error_past_u16_max_columns_renders() {
    let yaml = long_line_with_error_at_column_above(65_537);
    let err = serde_saphyr::from_str::<BTreeMap<String, Vec<i32>>>(&yaml).unwrap_err();
    // the crate's own rendering is fine
    assert!(err.to_string().contains("invalid"));
    let column = err.location().expect("location").column();
    assert!(column > 65_535, "column {column}");

    let report = serde_saphyr::miette::to_miette_report(&err, &yaml, "config.yaml");
    let rendered = std::panic::catch_unwind(std::panic::AssertUnwindSafe(|| format!("{report:?}")));
    assert!(
        rendered.is_ok(),
        "formatting the miette report of an error at column {column} panicked"
    );
}

#[test]
fn syntax_error_past_u16_max_columns_renders() {
    // not only typed errors: a scan error of the parser in a long line (what the validator
    // binary `serde-saphyr <file>` reports for a broken minified JSON document)
    let mut yaml = String::from("{\"k\": [");
    while yaml.len() < 70_000 {
        yaml.push_str("1,");
    }
    yaml.push_str("\"\\q\"]}\n"); // an invalid escape sequence in a quoted string
    let err = serde_saphyr::from_str::<serde::de::IgnoredAny>(&yaml).unwrap_err();
    assert!(err.location().expect("location").column() > 65_535);
    let report = serde_saphyr::miette::to_miette_report(&err, &yaml, "data.json");
    let rendered = std::panic::catch_unwind(std::panic::AssertUnwindSafe(|| format!("{report:?}")));
    assert!(rendered.is_ok(), "formatting the miette report panicked: {err}");
}
