// Defect 2 (C07): under per-document enforcement the alias/anchor ratio is only evaluated once,
// at the end of the stream, with the counters of the LAST document
//
// Violated clauses: "deserialization succeeds only if every counted quantity of the input
// (... alias/anchor ratio) is within its limit, fails with the matching budget error as soon as
// one is exceeded" and "Under per-document enforcement (the streaming iterator) quantities are
// counted per document, so the number of documents already read never affects whether a
// document is accepted" - the verdict on a document must not depend on its position in the
// stream.
//
// Budget: enforce_alias_anchor_ratio = true, alias_anchor_min_aliases = 1,
//         alias_anchor_ratio_multiplier = 1 (everything else default).
// BAD  = `[&a 1, *a, *a]`   (2 aliases, 1 anchor: 2 > 1 * 1 -> ratio exceeded)
// GOOD = `[1, 2]`
//
// What the crate does (serde_saphyr::read_with_options):
//   stream "BAD"            -> [Ok(doc), Err(Budget AliasAnchorRatio{2,1})]
//   stream "BAD --- GOOD"   -> [Ok, Ok]                    (BAD is accepted, no error at all)
//   stream "GOOD --- BAD"   -> [Ok, Ok, Err(AliasAnchorRatio)]
// so the very same document BAD is accepted when another document follows it and reported as
// over budget when it is the last one (and even then only after it was yielded as Ok).
// `check_yaml_budget(.., EnforcingPolicy::PerDocument)` shows the same: "BAD\n---\nGOOD\n" ->
// breached: None, "BAD\n" -> breached: Some(AliasAnchorRatio).
//
// What it should do: evaluate the ratio for every document when that document ends, so that
// "BAD --- GOOD" reports the AliasAnchorRatio breach for BAD exactly as "BAD" alone does.
//
// Cause: the ratio heuristic lives only in `BudgetEnforcer::finalize` (src/budget.rs), which is
// called once from `LiveEvents::finish` (src/live_events.rs) at the end of the stream.
// Under `EnforcingPolicy::PerDocument`, `observe(Event::DocumentStart)` calls
// `BudgetReport::reset()` and throws the alias/anchor counts of the finished document away
// without ever checking them.
//
// Run: cargo test --offline --test defect_2

use serde_saphyr::budget::{check_yaml_budget, Budget, BudgetBreach, EnforcingPolicy};
use serde_saphyr::{Error, Options};

const BAD: &str = "[&a 1, *a, *a]";
const GOOD: &str = "[1, 2]";

fn budget() -> Budget {
    Budget {
        enforce_alias_anchor_ratio: true,
        alias_anchor_min_aliases: 1,
        alias_anchor_ratio_multiplier: 1,
        ..Budget::default()
    }
}

/// Number of AliasAnchorRatio errors the streaming iterator reports for `stream`.
fn ratio_errors(stream: &str) -> usize {
    let mut options = Options::default();
    options.budget = Some(budget());
    let mut reader = std::io::Cursor::new(stream.as_bytes().to_vec());
    serde_saphyr::read_with_options::<_, serde_json::Value>(&mut reader, options)
        .filter(|item| match item {
            Err(e) => matches!(
                e.without_snippet(),
                Error::Budget {
                    breach: BudgetBreach::AliasAnchorRatio { .. },
                    ..
                }
            ),
            Ok(_) => false,
        })
        .count()
}

#[test]
fn ratio_verdict_of_a_document_does_not_depend_on_what_follows_it() {
    // Sanity: alone, BAD is reported as exceeding the ratio.
    assert_eq!(ratio_errors(&format!("{BAD}\n")), 1);
    // The same document followed by a harmless one must be reported as well.
    assert_eq!(
        ratio_errors(&format!("{BAD}\n---\n{GOOD}\n")),
        1,
        "document exceeding the alias/anchor ratio was accepted because another document follows it"
    );
}

#[test]
fn check_yaml_budget_per_document_ratio() {
    let alone = check_yaml_budget(&format!("{BAD}\n"), budget(), EnforcingPolicy::PerDocument).unwrap();
    assert!(matches!(alone.breached, Some(BudgetBreach::AliasAnchorRatio { .. })));
    let followed = check_yaml_budget(
        &format!("{BAD}\n---\n{GOOD}\n"),
        budget(),
        EnforcingPolicy::PerDocument,
    )
    .unwrap();
    assert!(
        matches!(followed.breached, Some(BudgetBreach::AliasAnchorRatio { .. })),
        "per-document ratio breach of the first document lost: {:?}",
        followed.breached
    );
}
