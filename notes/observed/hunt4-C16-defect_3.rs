// C16 defect 3: a "missing field" error is located at the LAST KEY READ of the mapping (an
// unrelated, perfectly valid entry), not at the mapping that lacks the field.
//
// Violated clause: "a type error at a node is reported at the position a span-carrying value
//   would give for that node" - the node that is wrong is the mapping (it lacks a field).
//   The crate's own documentation of the mechanism says the same (src/de.rs deserialize_map):
//   "Ensure "missing field" errors (which have no natural span) get attributed to the current
//   container", and tests/missing_fields.rs names its tests "...renders_snippet_at_parent_container"
//   / "...at_item_container" (they only use one-key mappings, where first key == last key ==
//   start of a block mapping, so they cannot see the difference).
//
// Minimal input (target: struct Server { host: String, port: u16 }, unknown keys ignored):
//     server:
//       host: h
//       comment: zzz
// What the crate does: "missing field `port`" at line 3 column 3 - the key `comment`.
//   Flow form `server: {host: h, comment: zzz}`: reported at 1:19 (`comment`), not at the `{` (1:9).
// What it should do: report the mapping: 2:3 (block) / 1:9 (flow) = what
//   `server: Spanned<..>` gives for that node.
//
// Cause: src/de.rs MA::next_key_seed() moves the thread-local fallback location
//   (MissingFieldLocationGuard::replace_location) to every key it hands out and never moves it
//   back to the container when the mapping ends (it returns Ok(None) with the guard still on
//   the last key); serde raises `missing_field` after that, and
//   de_error.rs maybe_attach_fallback_location() picks up the stale key location.

use serde::Deserialize;
use serde_saphyr::Spanned;

#[derive(Debug, Deserialize)]
struct Server {
    #[allow(dead_code)]
    host: String,
    #[allow(dead_code)]
    port: u16,
}
#[derive(Debug, Deserialize)]
struct Doc {
    #[allow(dead_code)]
    server: Server,
}
#[derive(Debug, Deserialize)]
struct DocSp {
    server: Spanned<serde_json::Value>,
}

#[test]
fn missing_field_is_located_at_the_mapping_that_lacks_it() {
    for yaml in [
        "server:\n  host: h\n  comment: zzz\n",
        "server: {host: h, comment: zzz}\n",
        "server:\n  host: h\n  a: 1\n  b: 2\n  comment: zzz\n",
    ] {
        let node = serde_saphyr::from_str::<DocSp>(yaml).unwrap().server.referenced;
        let err = serde_saphyr::from_str::<Doc>(yaml).expect_err("port is missing");
        assert!(err.to_string().contains("missing field `port`"), "{err}");
        let loc = err.location().expect("location");
        assert_eq!(
            (loc.line(), loc.column()),
            (node.line(), node.column()),
            "{yaml:?}: `missing field` must be located at the mapping ({}:{}), not at its last key: {err}",
            node.line(),
            node.column()
        );
    }
}
