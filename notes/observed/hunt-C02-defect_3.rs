// C02 defect 3: attaching an anchor to a node turns a valid document into a bogus
// "Recursive references require weak anchors" error when the node is read by two nested anchor
// wrappers (an RcAnchor<T> whose T is a newtype / #[serde(transparent)] struct around another
// RcAnchor; same for ArcAnchor). Nothing in the document is recursive - there is not even an alias.
//
// Violated clause: "Attaching an anchor to a node never changes that node's own value"
//
// Minimal input (target Doc { first: RcAnchor<Handle> }, struct Handle(RcAnchor<Leaf>)):
//      "first: &a {v: 1}\n"
// Crate: Err("Recursive references require weak anchors").   "first: {v: 1}\n" is read fine.
// Should: Ok, first.v == 1, exactly as without the `&a` mark (and `second: *a` should then share it).
//
// Cause: src/de.rs deserialize_newtype_struct ("__yaml_rc_anchor" arm) peeks the anchor id of the
// next event for EVERY wrapper; a newtype / transparent struct passes the same, still unconsumed
// MapStart event on to the inner wrapper, so anchor_store::with_anchor_context bumps
// in_progress[(Rc, id)] to 2. src/anchors.rs RcAnchorVisitor::visit_newtype_struct treats
// "nothing stored yet for this id and rc_anchor_reentrant(id)" (count > 1) as a recursive
// reference and fails. The count says "two wrappers look at one node", not "the node contains an
// alias to itself".
//
// Run: cargo test --offline --test defect_3      (no optional features needed)

use serde::Deserialize;
use serde_saphyr::RcAnchor;

#[derive(Debug, Deserialize)]
struct Leaf {
    v: i32,
}

/// A handle type of the application: a newtype around a shared leaf.
#[derive(Debug, Deserialize)]
struct Handle(RcAnchor<Leaf>);

#[derive(Debug, Deserialize)]
struct Doc {
    first: RcAnchor<Handle>,
    second: Option<RcAnchor<Handle>>,
}

fn read(yaml: &str) -> Result<(i32, Option<i32>), String> {
    serde_saphyr::from_str::<Doc>(yaml)
        .map(|d| ((d.first.0).0.0.v, d.second.map(|s| (s.0).0.0.v)))
        .map_err(|e| e.to_string().lines().next().unwrap_or("").to_string())
}

#[test]
fn anchor_mark_alone_makes_the_document_fail() {
    assert_eq!(read("first: {v: 1}\n"), Ok((1, None))); // baseline, passes
    assert_eq!(read("first: &a {v: 1}\n"), Ok((1, None)));
}

#[test]
fn alias_differs_from_expansion() {
    assert_eq!(read("first: {v: 1}\nsecond: {v: 1}\n"), Ok((1, Some(1)))); // baseline, passes
    assert_eq!(read("first: &a {v: 1}\nsecond: *a\n"), Ok((1, Some(1))));
}
