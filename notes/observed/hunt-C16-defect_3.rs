// DEFECT 3 - the payload of a tag-selected enum variant (`!Variant payload`) reached through
// an alias loses its use-site: Spanned::referenced is the definition site instead of the
// alias token.
//
// Property clause violated:
//   "For a value reached through an alias or a merge the use-site location is that of the
//    alias / merge entry and the definition-site location that of the anchored node"
//
// Minimal input:
//     - &x !V 5
//     - *x
//   target: Vec<E>, enum E { V(Spanned<i32>), T(Spanned<i32>, Spanned<i32>) }
//
// What the crate does: element 1 (reached through `*x` at 2:3) has
//   referenced = defined = 1:9. With the equivalent mapping form `- &x {V: 5}` / `- *x`
//   the crate correctly reports referenced = 2:3, defined = 1:10.
//   The same for tagged sequences: `- &x !T [5, 6]` / `- *x`.
// What it should do: referenced = 2:3 (the alias token), defined = 1:9.
//
// Cause: src/de.rs deserialize_enum(): for Mode::TaggedNewtype and for the tagged-sequence
//   branch the payload events are copied into `ReplayEvents::new(..)` (no reference
//   override); the live source's `reference_location()` (the InjectFrame of the alias) is not
//   carried over with `ReplayEvents::with_reference`, so SpannedDeser sees
//   reference_location() == the replayed event's own (definition) location.

use serde::Deserialize;
use serde_saphyr::Spanned;

#[derive(Debug, Deserialize)]
enum E {
    V(Spanned<i32>),
    T(Spanned<i32>, Spanned<i32>),
}

#[test]
fn control_mapping_form_keeps_use_site() {
    let v: Vec<E> = serde_saphyr::from_str("- &x {V: 5}\n- *x\n").unwrap();
    let E::V(s) = &v[1] else { panic!("variant") };
    assert_eq!((s.referenced.line(), s.referenced.column()), (2, 3));
    assert_eq!((s.defined.line(), s.defined.column()), (1, 10));
}

#[test]
fn tagged_newtype_variant_through_alias_keeps_use_site() {
    let v: Vec<E> = serde_saphyr::from_str("- &x !V 5\n- *x\n").unwrap();
    let E::V(s) = &v[1] else { panic!("variant") };
    assert_eq!(s.value, 5);
    assert_eq!((s.defined.line(), s.defined.column()), (1, 9));
    assert_eq!(
        (s.referenced.line(), s.referenced.column()),
        (2, 3),
        "use-site must be the alias token `*x`"
    );
}

#[test]
fn tagged_tuple_variant_through_alias_keeps_use_site() {
    let v: Vec<E> = serde_saphyr::from_str("- &x !T [5, 6]\n- *x\n").unwrap();
    let E::T(_, s) = &v[1] else { panic!("variant") };
    assert_eq!(s.value, 6);
    assert_eq!((s.defined.line(), s.defined.column()), (1, 13));
    assert_eq!(
        (s.referenced.line(), s.referenced.column()),
        (2, 3),
        "use-site must be the alias token `*x`"
    );
}
