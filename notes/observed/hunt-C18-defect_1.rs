// DEFECT 1 (C18): an issue that shares a cropped snippet region with an earlier issue is rendered
// against source text that was horizontally cropped around the EARLIER issue's column: the caret
// lands on unrelated text, or the snippet is dropped altogether.
//
// Needs: cargo test --offline --features garde,validator,miette,robotics --test defect_1
//        (only `garde` is really required)
//
// Violated clause: "whenever it fails they return a validation error in which every reported
// field path is mapped to the position where that field's value is used in the YAML" together
// with the named mechanism "rendering picks the snippet region covering each issue"
// (src/de_error.rs fmt_validation_error_with_snippets_offset). README: "serde-saphyr error will
// print the snippet, providing location information."
//
// Minimal input (A... = 5000 x 'A', anything that makes a line longer than 4 KiB):
//
//     items:
//       - {blob: AAAA...AAAA, itemName: x}      <- issue 1 at line 2, column 5024
//       - {itemName: y, blob: AAAA...AAAA}      <- issue 2 at line 3, column 16
//
// What the crate does: the report for `items[1].itemName` (line 3 column 16) shows
//
//     3 | …AAAAAAAAAAAAAAAAAAAAAAAAAAAAAAAAAAAAAAAAAAAAAAAAAAAAAAAAAAAAAAAAAAAA}
//       |                ^ validation error: length is lower than 2 for `items[1].itemName`
//
// i.e. the caret points into the middle of the blob, the text `itemName: y` is not shown at all.
// In the second test (issue 1 on a short line, issue 2 at column 5024 of the next line) issue 2
// is printed as plain `... at line 3, column 5024` without any snippet although its location is
// known.
//
// What it should do: show line 3 around column 16 (`  - {itemName: y, blob: AAAA…`) with the
// caret under `y`, as it does when issue 2 is the only issue of the document.
//
// Cause: Error::with_snippet (src/de_error.rs) stores one CroppedRegion per issue;
// crop_source_window (src/de/snippet.rs) crops the *context* lines of a region that contains a
// line > 4 KiB to the column window [error_col - crop_radius, error_col + crop_radius] of the
// issue the region was made for. pick_cropped_region (src/de_error.rs) then hands the FIRST
// region whose line range covers a location to every later issue, so issue 2 is rendered from
// region 1, in which its own line is only a context line that was cut around issue 1's column.

use garde::Validate;
use serde::Deserialize;

#[derive(Debug, Deserialize, Validate)]
#[serde(rename_all = "camelCase")]
#[allow(dead_code)]
struct Item {
    #[garde(skip)]
    #[serde(default)]
    blob: String,
    #[garde(length(min = 2))]
    item_name: String,
}

#[derive(Debug, Deserialize, Validate)]
#[allow(dead_code)]
struct Root {
    #[garde(dive)]
    items: Vec<Item>,
}

/// The part of the rendered report that belongs to the issue for `path`.
fn block_for<'a>(rendered: &'a str, path: &str) -> &'a str {
    let needle = format!("for `{path}`");
    let hit = rendered.find(&needle).expect("issue is reported");
    // start of the line that first mentions the issue
    let start = rendered[..hit].rfind('\n').map(|i| i + 1).unwrap_or(0);
    // the block ends where the next issue starts
    let rest = &rendered[start..];
    let end = rest[1..]
        .find("\nerror: ")
        .or_else(|| rest[1..].find("\nvalidation error"))
        .map(|i| i + 1)
        .unwrap_or(rest.len());
    &rest[..end]
}

#[test]
fn second_issue_is_rendered_from_its_own_text() {
    let blob = "A".repeat(5000);
    let yaml = format!(
        "items:\n  - {{blob: {blob}, itemName: x}}\n  - {{itemName: y, blob: {blob}}}\n"
    );

    // Control: alone, the issue on line 3 is rendered with its own text.
    let alone = format!("items:\n  - {{itemName: xx}}\n  - {{itemName: y, blob: {blob}}}\n");
    let err = serde_saphyr::from_str_valid::<Root>(&alone).expect_err("must fail validation");
    let rendered = err.to_string();
    assert!(
        block_for(&rendered, "items[1].itemName").contains("{itemName: y"),
        "control: {rendered}"
    );

    let err = serde_saphyr::from_str_valid::<Root>(&yaml).expect_err("must fail validation");
    let rendered = err.to_string();
    let block = block_for(&rendered, "items[1].itemName");
    assert!(block.contains("line 3 column 16"), "location is known: {block}");
    assert!(
        block.contains("{itemName: y"),
        "the snippet for `items[1].itemName` (line 3 column 16) must show the text at that \
         position, got:\n{block}"
    );
}

#[test]
fn second_issue_keeps_its_snippet() {
    let blob = "A".repeat(5000);
    let yaml = format!("items:\n  - itemName: x\n  - {{blob: {blob}, itemName: y}}\n");

    let err = serde_saphyr::from_str_valid::<Root>(&yaml).expect_err("must fail validation");
    let rendered = err.to_string();
    let block = block_for(&rendered, "items[1].itemName");
    assert!(
        block.contains("itemName: y}") && block.contains('^'),
        "the issue at line 3 column 5024 has a known location and must be rendered with a \
         snippet like the first one, got:\n{block}"
    );
}
