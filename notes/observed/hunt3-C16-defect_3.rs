// Defect 3 (C16): the payload of a tuple variant or struct variant (`{Tup: *a}`, `{St: *a}`) and
// an element of a byte sequence (`[1, *a]` read into serde_bytes::ByteBuf) that is reached through
// an alias: a type error raised for the aliased node reports the anchor definition only.
// The use site (the alias token) is missing, although the same payload behind a *newtype* variant
// (`{New: *a}`, `{NewT: *a}`) or the same element read into Vec<u8> reports both.
//
// Violated clause: "... and an error caused by such a value reports both." (use-site = alias,
// definition-site = anchored node); also "a type error at a node is reported at the position a
// span-carrying value would give for that node" - a Spanned payload there has referenced = `*a`.
//
// Minimal inputs:
//     s: &a 世            |   s: &a 世           |   s: &a 300
//     e: {Tup: *a}        |   e: {St: *a}        |   b: [1, *a]      (b: serde_bytes::ByteBuf)
//
// What the crate does: reference == defined == 1:7 ("line 1 column 7: unexpected event: expected
// sequence start" / "... expected mapping start" / "line 1 column 7: invalid u8"); line 2 is never
// mentioned - the user is pointed at `s: &a 世`, which is valid where it stands.
// What it should do: reference_location = the alias token on line 2, defined_location = 1:7, as
// for `e: {NewT: *a}` (ref 2:11 / def 1:7) and for `b: [1, *a]` read into Vec<u8> (ref 2:8 / def 1:7).
//
// Cause: src/de.rs
//  - VA::tuple_variant / VA::struct_variant (inside deserialize_enum) call
//    `YamlDeserializer::new(self.ev, self.cfg).deserialize_tuple(..)? / .deserialize_struct(..)?`
//    without the `attach_alias_locations_if_missing(e, reference_location, defined_location)` that
//    VA::newtype_variant_seed applies;
//  - deserialize_bytes, arm `Some(Ev::SeqStart { .. })`, reads each element with
//    `<u8 as Deserialize>::deserialize(YamlDeserializer::new(self.ev, self.cfg))?`, again without
//    it (deserialize_seq's SA::next_element_seed has it).
//
// Run: cargo test --offline --test defect_3

use serde::Deserialize;

#[derive(Debug, Deserialize)]
#[allow(dead_code)]
enum E {
    New(i32),
    NewT((i32, i32)),
    Tup(i32, i32),
    St { a: i32, b: i32 },
}

#[derive(Debug, Deserialize)]
#[allow(dead_code)]
struct Doc {
    s: String,
    e: E,
}

fn sites<T: for<'de> Deserialize<'de> + std::fmt::Debug>(yaml: &str) -> ((u64, u64), (u64, u64), String) {
    let err = serde_saphyr::from_str::<T>(yaml).expect_err("type error expected");
    let locs = err.locations().expect("locations");
    (
        (locs.reference_location.line(), locs.reference_location.column()),
        (locs.defined_location.line(), locs.defined_location.column()),
        err.to_string(),
    )
}

#[test]
fn control_newtype_variant_payload_reports_both() {
    let (r, d, _) = sites::<Doc>("s: &a 世\ne: {NewT: *a}\n");
    assert_eq!((r, d), ((2, 11), (1, 7)));
}

#[test]
fn tuple_variant_payload_through_alias_reports_both() {
    let (r, d, msg) = sites::<Doc>("s: &a 世\ne: {Tup: *a}\n");
    assert_eq!(d, (1, 7));
    assert_eq!(r, (2, 10), "use site must be the alias token `*a`; error: {msg}");
}

#[test]
fn struct_variant_payload_through_alias_reports_both() {
    let (r, d, msg) = sites::<Doc>("s: &a 世\ne: {St: *a}\n");
    assert_eq!(d, (1, 7));
    assert_eq!(r, (2, 9), "use site must be the alias token `*a`; error: {msg}");
}

#[derive(Debug, Deserialize)]
#[allow(dead_code)]
struct BytesDoc {
    s: String,
    b: serde_bytes::ByteBuf,
}

#[derive(Debug, Deserialize)]
#[allow(dead_code)]
struct VecDoc {
    s: String,
    b: Vec<u8>,
}

#[test]
fn control_vec_u8_element_through_alias_reports_both() {
    let (r, d, _) = sites::<VecDoc>("s: &a 300\nb: [1, *a]\n");
    assert_eq!((r, d), ((2, 8), (1, 7)));
}

#[test]
fn byte_buf_element_through_alias_reports_both() {
    let (r, d, msg) = sites::<BytesDoc>("s: &a 300\nb: [1, *a]\n");
    assert_eq!(d, (1, 7));
    assert_eq!(r, (2, 8), "use site must be the alias token `*a`; error: {msg}");
}
