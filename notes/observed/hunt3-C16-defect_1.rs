// Defect 1 (C16): a merge value that is reached through an alias and is not a mapping is reported
// at the anchor definition only - the use site (the `<<: *a` entry) is missing.
//
// Violated clause: "For a value reached through an alias or a merge the use-site location is that
// of the alias / merge entry and the definition-site location that of the anchored node, and an
// error caused by such a value reports both."
//
// Minimal input:
//     s: &a text
//     n:
//       <<: *a
//
// What the crate does: Error::locations() has reference_location == defined_location == 1:7 (the
// scalar `text` in `s: &a text`, a perfectly valid line); the message reads "line 1 column 7: YAML
// merge value must be mapping or sequence of mappings". Line 3, where the offending `<<: *a` is,
// is not mentioned at all. The same happens for `<<: [*a]` and with multi-byte text.
//
// What it should do: report the use site (the alias token `*a` at 3:7, or at least the merge entry
// on line 3) as reference_location and 1:7 as defined_location, like every other error caused by
// an aliased value does (`n: *a` into a struct reports ref 2:4 / def 1:7).
//
// Cause: src/de.rs, pending_entries_from_live_events() and pending_entries_from_events(): the arm
// `Some(Ev::Scalar { location, .. }) => Err(Error::MergeValueNotMapOrSeqOfMaps { location })`
// uses the replayed event's own (definition-site) location and ignores the
// `merge_reference_location` / `reference_location` argument it was given. The error is raised in
// MapAccess::next_key_seed, which (unlike next_value_seed) is not wrapped by
// attach_alias_locations_if_missing.
//
// Run: cargo test --offline --test defect_1

use serde::Deserialize;

#[derive(Debug, Deserialize)]
#[allow(dead_code)]
struct Inner {
    a: Option<i32>,
}

#[derive(Debug, Deserialize)]
#[allow(dead_code)]
struct Doc {
    s: String,
    n: Inner,
}

fn check(yaml: &str, use_line: u64, use_col: u64, def_line: u64, def_col: u64) {
    let err = serde_saphyr::from_str::<Doc>(yaml).expect_err("a scalar is not a valid merge value");
    let locs = err.locations().expect("the error must carry locations");
    let r = locs.reference_location;
    let d = locs.defined_location;
    assert_eq!(
        (d.line(), d.column()),
        (def_line, def_col),
        "definition site must be the anchored scalar; error: {err}"
    );
    assert_eq!(
        (r.line(), r.column()),
        (use_line, use_col),
        "use site must be the alias in the merge entry, got {}:{} (definition site is {}:{}); error: {err}",
        r.line(),
        r.column(),
        d.line(),
        d.column()
    );
}

#[test]
fn merge_of_aliased_scalar_reports_the_merge_entry() {
    check("s: &a text\nn:\n  <<: *a\n", 3, 7, 1, 7);
}

#[test]
fn merge_of_aliased_scalar_in_a_sequence_reports_the_alias() {
    check("s: &a 世界\nn:\n  <<: [*a]\n", 3, 8, 1, 7);
}
