// DEFECT 4 (C18): the issue of a renamed field is mapped to the position of a DIFFERENT value
// when the mapping also holds an (ignored) key spelled like the Rust field name.
//
// Needs: cargo test --offline --features garde,validator,miette,robotics --test defect_4
//        (only `garde` is really required)
//
// Violated clause: "every reported field path is mapped to the position where that field's
// value is used in the YAML"; mechanism "lookup with case / naming-convention tolerant fallback
// that must stay unambiguous" (src/path_map.rs PathMap::search).
//
// Minimal input, for
//     #[serde(rename_all = "camelCase")]
//     struct Item { #[garde(length(min = 2))] item_name: String }
//
//     item_name: long enough       <- unknown key, ignored by serde
//     itemName: x                  <- the value of the field, too short
//
// What the crate does: reports `length is lower than 2 for item_name` at line 1 column 12 and
// puts the caret under `long enough` - a value that was never read into the field and that
// satisfies the constraint.
//
// What it should do: point at line 2 column 11 (`x`), the value serde actually put into
// `item_name`; or, if it regards the two spellings as ambiguous, give no position rather than
// the wrong one (the module documentation promises that a fuzzy match is accepted only when it
// is unique).
//
// Cause: the path recorder (src/de.rs MA::next_value_seed) records every key of the mapping,
// also keys the target struct ignores. PathMap::search tries the exact Rust spelling first
// ("1) Direct lookup") and returns the ignored sibling without checking whether another key of
// the same mapping matches the path under the naming-convention passes.

use garde::Validate;
use serde::Deserialize;

#[derive(Debug, Deserialize, Validate)]
#[serde(rename_all = "camelCase")]
struct Item {
    #[garde(length(min = 2))]
    item_name: String,
}

#[test]
fn issue_points_at_the_value_that_was_read() {
    let yaml = "item_name: long enough\nitemName: x\n";

    // serde reads the camelCase key; the snake_case one is an unknown, ignored key.
    let plain: Item = serde_saphyr::from_str(yaml).unwrap();
    assert_eq!(plain.item_name, "x");

    let err = serde_saphyr::from_str_valid::<Item>(yaml).expect_err("must fail validation");
    let rendered = err.to_string();
    assert!(
        !rendered.contains("line 1 column 12"),
        "the issue must not be attributed to the ignored value `long enough`, got:\n{rendered}"
    );
    assert!(
        rendered.contains("line 2 column 11"),
        "the issue must be mapped to the value `x` at line 2 column 11, got:\n{rendered}"
    );
}
