// C20 defect 4: any `indent_step` other than 2 breaks mappings with complex (non-scalar)
// keys: the continuation lines of the key, and the following `? ` entries of a mapping that
// is a sequence item, are written at multiples of `indent_step` although the key starts two
// columns after the '?'.
//
// Violated clause: "all serializer options affect only the layout of the emitted document:
// it deserializes to the same data as without them".
//
// Minimal inputs:
//  (a) BTreeMap<Vec<i32>, i32> {[1, 2]: 1, [3]: 2} with `ser_options! { indent_step: 4 }`
//        ? - 1
//            - 2        <- column 4, the first item is in column 2
//        : 1
//      -> the key is read as the single plain scalar "1 - 2" ("invalid i32").
//      (indent_step 3, 5, 8 ... behave the same; indent_step 1 gives `? - 1\n - 2`.)
//  (b) vec![BTreeMap<K, i32>] with struct keys K { x, w } and `indent_step: 3`
//        - ? x: 1
//             w: 2         <- column 5, `x` is in column 4
//          : 1
//           ? x: 3         <- column 3, the first '?' is in column 2
//             w: 4
//          : 2
//      -> "mapping values are not allowed in this context".
// With the default indent_step (2) both values round-trip.
//
// What it should do: indent the continuation lines of a complex key relative to the column
// where the key really starts ("? " is always two columns wide), and align every `? ` of a
// mapping that started inline after a dash with the first one, as `serialize_value` already
// does for the ':' lines.
//
// Cause: src/ser.rs, `MapSer::serialize_key`, branch `Err(Error::Unexpected { msg }) if msg ==
// "non-scalar key"`: it calls `self.ser.write_indent(self.depth)` (ignoring
// `self.align_after_dash`, unlike the scalar-key branch above it), writes the fixed-width
// "? " and serializes the key with `ser.depth = self.depth` / `current_map_depth =
// Some(self.depth)` and `pending_inline_map = true`, so the first line of the key is inline at
// column `depth*step + 2` while all further lines go to `(depth + 1) * step`; the two agree
// only for indent_step == 2.
//
// Run: cargo test --offline --test defect_4

use serde::{Deserialize, Serialize};
use std::collections::BTreeMap;

#[test]
fn indent_step_4_keeps_sequence_keys_readable() {
    type M = BTreeMap<Vec<i32>, i32>;
    let value: M = BTreeMap::from([(vec![1, 2], 1), (vec![3], 2)]);

    // Reference: default options round-trip.
    let reference = serde_saphyr::to_string(&value).unwrap();
    assert_eq!(serde_saphyr::from_str::<M>(&reference).unwrap(), value);

    let yaml =
        serde_saphyr::to_string_with_options(&value, serde_saphyr::ser_options! { indent_step: 4 })
            .unwrap();
    let back: M = serde_saphyr::from_str(&yaml)
        .unwrap_or_else(|e| panic!("indent_step: 4 produced an unreadable document:\n{yaml}\n{e}"));
    assert_eq!(back, value, "indent_step: 4 changed the data:\n{yaml}");
}

#[derive(Serialize, Deserialize, Debug, PartialEq, Eq, PartialOrd, Ord, Clone)]
struct K {
    x: i32,
    w: i32,
}

#[test]
fn indent_step_3_keeps_struct_keys_in_a_sequence_item_readable() {
    type M = BTreeMap<K, i32>;
    let value: Vec<M> = vec![BTreeMap::from([
        (K { x: 1, w: 2 }, 1),
        (K { x: 3, w: 4 }, 2),
    ])];

    let reference = serde_saphyr::to_string(&value).unwrap();
    assert_eq!(serde_saphyr::from_str::<Vec<M>>(&reference).unwrap(), value);

    let yaml =
        serde_saphyr::to_string_with_options(&value, serde_saphyr::ser_options! { indent_step: 3 })
            .unwrap();
    let back: Vec<M> = serde_saphyr::from_str(&yaml)
        .unwrap_or_else(|e| panic!("indent_step: 3 produced an unreadable document:\n{yaml}\n{e}"));
    assert_eq!(back, value, "indent_step: 3 changed the data:\n{yaml}");
}
