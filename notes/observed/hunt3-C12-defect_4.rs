// C12 defect 4: NaN and the infinities do not read back as floats when the float field sits in
// a `#[serde(flatten)]`-ed struct or in an internally tagged / untagged enum.
//
// Violated clause: "Every ... float ... serialized in any position (... mapping value ... enum
// payload) ... deserializes back into the same type as the identical value - ... floats bit for
// bit (NaN to NaN)".
//
// Minimal input (default options):
//     #[serde(untagged)] enum U { F(f64), S(String) }
//     vec![U::F(f64::INFINITY)]        is written as   - .inf
//     and reads back as                vec![U::S(".inf")]      (a float became a string)
//
//     struct Inner { x: f64 }  struct Outer { id: u32, #[serde(flatten)] inner: Inner }
//     Outer { id: 1, inner: Inner { x: f64::NAN } }   is written as  "id: 1\nx: .nan\n"
//     and `from_str::<Outer>` fails: invalid type: string ".nan", expected f64.
// Finite floats in the same places read back fine, so the failure depends on the data.
//
// Expected: `.nan`, `.inf`, `-.inf` (the serializer's own spelling of these floats) are handed
// to a typeless visitor as f64 (`visit_f64`), like every other float.
//
// Cause: src/de.rs, `deserialize_any`, scalar branch after `parse_yaml12_float`: only
// `v.is_finite()` values go to `visitor.visit_f64(v)`; NaN / +-Inf are deliberately turned into
// the strings ".nan" / ".inf" / "-.inf" (to suit serde_json::Value), which breaks every
// other typeless consumer (serde's `Content` buffering for flatten and tagged / untagged enums).
//
// Run: cargo test --offline --test defect_4

use serde::{Deserialize, Serialize};

#[derive(Serialize, Deserialize, Debug)]
struct Inner {
    x: f64,
    y: f32,
}

#[derive(Serialize, Deserialize, Debug)]
struct Outer {
    id: u32,
    #[serde(flatten)]
    inner: Inner,
}

#[derive(Serialize, Deserialize, Debug)]
#[serde(untagged)]
enum U {
    F(f64),
    S(String),
}

#[test]
fn non_finite_floats_in_a_flattened_struct_read_back() {
    for f in [1.5f64, f64::INFINITY, f64::NEG_INFINITY, f64::NAN] {
        let v = Outer {
            id: 1,
            inner: Inner { x: f, y: f as f32 },
        };
        let yaml = serde_saphyr::to_string(&v).unwrap();
        let back: Outer = serde_saphyr::from_str(&yaml)
            .unwrap_or_else(|e| panic!("{v:?} does not read back: {e}\nyaml:\n{yaml}"));
        assert!(
            back.inner.x.to_bits() == f.to_bits() || (back.inner.x.is_nan() && f.is_nan()),
            "{back:?} from\n{yaml}"
        );
        assert!(
            back.inner.y.to_bits() == (f as f32).to_bits() || (back.inner.y.is_nan() && f.is_nan()),
            "{back:?} from\n{yaml}"
        );
    }
}

#[test]
fn infinity_in_an_untagged_enum_stays_a_float() {
    let v = vec![U::F(f64::INFINITY)];
    let yaml = serde_saphyr::to_string(&v).unwrap();
    let back: Vec<U> = serde_saphyr::from_str(&yaml).unwrap();
    assert!(
        matches!(back[0], U::F(x) if x == f64::INFINITY),
        "{back:?} from {yaml:?}"
    );
}
