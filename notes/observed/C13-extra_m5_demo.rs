//! Demonstration for the EXTRA seeded change (not m3/m4): the value-position branch of
//! serialize_newtype_variant no longer cancels a pending inline hint.  Only the value of a
//! composite-key (`? key` / `: value`) entry has that hint set, so it takes a map with a composite
//! key whose value is a newtype variant with a map / struct / sequence payload.
use serde::{Deserialize, Serialize};
use std::collections::BTreeMap;

#[derive(Serialize, Deserialize, PartialEq, Debug, Clone)]
struct P { a: i32, b: i32 }
#[derive(Serialize, Deserialize, PartialEq, Debug, Clone)]
enum En { M(BTreeMap<String, i32>), S(P), L(Vec<i32>), Plain(i32) }

fn check(v: &BTreeMap<Vec<i32>, En>) {
    let text = serde_saphyr::to_string(v).unwrap();
    let back: BTreeMap<Vec<i32>, En> = serde_saphyr::from_str(&text)
        .unwrap_or_else(|e| panic!("emitted text does not parse back:\n{text}\nerror: {e}"));
    assert_eq!(&back, v, "emitted text:\n{text}");
}

#[test]
fn control_scalar_payload() {
    let mut m = BTreeMap::new(); m.insert(vec![1, 2], En::Plain(5)); check(&m);
}
#[test]
fn map_payload() {
    let mut i = BTreeMap::new(); i.insert("x".to_string(), 1);
    let mut m = BTreeMap::new(); m.insert(vec![1, 2], En::M(i)); check(&m);
}
#[test]
fn struct_payload() {
    let mut m = BTreeMap::new(); m.insert(vec![1, 2], En::S(P { a: 3, b: 4 })); check(&m);
}
#[test]
fn seq_payload() {
    let mut m = BTreeMap::new(); m.insert(vec![1, 2], En::L(vec![5, 6])); check(&m);
}
