// C05 defect 2 (borderline: scalar fidelity rather than cursor position): a `String` position
// that is reached through `deserialize_any` (field of a `#[serde(flatten)]`-ed struct, untagged
// enum, internally tagged enum) is filled with a text that is NOT the text of its YAML node when
// that text happens to spell a non-finite float.
//
// Violated clause: "deserialization either fails or returns the value in which every Rust
// position is filled from the YAML node at the corresponding position".
//
// Minimal input:
//     x: 1
//     s: .INF
// read into `struct Outer { x: i32, #[serde(flatten)] inner: Inner }`, `struct Inner { s: String }`.
//
// What the crate does: Ok with `s == ".inf"` (also `+.Inf` -> ".inf", `-.INF` -> "-.inf",
// `.NaN` / `.NAN` -> ".nan").  Without `flatten` the same document gives `s == ".INF"`.
// What it should do: hand the scalar's own text to the visitor (`".INF"`), or fail.
//
// Cause: src/de.rs `YamlDeserializer::deserialize_any`, float branch: a plain scalar that parses
// as a non-finite float is replaced by a "canonical" string (`.nan` / `.inf` / `-.inf`) and passed
// to `visit_string` - meant for `serde_json::Value`-like consumers, but every string target behind
// serde's `Content` buffer receives the rewritten text.  The original text `s` should be passed.
//
// Run: cargo test --offline --test defect_2

use serde::Deserialize;

#[derive(Debug, Deserialize, PartialEq)]
struct Inner {
    s: String,
}

#[derive(Debug, Deserialize, PartialEq)]
struct Outer {
    x: i32,
    #[serde(flatten)]
    inner: Inner,
}

#[derive(Debug, Deserialize, PartialEq)]
struct Plain {
    x: i32,
    s: String,
}

#[derive(Debug, Deserialize, PartialEq)]
#[serde(untagged)]
enum Un {
    S(String),
}

#[test]
fn string_below_flatten_keeps_the_text_of_its_node() {
    for text in [".INF", "+.Inf", "-.INF", ".NaN", ".NAN", ".Inf"] {
        let doc = format!("x: 1\ns: {text}\n");
        let plain: Plain = serde_saphyr::from_str(&doc).unwrap();
        assert_eq!(plain.s, text, "reference (no flatten)");
        match serde_saphyr::from_str::<Outer>(&doc) {
            Err(_) => {}
            Ok(v) => assert_eq!(v.inner.s, text, "String field below flatten, input {doc:?}"),
        }
    }
}

#[test]
fn string_in_untagged_enum_keeps_the_text_of_its_node() {
    match serde_saphyr::from_str::<Vec<Un>>("- .INF\n") {
        Err(_) => {}
        Ok(v) => assert_eq!(v, vec![Un::S(".INF".to_owned())]),
    }
}
