// DEFECT 1 - a dangling RcRecursion / ArcRecursion does not survive the round trip
//
// Property clause violated:
//   "weak references resolve to their strong target or to null when dangling, and
//    self-referential structures built from the recursive wrappers are restored"
//   (quantified over "weak edges to live and dropped targets, cycles through the recursive
//   wrappers").
//
// Minimal input: a node held by RcRecursive whose RcRecursion link is dangling
// (`RcRecursion(Weak::new())`, or a link whose target has been dropped). Typical case: the
// `parent` link of a tree root, the `prev` link of the first list element.
//
//   n: &a1
//     name: x
//     me: *a1
//     other: null          <- what the serializer writes for the dangling link
//
// What the crate does: the serializer writes `null` for the dangling link (ser.rs, TupleSer,
// TupleKind::AnchorWeak, `present == false`), exactly as it does for RcWeakAnchor. Reading the
// text back fails with
//   "RcRecursion must refer to an existing recursive strong anchor via alias"
// (resp. "ArcRecursion must refer ..."), so the whole document is rejected.
//
// What it should do: give back a dangling RcRecursion / ArcRecursion (`is_dangling() == true`),
// as RcWeakAnchor / ArcWeakAnchor do for the same text.
//
// Cause: src/de.rs `deserialize_newtype_struct`, arms "__yaml_rc_recursion" /
// "__yaml_arc_recursion": unlike the "__yaml_rc_weak_anchor" / "__yaml_arc_weak_anchor" arms they
// do not hand an un-anchored null to the visitor as a unit, and src/anchors.rs
// RcRecursionVisitor / ArcRecursionVisitor have no `visit_unit`; `visit_newtype_struct` bails out
// because there is no anchor id on a plain `null`.
//
// Run: cargo test --offline --test defect_1

use serde::{Deserialize, Serialize};
use serde_saphyr::{ArcRecursion, ArcRecursive, RcRecursion, RcRecursive};

#[derive(Serialize, Deserialize)]
struct Node {
    name: String,
    me: RcRecursion<Node>,
    other: RcRecursion<Node>,
}

#[derive(Serialize, Deserialize)]
struct Doc {
    n: RcRecursive<Node>,
}

#[test]
fn dangling_rc_recursion_round_trips() {
    let n = RcRecursive::wrapping(Node {
        name: "x".into(),
        me: RcRecursion(std::rc::Weak::new()),
        other: RcRecursion(std::rc::Weak::new()),
    });
    let me = RcRecursion::from(&n);
    n.0.borrow_mut().as_mut().unwrap().me = me;

    let yaml = serde_saphyr::to_string(&Doc { n }).expect("serialize");
    assert!(yaml.contains("other: null"), "dangling link is written as null:\n{yaml}");

    let back: Doc = serde_saphyr::from_str(&yaml)
        .unwrap_or_else(|e| panic!("the serializer's own output is rejected: {e}\n{yaml}"));
    let node = back.n.borrow();
    assert!(node.me.upgrade().is_some_and(|t| t == back.n), "self link restored");
    assert!(node.other.is_dangling(), "dangling link stays dangling");
}

#[derive(Serialize, Deserialize)]
struct ANode {
    name: String,
    parent: ArcRecursion<ANode>,
    kids: Vec<ArcRecursive<ANode>>,
}

#[test]
fn tree_root_with_dangling_parent_link_round_trips_arc() {
    // A tree whose nodes point to their parent; the root has no parent.
    let root = ArcRecursive::wrapping(ANode {
        name: "root".into(),
        parent: ArcRecursion(std::sync::Weak::new()),
        kids: vec![],
    });
    let kid = ArcRecursive::wrapping(ANode {
        name: "kid".into(),
        parent: ArcRecursion::from(&root),
        kids: vec![],
    });
    root.0.lock().unwrap().as_mut().unwrap().kids.push(kid);

    let yaml = serde_saphyr::to_string(&root).expect("serialize");
    let back: ArcRecursive<ANode> = serde_saphyr::from_str(&yaml)
        .unwrap_or_else(|e| panic!("the serializer's own output is rejected: {e}\n{yaml}"));
    let guard = back.lock().unwrap();
    let r = guard.as_ref().unwrap();
    assert!(r.parent.is_dangling());
    let kid = r.kids[0].lock().unwrap();
    assert!(kid.as_ref().unwrap().parent.upgrade().is_some_and(|p| p == back));
}
