// C18 defect 2: the miette report names a field that does not exist (`main.main`) when the
// failed field has no position of its own
//
// Run with: cargo test --offline --features garde,validator,miette --test defect_2
//
// Violated clause: "whenever it fails they return a validation error in which every reported
// field path is mapped to the position where that field's value is used in the YAML".
// The reported field path itself is corrupted: the issue is attributed to a path that is not
// the failed field (and is not a field of the type at all).
//
// Minimal input (the failed field is absent from the YAML and filled by `#[serde(default)]`):
//
//   main:
//     firstName: okay
//
//   struct Inner { first_name: String, #[serde(default)] #[garde(range(min = 1))] age_years: i32 }
//
// What the crate does: `Display` says "validation error at main.age_years: lower than 1"
// (correct path, no position), but serde_saphyr::miette::to_miette_report produces the related
// diagnostic "validation error: lower than 1 for `main.main`" (nested one level deeper it is
// `main.inner.inner`, and so on). Same for the `validator` flavour.
//
// What it should do: name the failed field (`main.age_years`), whatever position is attached.
//
// Cause: src/miette.rs build_validation_entry_diagnostic. When PathMap::search(path) finds
// nothing, it walks up the ancestors and takes `locations.search(&ancestor)` as is. `search`
// returns `(Locations, resolved_leaf)` where `resolved_leaf` is the YAML spelling of the leaf of
// the path that was *searched* - here the ancestor's leaf (`main`). That string is then passed to
// format_path_with_resolved_leaf(path_key, &resolved_leaf), which substitutes it for the leaf
// of the ORIGINAL path: `main.age_years` becomes `main.main`. The ancestor fallback must keep the
// original leaf (only the locations may come from the ancestor).
#![cfg(all(feature = "garde", feature = "validator", feature = "miette"))]

mod g {
    use garde::Validate;
    use serde::Deserialize;

    #[derive(Debug, Deserialize, Validate)]
    #[serde(rename_all = "camelCase")]
    pub struct Inner {
        #[garde(length(min = 2))]
        pub first_name: String,
        #[garde(range(min = 1))]
        #[serde(default)]
        pub age_years: i32,
    }

    #[derive(Debug, Deserialize, Validate)]
    pub struct Root {
        #[garde(dive)]
        pub main: Inner,
    }
}

mod v {
    use serde::Deserialize;
    use validator::Validate;

    #[derive(Debug, Deserialize, Validate)]
    #[serde(rename_all = "camelCase")]
    pub struct Inner {
        #[validate(length(min = 2))]
        pub first_name: String,
        #[validate(range(min = 1))]
        #[serde(default)]
        pub age_years: i32,
    }

    #[derive(Debug, Deserialize, Validate)]
    pub struct Root {
        #[validate(nested)]
        pub main: Inner,
    }
}

fn collect(d: &dyn miette::Diagnostic, out: &mut Vec<String>) {
    out.push(d.to_string());
    if let Some(related) = d.related() {
        for r in related {
            collect(r, out);
        }
    }
}

const YAML: &str = "main:\n  firstName: okay\n";

fn check(err: serde_saphyr::Error) {
    // The plain rendering names the right field.
    let plain = err.to_string();
    assert!(plain.contains("main.age_years"), "{plain}");

    let report = serde_saphyr::miette::to_miette_report(&err, YAML, "config.yaml");
    let mut messages = Vec::new();
    collect(report.as_ref(), &mut messages);
    let all = messages.join("\n");

    assert!(
        !all.contains("`main.main`"),
        "the miette report attributes the issue to a field that does not exist:\n{all}"
    );
    assert!(
        all.contains("main.age_years") || all.contains("main.ageYears"),
        "the miette report must name the failed field `main.age_years`:\n{all}"
    );
}

#[test]
fn garde_miette_report_names_the_failed_field() {
    check(serde_saphyr::from_str_valid::<g::Root>(YAML).expect_err("validation must fail"));
}

#[test]
fn validator_miette_report_names_the_failed_field() {
    check(serde_saphyr::from_str_validate::<v::Root>(YAML).expect_err("validation must fail"));
}
