// C04 defect 2: sequence / mapping keys that differ in their tag are reported as duplicates
// (collection tags are not part of the key fingerprint at all).
//
// Violated clause: "When the same key node (same STRUCTURE, scalar text AND TAG; scalar, sequence
// or mapping) occurs more than once ..." / "Mappings without repeated keys deserialize identically
// under all three policies."
//
// Minimal input:
//     ? !A [1]
//     : 1
//     ? !B [1]
//     : 2
// `!A [1]` and `!B [1]` are different nodes; the crate itself deserializes them to the different
// enum values `K::A([1])` and `K::B([1])` (LastWins test below passes). Nevertheless
//   * Error policy fails with "duplicate mapping key" at line 3 column 6,
//   * FirstWins drops the second entry.
// The same happens for tagged mapping keys (`? !a {x: 1}` / `? !b {x: 1}`).
// Expected: no duplicate, all three policies deliver both entries.
//
// Cause: src/de.rs `capture_node`: for `Ev::SeqStart { tag, raw_tag, .. }` the fingerprint is
// `KeyFingerprint::Sequence(elements)` - neither `tag` nor `raw_tag` is included; `Ev::MapStart`
// does not even carry the tag (src/live_events.rs drops it), `KeyFingerprint::Mapping(entries)`.
//
// Run: cargo test --offline --test defect_2

use serde::de::{Deserializer, MapAccess, Visitor};
use serde::Deserialize;
use serde_saphyr::{DuplicateKeyPolicy, Options};
use std::collections::BTreeMap;
use std::fmt;
use std::marker::PhantomData;

#[derive(Debug, Deserialize, PartialEq, Eq, PartialOrd, Ord, Clone)]
enum K {
    A(Vec<i32>),
    B(Vec<i32>),
}

/// Order-preserving list of pairs.
#[derive(Debug, PartialEq)]
struct Pairs<KK, V>(Vec<(KK, V)>);
impl<'de, KK: Deserialize<'de>, V: Deserialize<'de>> Deserialize<'de> for Pairs<KK, V> {
    fn deserialize<D: Deserializer<'de>>(d: D) -> Result<Self, D::Error> {
        struct Vis<KK, V>(PhantomData<(KK, V)>);
        impl<'de, KK: Deserialize<'de>, V: Deserialize<'de>> Visitor<'de> for Vis<KK, V> {
            type Value = Pairs<KK, V>;
            fn expecting(&self, f: &mut fmt::Formatter) -> fmt::Result {
                write!(f, "a mapping")
            }
            fn visit_map<A: MapAccess<'de>>(self, mut a: A) -> Result<Self::Value, A::Error> {
                let mut v = Vec::new();
                while let Some(e) = a.next_entry()? {
                    v.push(e);
                }
                Ok(Pairs(v))
            }
        }
        d.deserialize_map(Vis(PhantomData))
    }
}

fn opts(p: DuplicateKeyPolicy) -> Options {
    Options {
        duplicate_keys: p,
        ..Options::default()
    }
}

const YAML: &str = "? !A [1]\n: 1\n? !B [1]\n: 2\n";

fn expected() -> BTreeMap<K, i32> {
    let mut m = BTreeMap::new();
    m.insert(K::A(vec![1]), 1);
    m.insert(K::B(vec![1]), 2);
    m
}

#[test]
fn last_wins_shows_the_keys_are_distinct() {
    // Passes: documents that the crate itself maps the two keys to different values.
    let m: BTreeMap<K, i32> =
        serde_saphyr::from_str_with_options(YAML, opts(DuplicateKeyPolicy::LastWins)).unwrap();
    assert_eq!(m, expected());
}

#[test]
fn error_policy_must_not_report_differently_tagged_sequence_keys() {
    let r: Result<BTreeMap<K, i32>, _> =
        serde_saphyr::from_str_with_options(YAML, opts(DuplicateKeyPolicy::Error));
    assert_eq!(r.map_err(|e| e.to_string()), Ok(expected()));
}

#[test]
fn first_wins_must_not_drop_differently_tagged_sequence_key() {
    let m: BTreeMap<K, i32> =
        serde_saphyr::from_str_with_options(YAML, opts(DuplicateKeyPolicy::FirstWins)).unwrap();
    assert_eq!(m, expected());
}

#[test]
fn differently_tagged_mapping_keys() {
    let y = "? !a {x: 1}\n: 1\n? !b {x: 1}\n: 2\n";
    type T = Pairs<BTreeMap<String, i32>, i32>;
    let last: T =
        serde_saphyr::from_str_with_options(y, opts(DuplicateKeyPolicy::LastWins)).unwrap();
    assert_eq!(last.0.len(), 2);
    let first: T =
        serde_saphyr::from_str_with_options(y, opts(DuplicateKeyPolicy::FirstWins)).unwrap();
    assert_eq!(first, last, "FirstWins vs LastWins on a mapping without repeated keys");
    let err: Result<T, _> = serde_saphyr::from_str_with_options(y, opts(DuplicateKeyPolicy::Error));
    assert_eq!(err.map_err(|e| e.to_string()), Ok(last));
}
