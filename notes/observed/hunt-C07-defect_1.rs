// Defect 1 (C07): false rejection by the alias/anchor ratio heuristic when there are no anchors
//
// Violated clause: "... and never rejects an input all of whose quantities are within the
// limits" (quantity: alias/anchor ratio). The crate's own documentation of
// `Budget::alias_anchor_ratio_multiplier` / `BudgetBreach::AliasAnchorRatio` defines the breach
// as `aliases > alias_anchor_ratio_multiplier * anchors` (after scanning), once
// `aliases >= alias_anchor_min_aliases`.
//
// Minimal input: `a: 1\n` (0 aliases, 0 anchors) with
//     Budget { alias_anchor_min_aliases: 0, ..Default::default() }
// (every other limit at its generous default; multiplier 10).
//
// What the crate does: fails with
//     Error::Budget { breach: AliasAnchorRatio { aliases: 0, anchors: 0 } }
// and `check_yaml_budget` returns a report with `breached: Some(AliasAnchorRatio{0,0})`.
// 0 > 10 * 0 is false, so by the documented formula the input is within the limit.
//
// What it should do: accept the document (no aliases at all cannot be an excessive
// alias/anchor ratio).
//
// Cause: src/budget.rs, `BudgetEnforcer::finalize`:
//     && (self.report.anchors == 0 || self.report.aliases > multiplier * anchors)
// the `anchors == 0 ||` shortcut declares a breach whenever no anchor was defined, without
// looking at the number of aliases; with `alias_anchor_min_aliases == 0` the guard
// `aliases >= min_aliases` is true for `aliases == 0`, so every anchor-free input is rejected.
//
// Run: cargo test --offline --test defect_1

use serde_saphyr::budget::{check_yaml_budget, Budget, EnforcingPolicy};
use serde_saphyr::Options;

fn budget() -> Budget {
    Budget {
        alias_anchor_min_aliases: 0,
        ..Budget::default()
    }
}

#[test]
fn anchor_free_document_is_not_an_alias_anchor_ratio_breach() {
    let mut options = Options::default();
    options.budget = Some(budget());
    let r: Result<serde_json::Value, _> = serde_saphyr::from_str_with_options("a: 1\n", options);
    assert!(
        r.is_ok(),
        "a document with 0 aliases and 0 anchors was rejected: {:?}",
        r.err().map(|e| e.without_snippet().to_string())
    );
}

#[test]
fn check_yaml_budget_anchor_free_document_is_within_budget() {
    let report = check_yaml_budget("a: 1\n", budget(), EnforcingPolicy::AllContent).unwrap();
    assert_eq!(report.aliases, 0);
    assert_eq!(report.anchors, 0);
    assert!(
        report.breached.is_none(),
        "0 aliases > 10 * 0 anchors is false, yet breached = {:?}",
        report.breached
    );
}
