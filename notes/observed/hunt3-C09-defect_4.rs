// C09 defect 4 (robustness; borderline for the property as quantified - see the note below):
// a reader that reports `ErrorKind::Interrupted` between two bytes of one multi-byte character
// makes from_reader fail with "IO error: invalid UTF-8 leading byte", although the same reader
// interrupting between two characters is handled (the read is retried) and although the text is
// valid UTF-8.
//
// Violated clause: "from_reader - under every partition of the bytes into read calls, including
// splits inside a multi-byte character - return[s] the same value" as from_str. A read call that
// ends with `ErrorKind::Interrupted` transfers no bytes and, by the contract of `std::io::Read`
// ("Interrupted ... typically means the operation can be retried"), is part of an ordinary
// delivery schedule of a blocking reader (a signal arriving while the process sits in read(2));
// the documentation of from_reader promises to work with "any `std::io::Read`".
// Note: the property's quantification lists chunk-size schedules only; an interrupted read is the
// degenerate "zero bytes now, retry" element of such a schedule. The crate itself treats it as one:
// the FIRST byte of every character is read in a loop that retries on Interrupted.
//
// Minimal input: "a: é" delivered one byte per read call, with an Interrupted result before every
// successful read (so also between 0xC3 and 0xA9).
//
// What the crate does:
//   "a: b"  through that reader -> Ok({"a": "b"})           (interruptions between characters)
//   "a: é"  through that reader -> Err(IOError: invalid UTF-8 leading byte)
//   from_str("a: é")            -> Ok({"a": "é"})
// What it should do: retry the read, as it does for the first byte of a character.
//
// Cause: src/buffered_input.rs `ChunkedChars::next`. The loop that reads the first byte has
//   `Err(e) if e.kind() == io::ErrorKind::Interrupted => continue`; the loop that reads the
//   continuation bytes (`while read < needed - 1`) has only `Err(e) => { self.err.replace(Some(e));
//   return None; }`. The character is dropped half-read, the parser is told the input ended, and
//   the next call starts with the continuation byte ("invalid UTF-8 leading byte" overwrites the
//   stored Interrupted error). `BufReader` and `encoding_rs_io` in between pass Interrupted
//   through unchanged, and with a reader that delivers one byte per call the BufReader holds one
//   byte at a time, so the split is visible to `ChunkedChars`.
//
// Run: cargo test --offline --test defect_4

use std::io::{self, Read};

/// Delivers one byte per successful call; every other call reports `Interrupted`.
struct InterruptedEveryOtherCall {
    data: Vec<u8>,
    pos: usize,
    interrupt_next: bool,
}

impl InterruptedEveryOtherCall {
    fn new(text: &str) -> Self {
        Self {
            data: text.as_bytes().to_vec(),
            pos: 0,
            interrupt_next: true,
        }
    }
}

impl Read for InterruptedEveryOtherCall {
    fn read(&mut self, buf: &mut [u8]) -> io::Result<usize> {
        if self.pos >= self.data.len() || buf.is_empty() {
            return Ok(0);
        }
        let interrupt = self.interrupt_next;
        self.interrupt_next = !self.interrupt_next;
        if interrupt {
            return Err(io::Error::new(io::ErrorKind::Interrupted, "EINTR"));
        }
        buf[0] = self.data[self.pos];
        self.pos += 1;
        Ok(1)
    }
}

fn via_reader(doc: &str) -> Result<serde_json::Value, String> {
    serde_saphyr::from_reader::<_, serde_json::Value>(InterruptedEveryOtherCall::new(doc))
        .map_err(|e| e.to_string())
}

fn via_str(doc: &str) -> Result<serde_json::Value, String> {
    serde_saphyr::from_str::<serde_json::Value>(doc).map_err(|e| e.to_string())
}

#[test]
fn control_interruptions_between_characters_are_retried() {
    let doc = "a: b\nc: [1, 2]\n";
    assert_eq!(via_reader(doc), via_str(doc));
}

#[test]
fn interruption_inside_a_two_byte_character() {
    let doc = "a: é";
    assert_eq!(via_reader(doc), via_str(doc));
}

#[test]
fn interruption_inside_three_and_four_byte_characters() {
    let doc = "k: 日本語 😀\n";
    assert_eq!(via_reader(doc), via_str(doc));
}
