// DEFECT 6 (C09): from_multiple / from_slice_multiple still strip TWO leading byte-order marks,
// every other entry point (from_str, from_slice, with_deserializer_from_str, from_reader, read)
// strips one. This is the sibling of the already repaired "two BOMs" disagreement of from_str:
// the repair removed the extra strip from from_str_with_options_impl and
// with_deserializer_from_str_with_options, but left it in from_multiple_with_options.
//
// Violated clause: "For the same UTF-8 text [...] return the same value [...]; a leading
// byte-order mark is ignored by all of them" (one mark - the second U+FEFF is content, and it is
// content for from_str and for the reader entry points).
//
// Minimal input: "\u{FEFF}\u{FEFF}a: 1\n"
//
// What the crate does:
//   from_str / from_reader / read          -> {"\u{feff}a": 1}
//   from_multiple / from_slice_multiple    -> [{"a": 1}]
// What it should do: the multi-document in-memory entry points return [{"\u{feff}a": 1}] like
// `read` does for the same bytes.
//
// Cause: src/lib.rs `from_multiple_with_options` strips a BOM itself ("Normalize: ignore a single
// leading UTF-8 BOM if present") and then calls `LiveEvents::from_str`, which (src/live_events.rs)
// strips a leading BOM again.

use std::collections::BTreeMap;

#[test]
fn from_multiple_ignores_one_bom_like_everybody_else() {
    let yaml = "\u{FEFF}\u{FEFF}a: 1\n";

    let single: BTreeMap<String, i32> = serde_saphyr::from_str(yaml).unwrap();
    let mut bytes = yaml.as_bytes();
    let streamed: Vec<BTreeMap<String, i32>> =
        serde_saphyr::read(&mut bytes).collect::<Result<_, _>>().unwrap();
    assert_eq!(streamed, vec![single.clone()]);

    let multiple: Vec<BTreeMap<String, i32>> = serde_saphyr::from_multiple(yaml).unwrap();
    assert_eq!(multiple, vec![single], "from_multiple disagrees with from_str and read");
}
