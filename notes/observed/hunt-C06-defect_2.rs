// Defect 2 (property C06): string targets that are read through `deserialize_str`
// (`&str`, `#[serde(borrow)] Cow<str>`, the keys of `serde_json::Value` objects, every
// type whose Deserialize impl asks for `deserialize_str`, e.g. `std::net::IpAddr`) do not
// follow the string rules that `String` follows: the tag table, `!!binary` decoding,
// `no_schema` and the `!!str` exemption for null-likes are all skipped.
//
// Violated clauses: "A scalar is interpreted from its text, style, tag, the requested Rust
// type and the options only ... strings and `!!binary` payloads follow the documented
// tables" and "strict_booleans, no_schema, legacy_octal_numbers and
// ignore_binary_tag_for_string change acceptance only as documented" (README: with
// no_schema "all *unquoted* values that are parsed into strings, but can be understood as
// something else, are rejected"; "`!!binary`-tagged YAML values are base64-decoded when
// deserializing into `Vec<u8>` or `String`"; tests/tags.rs: `!!int 42` must not
// deserialize into a string).
//
// Minimal inputs and behaviour (String target  |  &str target):
//   `!!binary aGk=`            "hi"                         | "aGk="   (tag ignored although
//                                                             ignore_binary_tag_for_string=false)
//   `!!int 12`                 Err(tagged scalar -> string) | "12"
//   `123` with no_schema       Err(must be quoted)          | "123"
//   `!!str null`               "null"                       | Err(cannot deserialize null)
//   serde_json::Value <- `? !!binary aGk=\n: 1`  gives the key "aGk=", while the same
//   scalar in value position gives "hi".
//
// What it should do: the same as `deserialize_string` for the same scalar.
// Cause: src/de.rs `deserialize_str` only performs the null check (without the
// `tag != SfTag::String` exemption) and then hands out the raw scalar text; it lacks the
// `maybe_not_string` / `can_parse_into_string` / `SfTag::Binary` handling of
// `deserialize_string`.
//
// Run: cargo test --offline --test defect_2   (no optional features needed)

use serde::Deserialize;
use serde_json::Value;
use std::borrow::Cow;

#[derive(Debug, Deserialize)]
struct Borrowed<'a> {
    #[serde(borrow)]
    name: Cow<'a, str>,
}

#[test]
fn binary_tag_is_honoured_by_str_targets() {
    let owned: String = serde_saphyr::from_str("!!binary aGk=").unwrap();
    assert_eq!(owned, "hi");
    // &str cannot hold a decoded value, so either an error or the decoded text would be
    // consistent - the raw base64 text is not (ignore_binary_tag_for_string is false).
    let r: Result<&str, _> = serde_saphyr::from_str("!!binary aGk=");
    assert!(
        !matches!(r, Ok("aGk=")),
        "&str target ignored the !!binary tag although ignore_binary_tag_for_string=false: {r:?}"
    );
    let b: Result<Borrowed, _> = serde_saphyr::from_str("name: !!binary aGk=\n");
    match b {
        Ok(b) => assert_eq!(b.name, "hi", "borrowed Cow<str> must see the decoded payload"),
        Err(_) => {}
    }
}

#[test]
fn json_value_key_and_value_agree_on_binary() {
    let v: Value = serde_saphyr::from_str("? !!binary aGk=\n: !!binary aGk=\n").unwrap();
    let obj = v.as_object().unwrap();
    let (k, val) = obj.iter().next().unwrap();
    assert_eq!(val, &Value::String("hi".into()));
    assert_eq!(k, "hi", "the same scalar is `hi` as a value but `{k}` as a key");
}

#[test]
fn non_string_core_tag_is_rejected_by_str_targets() {
    assert!(serde_saphyr::from_str::<String>("!!int 12").is_err());
    let r: Result<&str, _> = serde_saphyr::from_str("!!int 12");
    assert!(r.is_err(), "`!!int 12` must not deserialize into a string, got {r:?}");
}

#[test]
fn no_schema_applies_to_str_targets() {
    let opts = || serde_saphyr::options! { no_schema: true };
    assert!(serde_saphyr::from_str_with_options::<String>("123", opts()).is_err());
    let r: Result<&str, _> = serde_saphyr::from_str_with_options("123", opts());
    assert!(r.is_err(), "no_schema: unquoted 123 accepted by a string target: {r:?}");
    let r: Result<Borrowed, _> = serde_saphyr::from_str_with_options("name: true\n", opts());
    assert!(r.is_err(), "no_schema: unquoted true accepted by a string target: {r:?}");
}

#[test]
fn str_tag_exempts_null_like_text_for_str_targets_too() {
    let owned: String = serde_saphyr::from_str("!!str null").unwrap();
    assert_eq!(owned, "null");
    let r: Result<&str, _> = serde_saphyr::from_str("!!str null");
    assert_eq!(r.ok(), Some("null"), "`!!str null` is the string \"null\" for String but not for &str");
}
