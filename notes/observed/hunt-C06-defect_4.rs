// Defect 4 (property C06): the float table is wider than documented (Rust-only spellings
// `inf`, `infinity`, `nan` in any letter case, with optional sign) and, worse, the untyped
// entry point REWRITES such plain strings - and finite-looking numbers that overflow f64 -
// into the strings ".inf" / "-.inf" / ".nan".
//
// Violated clause: "booleans, floats (including .inf/.nan forms), null-likes, chars,
// strings ... follow the documented tables" and "A scalar is interpreted from its text".
// Documentation: src/de.rs `deserialize_f32/f64`: "supports YAML 1.2 `+.inf`, `-.inf`,
// `.nan`"; `deserialize_any`: "Fallback: treat as string as-is", and the comment on the
// non-finite branch: "prefer returning a canonical string for NaN/+-Inf so that these values
// round-trip as strings".  `Infinity`, `nan`, `inf` are ordinary strings in YAML 1.2 (and
// YAML 1.1), e.g. a user name, a ticker, a unit (`inf` = infantry, `nan` = grandmother).
//
// Minimal inputs / behaviour:
//   serde_json::Value <- `Infinity`     => String(".inf")    expected String("Infinity")
//   serde_json::Value <- `name: nan`    => {"name": ".nan"}  expected {"name": "nan"}
//   serde_json::Value <- `-inf`         => String("-.inf")   expected String("-inf")
//   serde_json::Value <- `1e400`        => String(".inf")    (a number turned into a string
//                                          with a different text; neither the number nor "1e400")
//   f64               <- `infinity`     => Ok(inf)           not a YAML float
//   String + no_schema <- `nan`         => Err(must be quoted) although no YAML parser reads
//                                          `nan` as anything but a string
//
// Cause: src/parse_scalars.rs `parse_yaml12_float` falls back to `str::parse::<f64>()`,
// whose grammar also accepts `inf` / `infinity` / `nan` (case-insensitive, signed) and
// saturates overflowing literals to infinity; src/de.rs `deserialize_any` then replaces
// every non-finite result with a canonical `.inf` / `.nan` string instead of the
// scalar's own text.
//
// Run: cargo test --offline --test defect_4   (no optional features needed)

use serde_json::{Value, json};

#[test]
fn untyped_plain_words_keep_their_text() {
    for word in ["Infinity", "infinity", "inf", "Inf", "nan", "NaN", "-inf", "+nan"] {
        let v: Value = serde_saphyr::from_str(word).unwrap();
        assert_eq!(v, Value::String(word.to_owned()), "plain scalar `{word}` was rewritten");
    }
    let v: Value = serde_saphyr::from_str("name: nan\nunit: inf\n").unwrap();
    assert_eq!(v, json!({"name": "nan", "unit": "inf"}));
}

#[test]
fn untyped_overflowing_float_is_not_replaced_by_a_different_string() {
    let v: Value = serde_saphyr::from_str("1e400").unwrap();
    assert_ne!(
        v,
        Value::String(".inf".to_owned()),
        "`1e400` must stay a number, become an error, or keep its text - not the string \".inf\""
    );
}

#[test]
fn float_target_accepts_only_the_documented_special_forms() {
    // documented forms work
    assert!(serde_saphyr::from_str::<f64>(".inf").unwrap().is_infinite());
    assert!(serde_saphyr::from_str::<f64>("-.INF").unwrap().is_infinite());
    assert!(serde_saphyr::from_str::<f64>(".NaN").unwrap().is_nan());
    // undocumented Rust-only spellings must not
    for word in ["infinity", "Infinity", "inf", "-inf", "nan", "+NaN"] {
        let r = serde_saphyr::from_str::<f64>(word);
        assert!(r.is_err(), "`{word}` is not a YAML float but f64 target got {r:?}");
    }
}

#[test]
fn no_schema_does_not_demand_quotes_for_plain_words() {
    let opts = serde_saphyr::options! { no_schema: true };
    let r: Result<String, _> = serde_saphyr::from_str_with_options("nan", opts);
    assert_eq!(r.ok().as_deref(), Some("nan"));
}
