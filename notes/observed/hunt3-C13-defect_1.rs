// C13 defect 1: the VALUE of a composite-key entry ("? key" / ": value") that has to start on
// a new line is laid out as if it still followed the ':' on the same line.
//
// Violated clause: "For every value composed of the Serde data-model shapes - ... maps with
// string, non-string and composite keys ... nested arbitrarily - ... the emitted text is a
// single well-formed YAML document that deserializes back into an equal value of the same
// type."  Default serializer options, no wrappers.
//
// Minimal input: BTreeMap<Vec<i32>, Vec<i32>> { [1]: [3, 4] }
// The crate emits
//     ? - 1
//     :
//     - 3
//       - 4
// i.e. the first dash of the value sequence is written in column 0 (no indentation) and the
// following ones one level deeper.  The text reads back as { [1]: ["3 - 4"] } (a folded plain
// scalar) or, when the map is itself a sequence item / a struct field, as a different tree
// (`- ? - 1\n  :\n- 3` is the two-item sequence [ {[1]: null}, 3 ]) or a parse error.
// Expected: "? - 1\n:\n  - 3\n  - 4\n" (all dashes at the same, deeper column).
//
// Second manifestation, same cause: the value is a struct variant whose field holds a
// collection:   { [1]: Sv { a: {"k": 1} } }   is emitted as
//     ? - 1
//     :
//       Sv:
//         a: k: 1            <- nested "key: value" on the line of the key: not YAML
// and a sequence in the field is emitted with its first dash in column 0.
//
// Cause: src/ser.rs, MapSer::serialize_value sets `pending_inline_map = true` for the value of
// a complex key (so that `: x: 3` can stay inline).  When the value then breaks the line
// anyway the hint is not cleared:
//  * SeqSer::serialize_element: `if self.first && (!at_line_start || pending_inline_map)`
//    skips `write_indent` for the first dash although a newline was just written;
//  * serialize_struct_variant (value-position branch) does not reset `pending_inline_map`
//    (serialize_newtype_variant / serialize_tuple_variant do), so the first nested map inside
//    the variant takes the "inline after dash" path and the first nested sequence skips its
//    indentation.
//
// Run: cargo test --offline --test defect_1
use serde::{Deserialize, Serialize};
use std::collections::BTreeMap;

#[derive(Debug, Clone, PartialEq, Eq, PartialOrd, Ord, Serialize, Deserialize)]
enum En {
    Sv { a: BTreeMap<String, i32> },
    Sq { a: Vec<i32> },
}

#[derive(Debug, Clone, PartialEq, Serialize, Deserialize)]
struct Holder {
    f: BTreeMap<Vec<i32>, Vec<i32>>,
    g: i32,
}

#[test]
fn sequence_value_of_composite_key_root() {
    let mut m: BTreeMap<Vec<i32>, Vec<i32>> = BTreeMap::new();
    m.insert(vec![1], vec![3, 4]);
    let yaml = serde_saphyr::to_string(&m).unwrap();
    let back: BTreeMap<Vec<i32>, Vec<i32>> = serde_saphyr::from_str(&yaml)
        .unwrap_or_else(|e| panic!("emitted text does not read back: {e}\n{yaml}"));
    assert_eq!(back, m, "emitted:\n{yaml}");
}

#[test]
fn sequence_value_of_composite_key_in_sequence_item() {
    // Here the text is well-formed but is a DIFFERENT tree: [ {[1]: null}, 3 ].
    let mut m: BTreeMap<Vec<i32>, Vec<i32>> = BTreeMap::new();
    m.insert(vec![1], vec![3]);
    let v = vec![m];
    let yaml = serde_saphyr::to_string(&v).unwrap();
    let back: Vec<BTreeMap<Vec<i32>, Vec<i32>>> = serde_saphyr::from_str(&yaml)
        .unwrap_or_else(|e| panic!("emitted text does not read back: {e}\n{yaml}"));
    assert_eq!(back, v, "emitted:\n{yaml}");
}

#[test]
fn sequence_value_of_composite_key_in_struct_field() {
    let mut m: BTreeMap<Vec<i32>, Vec<i32>> = BTreeMap::new();
    m.insert(vec![1], vec![3]);
    let v = Holder { f: m, g: 1 };
    let yaml = serde_saphyr::to_string(&v).unwrap();
    let back: Holder = serde_saphyr::from_str(&yaml)
        .unwrap_or_else(|e| panic!("emitted text does not read back: {e}\n{yaml}"));
    assert_eq!(back, v, "emitted:\n{yaml}");
}

#[test]
fn struct_variant_value_of_composite_key_with_map_field() {
    let mut inner = BTreeMap::new();
    inner.insert("k".to_string(), 1);
    let mut m: BTreeMap<Vec<i32>, En> = BTreeMap::new();
    m.insert(vec![1], En::Sv { a: inner });
    let yaml = serde_saphyr::to_string(&m).unwrap();
    let back: BTreeMap<Vec<i32>, En> = serde_saphyr::from_str(&yaml)
        .unwrap_or_else(|e| panic!("emitted text does not read back: {e}\n{yaml}"));
    assert_eq!(back, m, "emitted:\n{yaml}");
}

#[test]
fn struct_variant_value_of_composite_key_with_sequence_field() {
    let mut m: BTreeMap<Vec<i32>, En> = BTreeMap::new();
    m.insert(vec![1], En::Sq { a: vec![7] });
    let yaml = serde_saphyr::to_string(&m).unwrap();
    let back: BTreeMap<Vec<i32>, En> = serde_saphyr::from_str(&yaml)
        .unwrap_or_else(|e| panic!("emitted text does not read back: {e}\n{yaml}"));
    assert_eq!(back, m, "emitted:\n{yaml}");
}
