// C09 defect 5 (low severity, a judgement call on "appears verbatim"): an EMPTY string scalar that
// carries a string tag but no text (`k: !!str`, `- !!str`, `? !!str`) is accepted by owned string
// targets and yields "", but is refused for borrowed string targets with
// "input does not contain value verbatim so cannot deserialize into &str". The same empty string
// written as `""` or `''` is lent. Nothing has to be transformed to obtain an empty string, and an
// empty slice of the input is the same text as the owned variant.
//
// Violated clause: "Deserializing into borrowed strings succeeds exactly when the scalar appears
// verbatim in the input and then yields the same text as the owned variant". The documented
// reasons for a refusal (src/lib.rs `from_str`: "no escape processing, folding, or other
// normalization is required"; src/de.rs `deserialize_str`: "no escape processing, folding,
// chomping/indent handling, or multi-line normalization") do not apply: the text is empty.
//
// Minimal input: `k: !!str`  into  struct S<'a> { k: &'a str }
//
// What the crate does:
//   from_str::<Owned>("k: !!str")    -> Ok(k = "")
//   from_str::<Borrowed>("k: \"\"")  -> Ok(k = "")
//   from_str::<Borrowed>("k: !!str") -> Err(CannotBorrowTransformedString, "parser returned an
//                                        owned string")
// What it should do: Ok(k = "") - an empty &str needs no backing text.
//
// Cause: saphyr-parser `Event::empty_scalar_with_anchor` builds the empty node of a tagged /
// anchored property list as `Cow::default()` (= `Cow::Owned(String::new())`); src/de.rs
// `YamlDeserializer::deserialize_str` takes every `Cow::Owned` for a transformed scalar and
// answers `Error::cannot_borrow_transformed(TransformReason::ParserReturnedOwned)` without
// looking at the (empty) text.
//
// Run: cargo test --offline --test defect_5

use serde::Deserialize;

#[derive(Debug, Deserialize, PartialEq)]
struct Borrowed<'a> {
    #[serde(borrow)]
    k: &'a str,
}

#[derive(Debug, Deserialize, PartialEq)]
struct Owned {
    k: String,
}

#[test]
fn controls() {
    assert_eq!(
        serde_saphyr::from_str::<Owned>("k: !!str").unwrap(),
        Owned { k: String::new() }
    );
    assert_eq!(
        serde_saphyr::from_str::<Borrowed>("k: \"\"").unwrap(),
        Borrowed { k: "" }
    );
    assert_eq!(
        serde_saphyr::from_str::<Borrowed>("k: !!str ''").unwrap(),
        Borrowed { k: "" }
    );
}

#[test]
fn empty_tagged_string_in_mapping_value_position() {
    let doc = "k: !!str";
    let v: Borrowed = serde_saphyr::from_str(doc)
        .unwrap_or_else(|e| panic!("owned target reads \"\" from {doc:?}, borrowed target: {e}"));
    assert_eq!(v, Borrowed { k: "" });
}

#[test]
fn empty_tagged_string_in_sequence_and_key_position() {
    let doc = "- !!str\n- x\n";
    let owned: Vec<String> = serde_saphyr::from_str(doc).unwrap();
    assert_eq!(owned, ["", "x"]);
    let v: Vec<&str> = serde_saphyr::from_str(doc)
        .unwrap_or_else(|e| panic!("owned target reads [\"\", \"x\"] from {doc:?}, borrowed target: {e}"));
    assert_eq!(v, ["", "x"]);

    let doc = "? !!str\n: v\n";
    let owned: std::collections::BTreeMap<String, String> = serde_saphyr::from_str(doc).unwrap();
    assert_eq!(owned.get(""), Some(&"v".to_string()));
    let v: std::collections::BTreeMap<&str, &str> = serde_saphyr::from_str(doc)
        .unwrap_or_else(|e| panic!("owned target reads {{\"\": \"v\"}} from {doc:?}, borrowed target: {e}"));
    assert_eq!(v.get(""), Some(&"v"));
}
