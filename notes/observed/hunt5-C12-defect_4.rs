// C12 defect 4: SpaceAfter<String> adds a line break to a plain `String` that ends in two or
// more line breaks.
//
// Violated clause: "Every string ... deserializes back ... as the identical value - strings
// character for character".
//
// Minimal input: struct { a: SpaceAfter("a\n\n".to_string()), z: 1 }, default options.
// The serializer chooses the literal style with keep chomping on its own (prefer_block_scalars,
// the user did not ask for a block scalar) and SpaceAfter then appends its cosmetic empty line:
//     a: |+
//       a
//       <indent only>
//     <empty>
//     z: 1
// Under `|+` every trailing empty line is content, so the value reads back as "a\n\n\n".
// Expected: "a\n\n" (e.g. no cosmetic line after a keep-chomped scalar, or the quoted form).
//
// The documentation of SpaceAfter warns only about the explicit wrappers ("Avoid using this
// wrapper with LitStr/LitString"); for other YAML values it promises "the extra empty line is
// cosmetic". A plain String that the serializer itself turns into `|+` is not covered by that
// warning, and `SpaceAfter<String>` is "transparent during deserialization".
//
// Cause: src/ser.rs `serialize_newtype_struct`, arm NAME_SPACE_AFTER: `self.newline()` is
// written unconditionally after the value, also when the value was just emitted by
// `serialize_str` as an auto-selected literal block with trailing_nl >= 2 (`|+`).
use serde::{Deserialize, Serialize};
use serde_saphyr::SpaceAfter;

#[derive(Serialize, Deserialize, Debug, PartialEq)]
struct Doc {
    a: SpaceAfter<String>,
    z: i32,
}

#[test]
fn space_after_does_not_change_string() {
    let doc = Doc { a: SpaceAfter("a\n\n".to_string()), z: 1 };
    let yaml = serde_saphyr::to_string(&doc).unwrap();
    let back: Doc = serde_saphyr::from_str(&yaml).unwrap();
    assert_eq!(back, doc, "yaml: {yaml:?}");
}
