// DEFECT 5 (C06): with `legacy_octal_numbers: true` the float step of the untyped inference
// (and the f32/f64 entry points) reads a `00...` octal literal as DECIMAL, so a legacy-octal
// integer that does not fit 64 bits becomes a float with a wrong value (off by orders of
// magnitude), and a `00`-literal that is not valid octal becomes a float where the same
// options make every integer target reject it.
//
// Property clauses violated:
//   "integers accept exactly the documented notations (... optional legacy octal) and yield
//    the mathematically exact value or an error when it does not fit the target width - never a
//    wrapped, saturated or truncated one" and "legacy_octal_numbers ... change acceptance only
//    as documented" (Options doc: "values starting with `00` are treated as base-8").
//   (Known and accepted: untyped integers above 64 bits become floats.  The accepted behaviour
//   is the float NEAREST to the integer, e.g. 18446744073709551616 -> 1.8446744073709552e19.
//   Here the float is a different number.)
//
// Minimal inputs, options! { legacy_octal_numbers: true }, target serde_json::Value:
//   `001777777777777777777777`  (= 2^64-1)   -> 18446744073709551615            correct
//   `002000000000000000000000`  (= 2^64)     -> 2e21      should be 1.8446744073709552e19
//                                               (or an error) - 2e21 is the DECIMAL reading
//   `-001000000000000000000001` (= -(2^63+1)) -> -1.000000000000000000001e21
//                                               should be about -9.223372036854775809e18
//   `0089`                                    -> Number(89.0) (a float)
//        while i32/u64 reject `0089` under the same options ("invalid i32": 8 and 9 are not
//        octal digits); without the option the same target gives the integer 89.
//   typed: `0012` as i32 -> 10, as f64 -> 12.0 (same scalar, same options, two values).
//
// Cause: src/de.rs `deserialize_any` tries parse_int_unsigned::<u64> / parse_int_signed::<i64>
// with `self.cfg.legacy_octal_numbers`, and when they fail (overflow or bad octal digit) falls
// through to `parse_yaml12_float` (src/parse_scalars.rs), which has no notion of the legacy
// octal option and hands the text to `str::parse::<f64>()` = decimal.
//
// Run: cargo test --offline --test defect_5

use serde_json::Value;

fn legacy() -> serde_saphyr::Options {
    serde_saphyr::options! { legacy_octal_numbers: true }
}

#[test]
fn in_range_legacy_octal_is_exact() {
    // holds: largest u64 in legacy octal
    let v: Value =
        serde_saphyr::from_str_with_options("001777777777777777777777", legacy()).unwrap();
    assert_eq!(v, Value::from(u64::MAX));
}

#[test]
fn out_of_range_legacy_octal_is_not_read_as_decimal() {
    // 0o2000000000000000000000 = 2^64
    let r = serde_saphyr::from_str_with_options::<Value>("002000000000000000000000", legacy());
    match r {
        Err(_) => {}                       // rejecting is fine
        Ok(Value::String(_)) => {}         // falling back to text is fine
        Ok(Value::Number(n)) => {
            let f = n.as_f64().unwrap();
            assert_eq!(
                f, 18446744073709551616.0,
                "legacy octal 2^64 became {f:e} (the decimal reading of the digits)"
            );
        }
        Ok(other) => panic!("unexpected {other:?}"),
    }
}

#[test]
fn negative_out_of_range_legacy_octal_is_not_read_as_decimal() {
    // -0o1000000000000000000001 = -(2^63 + 1)
    let r = serde_saphyr::from_str_with_options::<Value>("-001000000000000000000001", legacy());
    if let Ok(Value::Number(n)) = r {
        let f = n.as_f64().unwrap();
        assert_eq!(
            f, -9223372036854775809.0,
            "legacy octal -(2^63+1) became {f:e} (the decimal reading of the digits)"
        );
    }
}

#[test]
fn invalid_legacy_octal_is_not_a_float() {
    // Integer targets reject it under this option ...
    assert!(serde_saphyr::from_str_with_options::<i32>("0089", legacy()).is_err());
    assert!(serde_saphyr::from_str_with_options::<u64>("0089", legacy()).is_err());
    // ... so the untyped reading must not be a number either (and certainly not a float,
    // where the option-less reading is the integer 89).
    let v: Value = serde_saphyr::from_str_with_options("0089", legacy()).unwrap();
    assert!(
        !matches!(&v, Value::Number(n) if n.is_f64()),
        "`0089` under legacy_octal_numbers became the float {v:?}"
    );
}

#[test]
fn float_target_agrees_with_integer_target_on_legacy_octal() {
    let i: i32 = serde_saphyr::from_str_with_options("0012", legacy()).unwrap();
    assert_eq!(i, 10);
    // Either rejected, or the same number - not the decimal reading 12.0.
    if let Ok(f) = serde_saphyr::from_str_with_options::<f64>("0012", legacy()) {
        assert_eq!(f, 10.0, "`0012` is 10 for i32 but {f} for f64 under the same options");
    }
}
