// Defect 3 (property C06): an explicit `!!str` tag protects null-like text for a `String`
// target, but not for `Option<String>` and not for untyped targets.
//
// Violated clause: "A scalar is interpreted from its text, style, tag, the requested Rust
// type and the options only ... null-likes ... follow the documented tables."  The crate
// documents the rule itself: src/tags.rs "string (null key or value with this tag can be
// serialized into empty string)" and `deserialize_string` in src/de.rs exempts
// `tag == SfTag::String` from the null check, so `!!str null` -> "null", `!!str ~` -> "~",
// `!!str` (empty) -> "".
//
// Minimal inputs / behaviour:
//   String             <- `!!str null`  => Ok("null")     (as documented)
//   Option<String>     <- `!!str null`  => Ok(None)       expected Some("null")
//   Option<String>     <- `!!str ~`     => Ok(None)       expected Some("~")
//   Option<String>     <- `!!str`       => Ok(None)       expected Some("")
//   serde_json::Value  <- `!!str null`  => Ok(Null)       expected String("null")
//   BTreeMap<Option<String>, i32> <- `{!!str null: 1}` => {None: 1}, while
//   BTreeMap<String, i32> reads the same key as "null".
// The value of a field therefore changes with the wrapper type although the YAML node is
// explicitly typed as a string.
//
// Cause: src/de.rs `deserialize_option` (arm using `scalar_is_nullish_for_option`, only
// SfTag::Binary is exempted) and `deserialize_any` (`scalar_is_nullish(value, style)` is
// evaluated before the `tag == &SfTag::String` string branch).
//
// Run: cargo test --offline --test defect_3   (no optional features needed)

use serde_json::Value;
use std::collections::BTreeMap;

#[test]
fn string_target_baseline() {
    // documented behaviour that the other targets must agree with
    assert_eq!(serde_saphyr::from_str::<String>("!!str null").unwrap(), "null");
    assert_eq!(serde_saphyr::from_str::<String>("!!str ~").unwrap(), "~");
    assert_eq!(serde_saphyr::from_str::<String>("!!str").unwrap(), "");
}

#[test]
fn option_string_keeps_str_tagged_null_like_text() {
    let v: Option<String> = serde_saphyr::from_str("!!str null").unwrap();
    assert_eq!(v.as_deref(), Some("null"));
    let v: Option<String> = serde_saphyr::from_str("!!str ~").unwrap();
    assert_eq!(v.as_deref(), Some("~"));
    let v: Option<String> = serde_saphyr::from_str("!!str").unwrap();
    assert_eq!(v.as_deref(), Some(""));
}

#[test]
fn untyped_target_keeps_str_tagged_null_like_text() {
    let v: Value = serde_saphyr::from_str("!!str null").unwrap();
    assert_eq!(v, Value::String("null".into()));
    let v: Value = serde_saphyr::from_str("- !!str ~\n").unwrap();
    assert_eq!(v, serde_json::json!(["~"]));
}

#[test]
fn option_key_keeps_str_tagged_null_like_text() {
    let plain: BTreeMap<String, i32> = serde_saphyr::from_str("{!!str null: 1}").unwrap();
    assert_eq!(plain.keys().next().map(String::as_str), Some("null"));
    let opt: BTreeMap<Option<String>, i32> = serde_saphyr::from_str("{!!str null: 1}").unwrap();
    assert_eq!(opt.keys().next().cloned(), Some(Some("null".to_string())));
}
