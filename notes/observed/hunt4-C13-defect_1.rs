// Defect 1 (property C13): enum variants that carry a payload are laid out with the BLOCK
// emitters even when they sit inside a flow collection (FlowSeq / FlowMap, or anything nested
// in one), so the emitted text is not well-formed YAML / reads back as another value.
//
// Violated clause: "For every value composed of the Serde data-model shapes - ... unit /
//   newtype / tuple / struct enum variants, nested arbitrarily - ... the emitted text is a single
//   well-formed YAML document that deserializes back into an equal value of the same type."
//   (FlowSeq / FlowMap are the crate's own "simple style controls (... flow containers)",
//   src/ser.rs module doc; no restriction on their element types is documented.)
//
// Minimal inputs (default options; every option set behaves the same):
//   FlowSeq(vec![E::S { a: 1, b: 2 }])          -> "[S:\n  a: 1b: 2]\n"      (not YAML at all:
//                                                   "a: 1b: 2", line breaks inside "[ ]")
//   FlowMap({"k": E::N(1)})                      -> "{k: N: 1}\n"             (nested implicit key)
//   FlowMap({"k": E::T(1, 2)})                   -> "{k: T: [1, 2]}\n"
//   FlowSeq(vec![E::NE(Box::new(E::N(1)))])      -> "[NE:\n  N: 1]\n"
// Expected: e.g. "[{S: {a: 1, b: 2}}]", "{k: {N: 1}}", "{k: {T: [1, 2]}}", "[{NE: {N: 1}}]".
//
// Cause: src/ser.rs serialize_newtype_variant / serialize_tuple_variant /
//   serialize_struct_variant (+ StructVariantSer::serialize_field) never look at `self.in_flow`:
//   they write `Variant:` plus a deferred space / a newline and block indentation, and
//   StructVariantSer writes no ", " between fields and relies on newlines that scalars do not
//   emit in flow context (write_end_of_scalar is a no-op when in_flow > 0).
use serde::{Deserialize, Serialize};
use serde_saphyr::{FlowMap, FlowSeq};
use std::collections::BTreeMap;

#[derive(Serialize, Deserialize, PartialEq, Debug, Clone)]
enum E {
    N(i32),
    NE(Box<E>),
    T(i32, i32),
    S { a: i32, b: i32 },
}

fn roundtrip<T>(v: &T)
where
    T: Serialize + for<'de> Deserialize<'de> + PartialEq + std::fmt::Debug,
{
    let yaml = serde_saphyr::to_string(v).expect("serialization must succeed");
    match serde_saphyr::from_str::<T>(&yaml) {
        Ok(back) => assert_eq!(&back, v, "value changed; emitted text:\n{yaml}"),
        Err(e) => panic!("emitted text does not read back: {e}\nemitted text:\n{yaml}"),
    }
}

#[test]
fn struct_variant_in_flow_seq() {
    roundtrip(&FlowSeq(vec![E::S { a: 1, b: 2 }]));
}

#[test]
fn newtype_variant_as_flow_map_value() {
    let mut m = BTreeMap::new();
    m.insert("k".to_string(), E::N(1));
    roundtrip(&FlowMap(m));
}

#[test]
fn tuple_variant_as_flow_map_value() {
    let mut m = BTreeMap::new();
    m.insert("k".to_string(), E::T(1, 2));
    roundtrip(&FlowMap(m));
}

#[test]
fn nested_newtype_variant_in_flow_seq() {
    roundtrip(&FlowSeq(vec![E::NE(Box::new(E::N(1)))]));
}
