// C20 defect 5: a `Commented` wrapper around a scalar KEY of a mapping that starts after a
// sequence dash makes the document unreadable (or changes it).
//
// Violated clause: "The presentation wrappers (... inline comment ...) affect only the layout of the
// emitted document ... arbitrary comment text ... can never alter, extend or break the document";
// rustdoc of Commented: "Value with Commented wrapper will be deserialized correctly as well".
//
// Minimal input: a sequence with one mapping whose SECOND key carries a comment:
//     [ { "a": 1, Commented("b", "note"): 2 } ]      with ser_options! { indent_step: 4 }
// (any indent_step other than 2; with 2 the two columns happen to coincide)
//
// The crate writes
//     - a: 1
//         ? b # note
//       : 2
// (`?` in column 4, the keys of this mapping and the `:` line in column 2)
// The Commented key is a tuple struct for the key sink, so the entry is written in the explicit
// `? key` form - indented with `indent_step * depth` (column 4) instead of the column of the
// other keys of a mapping that starts after a dash (dash + 2), while its `:` line is aligned
// correctly. The `? b` line is read as a continuation of the plain
// scalar `1` and the reader fails ("invalid i32"; in other shapes "did not find expected key" or
// "cannot deserialize null into string"). Without the wrapper (`b: 2`) the document is fine; as the FIRST key
// (`- ? b # note`) it is fine too.
//
// NOTE: the mis-indented `? ` line is the same emitter weakness as the already recorded
// "explicit-key entries of a mapping that starts after a dash" (composite keys, C12 / C13); what
// is new here is that a pure presentation wrapper on an ordinary string key is enough to reach it.
//
// Cause: src/ser.rs, MapSer::serialize_key, arm `Err(Error::Unexpected { msg }) if msg == "non-scalar key"`:
// `self.ser.write_indent(self.depth)` ignores `self.align_after_dash`, unlike the scalar-key arm
// above it and `serialize_value` below it. (KeyScalarSink::serialize_tuple_struct rejects
// `__yaml_commented`, so a commented scalar key is treated as a non-scalar key.)
//
// Run: cargo test --offline --test defect_5

use serde::ser::{Serialize, SerializeMap, Serializer};
use serde_saphyr::{Commented, ser_options};
use std::collections::BTreeMap;

struct M;
impl Serialize for M {
    fn serialize<S: Serializer>(&self, s: S) -> Result<S::Ok, S::Error> {
        let mut m = s.serialize_map(Some(2))?;
        m.serialize_entry("a", &1)?;
        m.serialize_entry(&Commented("b", "note".to_string()), &2)?;
        m.end()
    }
}

#[test]
fn commented_key_in_map_after_dash() {
    // Reference: same options, no wrapper on the key.
    let mut plain = BTreeMap::new();
    plain.insert("a".to_string(), 1);
    plain.insert("b".to_string(), 2);
    let reference = serde_saphyr::to_string_with_options(&vec![plain.clone()], ser_options! { indent_step: 4 }).unwrap();
    assert_eq!(serde_saphyr::from_str::<Vec<BTreeMap<String, i32>>>(&reference).unwrap(), vec![plain]);

    let yaml = serde_saphyr::to_string_with_options(&vec![M], ser_options! { indent_step: 4 }).unwrap();
    let back: Vec<BTreeMap<String, i32>> = serde_saphyr::from_str(&yaml)
        .unwrap_or_else(|e| panic!("document with a commented key does not load:\n{yaml}\n{e}"));
    let mut expected = BTreeMap::new();
    expected.insert("a".to_string(), 1);
    expected.insert("b".to_string(), 2);
    assert_eq!(back, vec![expected]);
}
