// Defect 2 (property C10): when the input ends / the reader fails / the input cap is hit inside
// the NAME (or an unknown directive's parameter) of a `%` directive, reader-based
// deserialization never returns, and in the cap case it drains the whole reader.
//
// Violated clauses:
//  * "If the underlying reader reports an error ... or the configured input-byte cap is
//     exceeded at any point, reader-based deserialization returns an error"  - it does not
//     return at all (endless loop that also grows a String without bound);
//  * "it never pulls more than the cap plus a fixed buffering allowance from the reader" -
//     with max_reader_input_bytes = 1000 and the input `%AAAAAAAA...` every byte the reader is
//     willing to give is pulled (4 MB in the probe, unbounded in general).
//
// Minimal inputs:
//   (a) cap:   "%" followed by any amount of non-blank characters, cap = 1000
//   (b) fault: "%YAML 1.2\n---\na: 1\n" with the reader failing (hard error) after 3, 4 or 5 bytes
//   (c) the same happens on a clean EOF: from_reader(&b"%YAML"[..]) hangs while
//       from_str("%YAML") returns a scan error - so the reader path turns a truncated prefix
//       into a hang instead of an error.
//
// What the crate does: ChunkedChars::next stores the error / FileTooLarge in the shared cell and
// returns None; saphyr-parser's BufferedInput turns None into '\0' (`input.next().unwrap_or('\0')`)
// and keeps calling the iterator.  Scanner::scan_directive_name / the unknown-directive branch use
// Input::fetch_while_is_yaml_non_space, whose default (BufferedInput) implementation loops
// `while is_yaml_non_space(look_ch())` - '\0' IS "non space", so the loop never ends.  ChunkedChars
// is not fused: after it has reported the cap breach it goes on reading one more character from
// the reader per call, so the loop drains the reader completely (cap bypass), and at a real
// EOF / persistent error it spins forever, pushing '\0' into the directive name.
// The stored error is never looked at because no event is ever produced.
//
// What it should do: return Error::IOError (FileTooLarge / the reader's error) - or at least the
// scan error that from_str gives - after pulling at most cap + buffering allowance.
//
// Where: src/buffered_input.rs ChunkedChars::next (keeps reading after it has signalled the
// error; signals the error as a plain end of input which the parser maps to '\0'),
// together with saphyr-parser-bw input.rs fetch_while_is_yaml_non_space (default impl).
//
// The readers below panic once the loop is evident so that the worker thread ends and the test
// FAILS instead of hanging.
//
// Run: copy to tests/ and `cargo test --offline --test defect_2`

use std::io::{self, Read};
use std::sync::atomic::{AtomicUsize, Ordering};
use std::sync::{Arc, mpsc};
use std::time::Duration;

use serde_json::Value;

const CAP: usize = 1000;
/// BufReader (8 KiB) + decoder buffer (8 KiB) + snippet read-ahead (1 KiB) fit many times.
const ALLOWANCE: usize = 256 * 1024;

/// "%AAAAAAAA..." without end; counts what is pulled and gives up loudly far beyond the cap.
struct EndlessDirective {
    pos: usize,
    pulled: Arc<AtomicUsize>,
}

impl Read for EndlessDirective {
    fn read(&mut self, buf: &mut [u8]) -> io::Result<usize> {
        let total = self.pulled.load(Ordering::SeqCst);
        if total > CAP + 4 * ALLOWANCE {
            panic!("cap is {CAP} bytes but {total} bytes have been pulled from the reader");
        }
        for b in buf.iter_mut() {
            *b = if self.pos == 0 { b'%' } else { b'A' };
            self.pos += 1;
        }
        self.pulled.fetch_add(buf.len(), Ordering::SeqCst);
        Ok(buf.len())
    }
}

fn capped() -> serde_saphyr::Options {
    serde_saphyr::options! {
        budget: serde_saphyr::budget! { max_reader_input_bytes: Some(CAP) },
    }
}

/// Runs `f` on a worker thread; None = it did not come back (or the reader gave up).
fn run_with_watchdog<F>(f: F) -> Option<Result<Value, String>>
where
    F: FnOnce() -> Result<Value, serde_saphyr::Error> + Send + 'static,
{
    let (tx, rx) = mpsc::channel();
    std::thread::spawn(move || {
        let r = f().map_err(|e| e.to_string());
        let _ = tx.send(r);
    });
    rx.recv_timeout(Duration::from_secs(60)).ok()
}

#[test]
fn cap_is_honoured_inside_a_directive_name() {
    let pulled = Arc::new(AtomicUsize::new(0));
    let reader = EndlessDirective { pos: 0, pulled: pulled.clone() };
    let res = run_with_watchdog(move || serde_saphyr::from_reader_with_options(reader, capped()));
    let pulled = pulled.load(Ordering::SeqCst);
    assert!(
        pulled <= CAP + ALLOWANCE,
        "max_reader_input_bytes = {CAP}, but {pulled} bytes were pulled from the reader"
    );
    match res {
        Some(Err(_)) => {}
        other => panic!("expected an error for an input beyond the cap, got {other:?}"),
    }
}

#[test]
fn cap_is_honoured_inside_a_directive_name_iterator() {
    let pulled = Arc::new(AtomicUsize::new(0));
    let mut reader = EndlessDirective { pos: 0, pulled: pulled.clone() };
    let res = run_with_watchdog(move || {
        serde_saphyr::read_with_options::<_, Value>(&mut reader, capped())
            .next()
            .unwrap_or(Ok(Value::Null))
    });
    let pulled = pulled.load(Ordering::SeqCst);
    assert!(
        pulled <= CAP + ALLOWANCE,
        "max_reader_input_bytes = {CAP}, but {pulled} bytes were pulled from the reader"
    );
    match res {
        Some(Err(_)) => {}
        other => panic!("expected an error for an input beyond the cap, got {other:?}"),
    }
}

/// Serves `data[..fail_at]`, then fails for good.  Gives up (panics) when it is polled a million
/// times after it has reported its error.
struct FailAfter {
    data: &'static [u8],
    pos: usize,
    fail_at: usize,
    polls_after_error: usize,
}

impl Read for FailAfter {
    fn read(&mut self, buf: &mut [u8]) -> io::Result<usize> {
        if self.pos >= self.fail_at {
            self.polls_after_error += 1;
            if self.polls_after_error > 1_000_000 {
                panic!("reader polled 1000000 times after it had reported its error");
            }
            return Err(io::Error::new(io::ErrorKind::Other, "injected fault"));
        }
        let n = buf.len().min(self.fail_at - self.pos);
        buf[..n].copy_from_slice(&self.data[self.pos..self.pos + n]);
        self.pos += n;
        Ok(n)
    }
}

#[test]
fn reader_error_inside_a_directive_name_is_reported() {
    let doc: &'static [u8] = b"%YAML 1.2\n---\na: 1\n";
    for fail_at in 0..doc.len() {
        let res = run_with_watchdog(move || {
            serde_saphyr::from_reader(FailAfter { data: doc, pos: 0, fail_at, polls_after_error: 0 })
        });
        match res {
            Some(Err(_)) => {}
            Some(Ok(v)) => panic!("reader failed after {fail_at} bytes but Ok({v:?}) was returned"),
            None => panic!(
                "reader failed after {fail_at} bytes ({:?}): from_reader did not return an error, it kept \
                 polling the failed reader in an endless loop",
                String::from_utf8_lossy(&doc[..fail_at])
            ),
        }
    }
}

/// A plain slice that ends inside the directive name; gives up when polled forever at EOF.
struct EofCounting {
    data: &'static [u8],
    pos: usize,
    polls_at_eof: usize,
}

impl Read for EofCounting {
    fn read(&mut self, buf: &mut [u8]) -> io::Result<usize> {
        if self.pos >= self.data.len() {
            self.polls_at_eof += 1;
            if self.polls_at_eof > 1_000_000 {
                panic!("reader polled 1000000 times after end of input");
            }
            return Ok(0);
        }
        let n = buf.len().min(self.data.len() - self.pos);
        buf[..n].copy_from_slice(&self.data[self.pos..self.pos + n]);
        self.pos += n;
        Ok(n)
    }
}

#[test]
fn input_that_ends_inside_a_directive_name_is_an_error_like_from_str() {
    // the in-memory entry point reports the truncated directive
    assert!(serde_saphyr::from_str::<Value>("%YAML").is_err());
    let res = run_with_watchdog(|| {
        serde_saphyr::from_reader(EofCounting { data: b"%YAML", pos: 0, polls_at_eof: 0 })
    });
    match res {
        Some(Err(_)) => {}
        other => panic!("from_reader(\"%YAML\") should fail like from_str does, got {other:?} (None = never returned)"),
    }
}
