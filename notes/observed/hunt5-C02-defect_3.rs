// C02 defect 3: attaching an anchor to a node turns a readable document into the error
// "Recursive references require weak anchors" when two `RcAnchor` wrappers look at the same
// node event - e.g. an anchored tag-selected newtype variant, or an `Option` in between.
//
// Property clause violated:
//   "Attaching an anchor to a node never changes that node's own value"
//
// Minimal input (1):   - !V 5        reads as  [RcAnchor(E::V(RcAnchor(5)))]
//                      - &a !V 5     Err("Recursive references require weak anchors")
//   target: Vec<RcAnchor<E>>,  enum E { V(RcAnchor<u32>) }
// Minimal input (2):   5             reads as  RcAnchor(Some(RcAnchor(5)))
//                      &a 5          Err("Recursive references require weak anchors")
//   target: RcAnchor<Option<RcAnchor<u32>>>
// There is no alias and no recursion in either document.
//
// Cause: (1) src/de.rs `deserialize_enum`, scalar arm, `Mode::TaggedNewtype`: the tagged scalar
// is re-emitted as the payload with the tag removed but with `anchor` kept, so the enum node
// and its payload carry the same anchor id. (2) `deserialize_option` -> `visit_some(self)`
// hands the very same event on. In both cases `deserialize_newtype_struct("__yaml_rc_anchor")`
// (`peek_anchor_id` + `anchor_store::with_anchor_context`) is entered twice for one anchor id;
// src/anchors.rs `RcAnchor::deserialize` then sees `rc_anchor_reentrant(id)` (in_progress
// count > 1) with nothing stored yet and reports a recursive reference. The same holds for
// `ArcAnchor`.
//
// Run: cargo test --offline --test defect_3

use serde::Deserialize;
use serde_saphyr::RcAnchor;

#[derive(Debug, Deserialize)]
enum E {
    V(RcAnchor<u32>),
}

fn payload(e: &RcAnchor<E>) -> u32 {
    match &*e.0 {
        E::V(p) => *p.0,
    }
}

#[test]
fn anchor_on_tag_selected_variant_does_not_change_the_value() {
    let plain: Vec<RcAnchor<E>> = serde_saphyr::from_str("- !V 5\n").expect("without anchor");
    assert_eq!(payload(&plain[0]), 5);

    let anchored: Vec<RcAnchor<E>> = serde_saphyr::from_str("- &a !V 5\n")
        .unwrap_or_else(|e| panic!("the anchor mark changed the outcome: {e}"));
    assert_eq!(payload(&anchored[0]), 5);
}

#[test]
fn anchor_on_scalar_below_option_does_not_change_the_value() {
    type T = RcAnchor<Option<RcAnchor<u32>>>;
    let plain: T = serde_saphyr::from_str("5").expect("without anchor");
    assert_eq!(*plain.0.as_ref().as_ref().unwrap().0, 5);

    let anchored: T = serde_saphyr::from_str("&a 5")
        .unwrap_or_else(|e| panic!("the anchor mark changed the outcome: {e}"));
    assert_eq!(*anchored.0.as_ref().as_ref().unwrap().0, 5);
}
