// Defect 5 (property C13): a map whose keys differ only in being a string vs. a non-string
// scalar with the same text (None vs. Some("null"), 1 vs. "1", true vs. "true") is written
// correctly (`null: 1` / `"null": 2`) but cannot be read back: the reader's duplicate-key
// detection ignores whether a key scalar was quoted and reports "duplicate mapping key".
//
// Violated clause: "... maps with string, non-string and composite keys ... the emitted text is
//   a single well-formed YAML document that deserializes back into an equal value of the same
//   type."  (README "Duplicate keys": the policy "applies not just to strings but also to other
//   types" - but `null` and "null" are different keys: the writer quotes the string precisely
//   to keep them apart, and `BTreeMap<Option<String>, _>` reads each of them correctly alone.)
//
// Minimal input: BTreeMap<Option<String>, i32> { None: 1, Some("null"): 2 }
//   emitted:  null: 1\n"null": 2\n      (correct YAML, two different keys)
//   reader:   error "duplicate mapping key: null, set DuplicateKeyPolicy in Options if acceptable"
//   expected: the equal map.  With DuplicateKeyPolicy::LastWins / FirstWins an entry is
//   silently lost instead.
// Same for composite keys: { [1]: 1, ["1"]: 2 }  ("? - 1" / "? - \"1\"").
//
// Cause: src/de.rs KeyFingerprint::Scalar { value, tag } (KeyNode::fingerprint and the
//   fingerprints built while buffering sequence / mapping keys) records the scalar text and its
//   tag but not its style, so a plain `null` / `1` / `true` and the quoted strings "null" / "1" /
//   "true" get the same fingerprint.
use serde::{Deserialize, Serialize};
use std::collections::BTreeMap;

#[derive(Serialize, Deserialize, PartialEq, Eq, PartialOrd, Ord, Debug, Clone)]
#[serde(untagged)]
enum Key {
    Int(i64),
    Bool(bool),
    Str(String),
}

#[test]
fn none_and_the_string_null_are_different_keys() {
    let mut m: BTreeMap<Option<String>, i32> = BTreeMap::new();
    m.insert(None, 1);
    m.insert(Some("null".to_string()), 2);
    let yaml = serde_saphyr::to_string(&m).unwrap();
    assert_eq!(yaml, "null: 1\n\"null\": 2\n");
    let back: BTreeMap<Option<String>, i32> = serde_saphyr::from_str(&yaml)
        .unwrap_or_else(|e| panic!("does not read back: {e}\nemitted text:\n{yaml}"));
    assert_eq!(back, m);
}

#[test]
fn integer_and_string_keys_with_the_same_text() {
    let mut m: BTreeMap<Key, i32> = BTreeMap::new();
    m.insert(Key::Int(1), 1);
    m.insert(Key::Str("1".to_string()), 2);
    m.insert(Key::Bool(true), 3);
    m.insert(Key::Str("true".to_string()), 4);
    let yaml = serde_saphyr::to_string(&m).unwrap();
    let back: BTreeMap<Key, i32> = serde_saphyr::from_str(&yaml)
        .unwrap_or_else(|e| panic!("does not read back: {e}\nemitted text:\n{yaml}"));
    assert_eq!(back, m);
}

#[test]
fn composite_keys_that_differ_in_quoting() {
    let mut m: BTreeMap<Vec<Key>, i32> = BTreeMap::new();
    m.insert(vec![Key::Int(1)], 1);
    m.insert(vec![Key::Str("1".to_string())], 2);
    let yaml = serde_saphyr::to_string(&m).unwrap();
    let back: BTreeMap<Vec<Key>, i32> = serde_saphyr::from_str(&yaml)
        .unwrap_or_else(|e| panic!("does not read back: {e}\nemitted text:\n{yaml}"));
    assert_eq!(back, m);
}
