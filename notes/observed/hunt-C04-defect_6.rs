// C04 defect 6: a repeated EMPTY key is not detected when one of the occurrences carries an anchor.
//
// Violated clause: "When the same key node (same structure, scalar text and tag ...) occurs more
// than once among a mapping's own entries, the Error policy fails with a duplicate-key error
// located at the repeated key, FirstWins gives the result of the document with every later entry
// ... deleted".
//
// Minimal input (block form; flow form `{ &a : 1, : 2 }` behaves the same):
//     ? &a
//     : 1
//     ?
//     : 2
// Both keys are the empty plain scalar without tag (the null key); an anchor is a serialization
// detail, not part of the node's content (YAML 1.2 §3.2.2.2), and the crate agrees elsewhere:
// `&x a: 1` / `&y a: 2` IS reported as a duplicate, and so is `? &a` / `? &b` and `?` / `?`.
// What the crate does here: all three policies return Ok; `BTreeMap<Option<String>, i32>` is
// {None: 2} under Error (no error, silent overwrite) and under FirstWins (should be {None: 1}); an
// order-preserving target receives the null key twice under every policy.
// Expected: Error -> duplicate-key error at line 3; FirstWins -> {None: 1}.
//
// Cause: the fingerprint takes the event text verbatim (src/de.rs `KeyNode::fingerprint`,
// `KeyFingerprint::Scalar { value: value.to_string(), tag }`), but the parser reports an omitted
// node as the plain scalar "~" when it has no properties and as the plain scalar "" when it has an
// anchor (saphyr-parser `Event::empty_scalar` vs `empty_scalar_with_anchor`; passed through
// unchanged by src/live_events.rs). "~" != "" => `MA::next_key_seed` sees two different keys.
//
// Run: cargo test --offline --test defect_6

use serde_saphyr::{DuplicateKeyPolicy, Options};
use std::collections::BTreeMap;

fn opts(p: DuplicateKeyPolicy) -> Options {
    Options {
        duplicate_keys: p,
        ..Options::default()
    }
}

type M = BTreeMap<Option<String>, i32>;
const YAML: &str = "? &a\n: 1\n?\n: 2\n";

#[test]
fn error_policy_must_reject_repeated_empty_key() {
    let r: Result<M, _> = serde_saphyr::from_str_with_options(YAML, opts(DuplicateKeyPolicy::Error));
    let e = r.expect_err("the empty (null) key occurs twice");
    assert!(e.to_string().contains("duplicate mapping key"), "{e}");
    assert_eq!(e.location().map(|l| l.line()), Some(3));
}

#[test]
fn first_wins_must_keep_the_first_entry() {
    let m: M = serde_saphyr::from_str_with_options(YAML, opts(DuplicateKeyPolicy::FirstWins)).unwrap();
    assert_eq!(m.get(&None), Some(&1));
}

#[test]
fn flow_form() {
    let r: Result<M, _> =
        serde_saphyr::from_str_with_options("{ &a : 1, : 2 }", opts(DuplicateKeyPolicy::Error));
    assert!(r.is_err(), "got {:?}", r);
}

#[test]
fn controls_anchor_is_otherwise_ignored_and_empty_keys_are_otherwise_detected() {
    // All pass.
    for y in ["&x a: 1\n&y a: 2\n", "? &a\n: 1\n? &b\n: 2\n", "?\n: 1\n?\n: 2\n"] {
        let r: Result<BTreeMap<Option<String>, i32>, _> =
            serde_saphyr::from_str_with_options(y, opts(DuplicateKeyPolicy::Error));
        assert!(r.is_err(), "{y:?}");
    }
}
