// Defect 5 (C16): for input that uses a bare CR as a line break together with LF breaks, the
// rendered error (Display / Error::render(), snippets are on by default) shows the WRONG source
// line under the reported position: line numbers of the location count CR, CRLF and LF breaks
// (as the YAML parser does), the snippet renderer splits the text at '\n' only.
//
// Violated clause: "Every location reported for in-memory input ... its line, column, character
// offset and byte offset all denote the same position of the text" - quantified over "CRLF / CR /
// LF breaks". Error::location() itself is consistent (3:4, offset 13, byte 13 = the `x`), but the
// report that is printed for that location presents a different line as "line 3" and puts the
// caret under a different node.
//
// Minimal input (struct { a, b, c, d: i32 }):  "a: 1\rb: 2\nc: x\nd: 4\n"
//
// What the crate does:
//     error: line 3 column 4: invalid i32
//      --> <input>:3:4
//       |
//     1 | a: 1?b: 2
//     2 | c: x
//     3 | d: 4
//       |    ^ invalid i32
// i.e. the caret is under the valid `4` of `d: 4`; the offending `c: x` is shown as line 2.
// (With CR-only input the renderer finds no line 3 and silently drops the snippet; with CRLF it
// is right.)
// What it should do: show `c: x` as line 3 with the caret under `x` (treat a bare CR as the line
// break the location's line number was computed with), or fall back to the plain message.
//
// Cause: src/de/snippet.rs line_starts() / line_col_to_byte_offset_with_starts() (and the window
// cropping loops, which look for '\n' and merely strip a trailing '\r'): rows are located by
// (line, column) counted over '\n' only, while Location::line comes from saphyr-parser's Marker,
// which starts a new line at a bare '\r' too. The byte offset that the Location already carries
// is not used to find the row.
//
// Run: cargo test --offline --test defect_5

use serde::Deserialize;

#[derive(Debug, Deserialize)]
#[allow(dead_code)]
struct S {
    a: i32,
    b: i32,
    c: i32,
    d: i32,
}

#[test]
fn snippet_shows_the_line_of_the_reported_location() {
    let yaml = "a: 1\rb: 2\nc: x\nd: 4\n";
    let err = serde_saphyr::from_str::<S>(yaml).unwrap_err();

    // The location itself is right and self-consistent.
    let loc = err.location().unwrap();
    assert_eq!((loc.line(), loc.column()), (3, 4));
    assert_eq!(loc.span().offset(), 13);
    assert_eq!(loc.span().byte_offset(), Some(13));
    assert_eq!(&yaml[13..14], "x");

    // The rendered report must present the same position.
    let rendered = err.to_string();
    let lines: Vec<&str> = rendered.lines().collect();
    if let Some(caret_idx) = lines.iter().position(|l| l.contains('^')) {
        let shown = lines[caret_idx - 1];
        assert!(
            shown.contains("c: x"),
            "the caret for line 3 column 4 is drawn under {shown:?}, not under `c: x`:\n{rendered}"
        );
    }
}
