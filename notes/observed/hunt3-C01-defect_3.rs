// DEFECT 3 - nested merge values (`<<:` whose value again contains `<<:` ...) are captured again
// at every level: memory = nesting depth x nodes x ~360 bytes (and time = depth^2 x nodes). A
// 50 KB document allocates ~180 MB; a document inside the DEFAULT budget (depth <= 2000,
// merge keys <= 10 000, nodes <= 250 000; ~2.5 MB of text) needs tens of gigabytes and hours,
// i.e. in practice the process is killed on allocation failure or never comes back.
//
//     cargo test --offline --test defect_3            (no optional feature needed; Linux: reads
//                                                      VmHWM / VmRSS from /proc/self/status)
//
// Violated clause (property C01): "returns either a value or an error value: it never panics,
// never aborts the process ... and always terminates" - for every input while the default
// budget is in force. All budget counters stay far below their limits here.
//
// Not one of the known items: no anchor / alias is involved (so it is not the "nested anchored
// containers" recording cost), no explicit `?` key, no validation path recorder.
//
// Minimal input (shape):
//
//     <<:
//      <<:
//       <<:
//        ...                         (D levels)
//          {k0: 1, k1: 1, k2: 1, ...}    (N entries)
//
// read as `HashMap<String, u8>` (any map / struct target does).
//
// What the crate does: `MA::next_key_seed` (src/de.rs `deserialize_map`) sees the merge key and
// calls `pending_entries_from_live_events`, which `capture_node`s the *whole* merge value (a
// vector of all its events plus a `KeyFingerprint` tree that owns a `String` copy of every
// scalar), then runs `pending_entries_from_events` -> `collect_entries_from_map` on a
// `ReplayEvents` over that vector. The nested `<<` in there calls
// `pending_entries_from_live_events` again, which `capture_node`s the whole nested value out of
// the parent's replay buffer (`ReplayEvents::next` leaves an `Ev::Taken` placeholder of the same
// size behind, and the parent's captured node - events and fingerprint - stays alive until the
// nested call returns), and so on: D captured copies of the N-entry subtree are alive at once.
// `capture_node` of a nested node also re-copies the child's events into the parent's vector at
// every level, which makes the time depth^2 x nodes. Measured (release build):
//     depth  50, 10 000 entries,  90 KB -> 192 MB, 0.5 s
//     depth 100, 10 000 entries,  94 KB -> 365 MB, 1.7 s
//     depth 200, 10 000 entries, 110 KB -> 724 MB, 5.8 s
//     depth 100, 20 000 entries, 194 KB -> 711 MB, 4.1 s
// At the limits of `Budget::default()` (max_depth 2000, max_nodes 250 000) that is
// 2000 x 120 000 x 360 B = over 80 GB.
//
// What it should do: expand the merge in memory proportional to the input (one captured copy),
// or reject the document through the budget.
//
// Where: src/de.rs `pending_entries_from_live_events` (`let mut node = capture_node(ev)?;` kept
// alive across the recursive `pending_entries_from_events`), `collect_entries_from_map`,
// `capture_node` (fingerprint + `events.extend(child_events)` per level).

use std::collections::HashMap;

fn status_kb(field: &str) -> usize {
    let status = std::fs::read_to_string("/proc/self/status").expect("/proc/self/status");
    status
        .lines()
        .find(|l| l.starts_with(field))
        .and_then(|l| l.split_whitespace().nth(1))
        .and_then(|v| v.parse().ok())
        .expect("field in /proc/self/status")
}

/// `depth` nested merge keys, `entries` entries in the innermost mapping.
fn document(depth: usize, entries: usize) -> String {
    let mut s = String::new();
    for i in 0..depth {
        for _ in 0..i {
            s.push(' ');
        }
        s.push_str("<<:\n");
    }
    for _ in 0..depth {
        s.push(' ');
    }
    s.push('{');
    for i in 0..entries {
        if i > 0 {
            s.push(',');
        }
        s.push_str(&format!("k{i}: 1"));
    }
    s.push_str("}\n");
    s
}

#[test]
fn nested_merges_need_memory_proportional_to_the_input() {
    // 100 levels, 5 000 entries: 49 KB of YAML; depth 101 of 2000, 100 merge keys of 10 000,
    // 10 101 nodes of 250 000.
    let yaml = document(100, 5_000);
    assert!(yaml.len() < 64 * 1024);

    let handle = std::thread::Builder::new()
        .stack_size(256 << 20) // this test is about the heap, not about the stack cost per level
        .spawn(move || {
            // control: the innermost mapping merged once - same entries, same result
            let flat = document(1, 5_000);
            let before_control = status_kb("VmHWM:");
            let m: HashMap<String, u8> = serde_saphyr::from_str(&flat).expect("valid YAML");
            assert_eq!(m.len(), 5_000);
            drop(m);
            let control_kb = status_kb("VmHWM:").saturating_sub(before_control);

            let rss_before = status_kb("VmRSS:");
            let hwm_before = status_kb("VmHWM:");
            let started = std::time::Instant::now();
            let m: HashMap<String, u8> = serde_saphyr::from_str(&yaml).expect("valid YAML");
            let elapsed = started.elapsed();
            let hwm_after = status_kb("VmHWM:");
            assert_eq!(m.len(), 5_000);
            let grown_kb = hwm_after.saturating_sub(hwm_before.max(rss_before));
            (yaml.len(), control_kb, grown_kb, elapsed)
        })
        .unwrap();
    let (input_len, control_kb, grown_kb, elapsed) = handle.join().unwrap();
    eprintln!(
        "input {} KB; one merge level raised the peak RSS by {} KB; 100 nested levels by {} KB in {:?}",
        input_len / 1024,
        control_kb,
        grown_kb,
        elapsed
    );
    // 100 x the size of the input is a very generous bound for "proportional to the input".
    assert!(
        grown_kb * 1024 < 100 * input_len,
        "reading a {} KB document allocated {} MB (every nested `<<` captures its whole value again)",
        input_len / 1024,
        grown_kb / 1024
    );
}
