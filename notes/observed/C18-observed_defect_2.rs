//! Observed on the UNCHANGED crate (run with `--features garde,validator,miette,robotics`).
//! This test FAILS on the unchanged worktree.
//!
//! Property C18 says every reported field path is mapped to the position where the field's
//! value is used. For a `#[serde(flatten)]`-ed validated struct the validation path has the
//! Rust field name as an extra segment (`common.port`) while the YAML (and therefore the path
//! recorder in src/de.rs) only sees `port`; `PathMap::search` (src/path_map.rs) requires equal
//! length, so the issue is reported without any position, for both validation crates.
//! (Flattened structs are outside the family of types the property is quantified over;
//! reported because the statement itself says "every".)
#![cfg(all(feature = "garde", feature = "validator"))]

use serde::Deserialize;

const YAML: &str = "name: svc\nport: 0\n";

#[test]
fn garde_flattened_field_is_located() {
    use garde::Validate;
    #[derive(Debug, Deserialize, Validate)]
    struct Common {
        #[garde(range(min = 1))]
        port: u32,
    }
    #[derive(Debug, Deserialize, Validate)]
    struct Service {
        #[garde(length(min = 1))]
        name: String,
        #[serde(flatten)]
        #[garde(dive)]
        common: Common,
    }
    let err = serde_saphyr::from_str_valid::<Service>(YAML).expect_err("must fail validation");
    let rendered = err.to_string();
    assert!(
        rendered.contains("line 2 column 7") || rendered.contains("line 2, column 7"),
        "`port` is used at line 2 column 7, got: {rendered}"
    );
}

#[test]
fn validator_flattened_field_is_located() {
    use validator::Validate;
    #[derive(Debug, Deserialize, Validate)]
    struct Common {
        #[validate(range(min = 1))]
        port: u32,
    }
    #[derive(Debug, Deserialize, Validate)]
    struct Service {
        #[validate(length(min = 1))]
        name: String,
        #[serde(flatten)]
        #[validate(nested)]
        common: Common,
    }
    let err =
        serde_saphyr::from_str_validate::<Service>(YAML).expect_err("must fail validation");
    let rendered = err.to_string();
    assert!(
        rendered.contains("line 2 column 7") || rendered.contains("line 2, column 7"),
        "`port` is used at line 2 column 7, got: {rendered}"
    );
}
