// Observed on the UNCHANGED crate (property C19, clause "ordinary float literals keep exactly
// the value they have without the extension"). NEEDS feature `robotics`:
//   cargo test --features garde,validator,miette,robotics --test observed_defect_1
//
// Without angle_conversions parse_yaml12_float trims the scalar with str::trim(), which strips
// every Unicode White_Space character (U+00A0, U+2003, U+0085, U+000B, U+000C ...), and then
// parses "1.5". With angle_conversions on, the fast path and Parser::skip_ws only know
// ' ', '\t', '\n', '\r', so the very same scalar is rejected ("expected number, constant,
// function, or '('" / "unexpected trailing characters"). A float literal that reads as 1.5 with
// the option off becomes an error once the option is switched on.
// This test FAILS on the unchanged worktree.
#![cfg(feature = "robotics")]

use serde::Deserialize;
use serde_saphyr::from_str_with_options;

#[derive(Debug, Deserialize)]
struct F64 {
    x: f64,
}

fn read(scalar: &str, on: bool) -> Result<u64, String> {
    let yaml = format!("x: {scalar}\n");
    let options = serde_saphyr::options! { angle_conversions: on };
    from_str_with_options::<F64>(&yaml, options)
        .map(|v| v.x.to_bits())
        .map_err(|e| e.to_string())
}

#[test]
fn unicode_whitespace_around_a_float_literal_on_vs_off() {
    let mut bad = Vec::new();
    for s in [
        "\u{a0}1.5",            // plain scalar starting with NBSP
        "\"\u{a0}1.5\"",        // quoted, NBSP before
        "\"1.5\u{2003}\"",      // quoted, EM SPACE after
        "\"1.5\\f\"",           // form feed (escape)
        "\"\\v1.5\"",           // vertical tab (escape)
        "\"\\N1.5\"",           // U+0085 next line (escape)
    ] {
        let off = read(s, false);
        let on = read(s, true);
        assert_eq!(off, Ok(1.5f64.to_bits()), "option off reads {s:?} as 1.5");
        if on != off {
            bad.push(format!("{s:?}: off={off:?} on={on:?}"));
        }
    }
    assert!(bad.is_empty(), "value changed by switching the option on:\n{}", bad.join("\n"));
}
