// C04 defect 3: a repeated key is NOT detected when the same tag is spelled once as shorthand and
// once verbatim (`!!str x` / `!<tag:yaml.org,2002:str> x`).
//
// Violated clause: "When the same key node (same structure, scalar text and tag ...) occurs more
// than once among a mapping's own entries, the Error policy fails with a duplicate-key error
// located at the repeated key, FirstWins gives the result of the document with every later entry
// ... deleted".
//
// Minimal input:
//     !!str x: 1
//     !<tag:yaml.org,2002:str> x: 2
// `!!str` is by definition (YAML 1.2 §6.8.2 / §6.9.1) the shorthand of the verbatim tag
// `!<tag:yaml.org,2002:str>`: both keys are the node (tag:yaml.org,2002:str, "x").
// What the crate does: all three policies return Ok; a `BTreeMap<String, i32>` ends up as
// {"x": 2} under Error (no error, silent overwrite) and under FirstWins (should be {"x": 1}).
// (With `%TAG !e! tag:yaml.org,2002:` and `!e!str x` the duplicate IS detected, so the crate does
// intend to compare resolved tags.)
//
// Cause: src/tags.rs `SfTag::from_optional_cow` looks up `Tag::to_string()`; for the verbatim form
// the parser yields handle "" + suffix "tag:yaml.org,2002:str", printed as
// "!tag:yaml.org,2002:str", which is not in TAG_LOOKUP_MAP => `SfTag::Other`, while `!!str` gives
// `SfTag::String`. `KeyFingerprint::Scalar { value, tag }` (src/de.rs) therefore differs for the
// two spellings and `MA::next_key_seed` does not see a duplicate.
//
// Run: cargo test --offline --test defect_3

use serde_saphyr::{DuplicateKeyPolicy, Options};
use std::collections::BTreeMap;

fn opts(p: DuplicateKeyPolicy) -> Options {
    Options {
        duplicate_keys: p,
        ..Options::default()
    }
}

const YAML: &str = "!!str x: 1\n!<tag:yaml.org,2002:str> x: 2\n";

#[test]
fn error_policy_must_reject_same_tag_in_two_spellings() {
    let r: Result<BTreeMap<String, i32>, _> =
        serde_saphyr::from_str_with_options(YAML, opts(DuplicateKeyPolicy::Error));
    let e = r.expect_err("key (tag:yaml.org,2002:str, \"x\") occurs twice");
    assert!(e.to_string().contains("duplicate mapping key"), "{e}");
    assert_eq!(e.location().map(|l| l.line()), Some(2));
}

#[test]
fn first_wins_must_keep_the_first_entry() {
    let m: BTreeMap<String, i32> =
        serde_saphyr::from_str_with_options(YAML, opts(DuplicateKeyPolicy::FirstWins)).unwrap();
    assert_eq!(m.get("x"), Some(&1));
}

#[test]
fn control_tag_handle_spelling_is_detected() {
    // Passes: the same tag reached through a %TAG handle is recognised as the same key.
    let y = "%TAG !e! tag:yaml.org,2002:\n---\n!e!str x: 1\n!!str x: 2\n";
    let r: Result<BTreeMap<String, i32>, _> =
        serde_saphyr::from_str_with_options(y, opts(DuplicateKeyPolicy::Error));
    assert!(r.is_err());
}
