// Defect 4 (C07): under per-document enforcement the report's `documents` is always 0 (and
// the report describes only the last document)
//
// Violated clause: "the usage report handed to the callback equals an independent count of the
// parser's event stream plus replayed events" (quantity: documents). BudgetReport::documents is
// documented as "Total number of YAML documents in the stream", and `BudgetReport::reset`
// (called at each document start under PerDocument) says it "Resets all fields except
// "breached" and document count" - i.e. the document count is meant to survive the resets.
//
// Minimal input: the stream `a\n---\n[b, c, d]\n---\ne\n` read with
// `serde_saphyr::read_with_options` (the streaming iterator, EnforcingPolicy::PerDocument), or
// `check_yaml_budget(stream, budget, EnforcingPolicy::PerDocument)`.
//
// What the crate does: all three documents are yielded, then the callback receives
//     BudgetReport { documents: 0, events: 3, nodes: 1, total_scalar_bytes: 1, .. }
// i.e. zero documents for a three-document stream. An independent count of DocumentStart events
// of the parser gives 3 (and `from_multiple_with_options` on the same text reports 3).
//
// What it should do: report documents == 3 (the limit max_documents is documented as ignored
// under per-document enforcement, the usage figure is not).
//
// Cause: src/budget.rs `BudgetEnforcer::observe`, arm `Event::DocumentStart`: the increment
// `self.report.documents += 1` sits in the `else` branch that is only taken for
// `EnforcingPolicy::AllContent`; under `PerDocument` documents are never counted.
//
// Run: cargo test --offline --test defect_4

use saphyr_parser::{Event, Parser};
use serde_saphyr::budget::{check_yaml_budget, Budget, BudgetReport, EnforcingPolicy};
use serde_saphyr::Options;
use std::cell::RefCell;
use std::rc::Rc;

const STREAM: &str = "a\n---\n[b, c, d]\n---\ne\n";

fn independent_document_count(yaml: &str) -> usize {
    Parser::new_from_str(yaml)
        .filter(|item| matches!(item, Ok((Event::DocumentStart(_), _))))
        .count()
}

#[test]
fn streaming_iterator_reports_the_number_of_documents() {
    let sink: Rc<RefCell<Vec<BudgetReport>>> = Rc::new(RefCell::new(Vec::new()));
    let cb_sink = sink.clone();
    let options = Options::default().with_budget_report(move |r| cb_sink.borrow_mut().push(r));
    let mut reader = std::io::Cursor::new(STREAM.as_bytes().to_vec());
    let docs: Vec<serde_json::Value> = serde_saphyr::read_with_options(&mut reader, options)
        .map(|r| r.unwrap())
        .collect();
    assert_eq!(docs.len(), 3);
    assert_eq!(independent_document_count(STREAM), 3);
    let reports = sink.borrow();
    assert_eq!(reports.len(), 1);
    assert_eq!(
        reports[0].documents,
        independent_document_count(STREAM),
        "report: {:?}",
        reports[0]
    );
}

#[test]
fn check_yaml_budget_per_document_reports_the_number_of_documents() {
    let report = check_yaml_budget(STREAM, Budget::default(), EnforcingPolicy::PerDocument).unwrap();
    assert_eq!(report.documents, 3, "report: {report:?}");
}
