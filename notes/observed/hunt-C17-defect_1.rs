// C17 defect 1: `Options::with_snippet = false` is ignored by `from_reader_with_options`
//
// Violated: the property is quantified over "snippet on / off ... x string and reader entry
//   points", and the crate's own documentation of `Options::with_snippet` says
//   "If true (default), public APIs that have access to the original YAML input will wrap
//    returned errors with a snippet wrapper" - i.e. with `false` no API wraps / renders a snippet
//   ("shows at most the documented window": with snippets switched off the window is empty).
//
// Minimal input: "x: 1\ny: zzz\n" into `struct P { x: i32, y: i32 }`,
//   options! { with_snippet: false } (crop_radius left at its default).
//
// What the crate does: `from_str_with_options` returns the bare error and renders
//   "invalid i32 at line 2, column 4"; `from_reader_with_options` with the very same options
//   returns `Error::WithSnippet { .. }` and renders the full rustc-like report
//       error: line 2 column 4: invalid i32
//        --> <input>:2:4
//         |
//       1 | x: 1
//       2 | y: zzz
//         |    ^ invalid i32
//
// What it should do: honour `with_snippet: false` on the reader entry point as well (plain
//   message with location suffix, no source lines).
//
// Cause: src/lib.rs, `from_reader_with_options`: the `attach_snippet` closure only tests
//   `crop_radius == 0` and never looks at `options.with_snippet` (the string entry points go
//   through `maybe_with_snippet`, which tests both).
//
// Run: cargo test --offline --test defect_1

use serde::Deserialize;

#[derive(Debug, Deserialize)]
#[allow(dead_code)]
struct P {
    x: i32,
    y: i32,
}

#[test]
fn reader_entry_point_honours_with_snippet_false() {
    let yaml = "x: 1\ny: zzz\n";

    let opts = serde_saphyr::options! { with_snippet: false };
    let from_str = serde_saphyr::from_str_with_options::<P>(yaml, opts).unwrap_err();
    let plain = from_str.to_string();
    assert!(
        !plain.contains(" | "),
        "string entry point, snippets off: no source lines expected, got:\n{plain}"
    );

    let opts = serde_saphyr::options! { with_snippet: false };
    let from_reader =
        serde_saphyr::from_reader_with_options::<_, P>(std::io::Cursor::new(yaml.as_bytes()), opts)
            .unwrap_err();
    let rendered = from_reader.to_string();

    assert!(
        !rendered.contains("y: zzz") && !rendered.contains(" | "),
        "with_snippet: false, but the reader entry point rendered source lines:\n{rendered}"
    );
    assert_eq!(rendered, plain);
    assert!(
        !matches!(from_reader, serde_saphyr::Error::WithSnippet { .. }),
        "with_snippet: false, but from_reader_with_options returned a snippet wrapper"
    );
}
