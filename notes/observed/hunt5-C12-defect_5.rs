// C12 defect 5: indent_step = 1 - a scalar inside a mapping that is the value of a key of a
// mapping that starts inline after a sequence dash does not read back (it moves into the
// parent mapping, or the document is rejected).
//
// Violated clause: "Every string ... serialized in any position (... sequence item, mapping
// value ...) under any valid serializer options, deserializes back ... as the identical value"
// (indent_step = 1 is a valid option: only 0 is refused by SerializerOptions::consistent).
//
// Minimal input: vec![ {"o": {"k": "v"}} ] (Vec<BTreeMap<String, BTreeMap<String, String>>>),
// ser_options!{ indent_step: 1 }.
// The crate writes
//     - o:
//       k: v            <- `k` in the SAME column (2) as its parent key `o`
// so `k: v` is a second entry of the outer mapping and `o` is null: the typed reader fails
// ("unexpected event: expected mapping start"), an untyped reader silently gets
// [{"o": null, "k": "v"}]. With a struct, `- a:\n  a: x\n  z: 2\n  z: 1` -> "missing field".
// Expected: the nested keys strictly right of column 2 (e.g. column 3).
//
// This is NOT the listed "indent_step=1: a struct variant inside a sequence item" case (no
// enum is involved, the code path is serialize_map), but it has the same origin: the keys of
// a mapping that starts after "- " sit at dash column + 2, while nested nodes are placed at
// indent_step * depth. Cause: src/ser.rs `serialize_map` (block branch): for a mapping in
// value position `depth_next = current_map_depth + 1`, written with `write_indent(depth)` =
// indent_step * depth columns = 1 * 2 = 2, equal to the column of the after-dash keys
// (MapSer::serialize_key, `align_after_dash`: indent_step * (depth - 1) + 2 = 2).
use serde_saphyr::ser_options;
use std::collections::BTreeMap;

#[test]
fn nested_mapping_in_sequence_item_indent_step_1() {
    let mut inner = BTreeMap::new();
    inner.insert("k".to_string(), "v".to_string());
    let mut outer = BTreeMap::new();
    outer.insert("o".to_string(), inner);
    let v = vec![outer];
    let yaml = serde_saphyr::to_string_with_options(&v, ser_options! { indent_step: 1 }).unwrap();
    let back: Vec<BTreeMap<String, BTreeMap<String, String>>> = serde_saphyr::from_str(&yaml)
        .unwrap_or_else(|e| panic!("output does not read back: {e}\n{yaml:?}"));
    assert_eq!(back, v, "yaml: {yaml:?}");
}
