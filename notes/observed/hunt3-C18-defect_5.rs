// C18 defect 5: an issue in a sequence of structs that is read into a set is mapped to the
// position of a DIFFERENT (valid) element
//
// Run with: cargo test --offline --features garde,validator --test defect_5
//
// Violated clause: "every reported field path is mapped to the position where that field's
// value is used in the YAML" - the position that is reported belongs to another value.
//
// Minimal input:
//
//   people:
//     - firstName: zz      # valid
//     - firstName: a       # invalid (too short)
//
//   struct Root { #[garde(dive)] people: BTreeSet<Person> }       // Person: Ord, length(min = 2)
//
// What the crate does: "validation error at people[0].firstName: length is lower than 2
// at line 2, column 16", and the snippet puts the caret under `zz` - a value that is valid.
// The invalid value `a` is at line 3, column 16.
//
// What it should do: point at line 3, column 16 (or, if it cannot know, report the issue
// without a position); it must not present the position of a valid value as the failed one.
//
// Cause: the path recorder (src/de.rs deserialize_seq, `SA::idx`) numbers sequence elements in
// YAML order, garde / validator number the elements of `BTreeSet` / `HashSet` / `BinaryHeap`
// in the collection's ITERATION order (garde src/validate.rs impl_validate_list!, validator
// src/traits.rs impl_validate_list!). PathMap::search (src/path_map.rs) compares index
// segments textually (`PathKind::Index => ts == cs`), so `people[0]` of the sorted set
// ("a") is looked up as `people[0]` of the YAML ("zz").
#![cfg(all(feature = "garde", feature = "validator"))]

use serde_saphyr::{DefaultMessageFormatter, RenderOptions, SnippetMode};

mod g {
    use garde::Validate;
    use serde::Deserialize;
    use std::collections::BTreeSet;

    #[derive(Debug, Deserialize, Validate, PartialEq, Eq, PartialOrd, Ord)]
    #[serde(rename_all = "camelCase")]
    pub struct Person {
        #[garde(length(min = 2))]
        pub first_name: String,
    }

    #[derive(Debug, Deserialize, Validate)]
    pub struct Root {
        #[garde(dive)]
        pub people: BTreeSet<Person>,
    }
}

mod v {
    use serde::Deserialize;
    use std::collections::BTreeSet;
    use validator::Validate;

    #[derive(Debug, Deserialize, Validate, PartialEq, Eq, PartialOrd, Ord)]
    #[serde(rename_all = "camelCase")]
    pub struct Person {
        #[validate(length(min = 2))]
        pub first_name: String,
    }

    #[derive(Debug, Deserialize, Validate)]
    pub struct Root {
        #[validate(nested)]
        pub people: BTreeSet<Person>,
    }
}

const YAML: &str = "people:\n  - firstName: zz\n  - firstName: a\n";

fn plain(e: &serde_saphyr::Error) -> String {
    let f = DefaultMessageFormatter;
    let mut o = RenderOptions::new(&f);
    o.snippets = SnippetMode::Off;
    e.render_with_options(o)
}

fn check(err: serde_saphyr::Error) {
    let text = plain(&err);
    // There is exactly one issue, and it is about the value `a` on line 3.
    assert_eq!(text.lines().count(), 1, "{text}");
    assert!(
        !text.contains("line 2,"),
        "the issue is attributed to line 2 (`firstName: zz`, a valid value); the invalid value `a` is at line 3, column 16: {text}"
    );
    if let Some(loc) = err.location() {
        assert_eq!(
            (loc.line(), loc.column()),
            (3, 16),
            "Error::location() must be the position of the invalid value"
        );
    }
}

#[test]
fn garde_issue_in_a_set_is_not_attributed_to_another_element() {
    check(serde_saphyr::from_str_valid::<g::Root>(YAML).expect_err("validation must fail"));
}

#[test]
fn validator_issue_in_a_set_is_not_attributed_to_another_element() {
    check(serde_saphyr::from_str_validate::<v::Root>(YAML).expect_err("validation must fail"));
}

#[test]
fn control_yaml_order_equals_set_order() {
    // When the YAML happens to be sorted the position is right.
    let err = serde_saphyr::from_str_valid::<g::Root>("people:\n  - firstName: a\n  - firstName: zz\n")
        .expect_err("validation must fail");
    let loc = err.location().expect("location");
    assert_eq!((loc.line(), loc.column()), (2, 16));
}
