//! Observed on the UNCHANGED crate (property C16, clause "For a value reached through an alias
//! ... the use-site location is that of the alias").
//!
//! A tagged node that selects an enum variant (`!V 5`, `!W [1, 2]`) is re-recorded by
//! `deserialize_enum` (src/de.rs, `Mode::TaggedNewtype` / `TaggedEA`) and its payload is
//! deserialized from `ReplayEvents::new(..)`, i.e. WITHOUT a reference override.  If the tagged
//! node is reached through an alias, the use-site kept by the injection frame is therefore lost:
//! a span-carrying payload reports `referenced == defined` (the anchor definition) instead of
//! the position of the `*alias` token.  The same enum written in mapping form (`{V: 5}`) and
//! reached through an alias reports the alias token (control below).

use serde::Deserialize;
use serde_saphyr::Spanned;

#[derive(Debug, Deserialize)]
enum E {
    V(Spanned<i32>),
    W(Vec<Spanned<i32>>),
}

#[derive(Debug, Deserialize)]
struct Doc {
    a: E,
    b: E,
    c: E,
    d: E,
}

#[test]
fn payload_of_tag_selected_variant_behind_alias_reports_alias_use_site() {
    let yaml = "a: &a !V 5\nb: *a\nc: &c !W [1, 2]\nd: *c\n";
    let doc: Doc = serde_saphyr::from_str(yaml).unwrap();
    let E::V(a) = &doc.a else { panic!() };
    assert_eq!((a.referenced.line(), a.referenced.column()), (1, 10));
    let E::V(b) = &doc.b else { panic!() };
    assert_eq!(b.value, 5);
    assert_eq!((b.defined.line(), b.defined.column()), (1, 10));
    assert_eq!(
        (b.referenced.line(), b.referenced.column()),
        (2, 4),
        "scalar payload of `!V` reached through `*a`"
    );
    let E::W(d) = &doc.d else { panic!() };
    assert_eq!((d[0].defined.line(), d[0].defined.column()), (3, 11));
    assert_eq!(
        (d[0].referenced.line(), d[0].referenced.column()),
        (4, 4),
        "element of the `!W` payload reached through `*c`"
    );
}

#[test]
fn control_mapping_form_behind_alias() {
    #[derive(Debug, Deserialize)]
    struct D2 {
        a: E,
        b: E,
    }
    let yaml = "a: &a {V: 5}\nb: *a\n";
    let doc: D2 = serde_saphyr::from_str(yaml).unwrap();
    let E::V(_) = &doc.a else { panic!() };
    let E::V(b) = &doc.b else { panic!() };
    assert_eq!((b.defined.line(), b.defined.column()), (1, 11));
    assert_eq!((b.referenced.line(), b.referenced.column()), (2, 4));
}
