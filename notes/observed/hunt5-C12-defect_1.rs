// C12 defect 1: a shared string (RcAnchor / ArcAnchor / weak anchors) that is written as a
// block scalar loses its anchor; the alias then points at nothing or at ANOTHER scalar.
//
// Violated clause: "Every string ... serialized in any position ... deserializes back into the
// same type as the identical value - strings character for character" (the prompt of the hunt
// names "values arriving through aliases" explicitly).
//
// Minimal input: struct { a: RcAnchor<String>, x: String, b: RcAnchor<String> } where a and b
// share one Rc holding "line1\nline2" (any string the serializer puts into `|` or `>` style:
// a multi-line string, or a single-line string longer than folded_wrap_chars), default options.
//
// The crate writes
//     a: |-
//       line1
//       line2
//     x: &a1 other
//     b: *a1
// i.e. the anchor `&a1` is not written in front of the block scalar header; it stays pending
// and is attached to the NEXT scalar that is written (`x`). Reading back gives
// b == "other" (silent change of a string). If no scalar lies in between (`[shared, shared]`)
// the output is "- |-\n  ...\n- *a1\n" and cannot be read at all ("alias references unknown
// anchor").
//
// Expected: `a: &a1 |-` (anchor before the block scalar header), b reads back "line1\nline2".
//
// Cause: src/ser.rs, `serialize_str`, branch `if let Some(style) = self.pending_str_style.take()`:
// the block-scalar branch writes '|' / '>' without calling `write_scalar_prefix_if_anchor()`
// (only the quoted fallback inside that branch and the plain path after it do), so
// `pending_anchor_id` survives the scalar it belongs to.
use serde::{Deserialize, Serialize};
use serde_saphyr::RcAnchor;
use std::rc::Rc;

#[derive(Serialize, Deserialize)]
struct Doc {
    a: RcAnchor<String>,
    x: String,
    b: RcAnchor<String>,
}

#[test]
fn shared_multiline_string_keeps_its_value() {
    let rc = Rc::new("line1\nline2".to_string());
    let doc = Doc { a: RcAnchor(rc.clone()), x: "other".to_string(), b: RcAnchor(rc) };
    let yaml = serde_saphyr::to_string(&doc).unwrap();
    let back: Doc = serde_saphyr::from_str(&yaml)
        .unwrap_or_else(|e| panic!("output does not read back: {e}\n{yaml}"));
    assert_eq!(*back.a.0, "line1\nline2", "yaml:\n{yaml}");
    assert_eq!(back.x, "other", "yaml:\n{yaml}");
    assert_eq!(*back.b.0, "line1\nline2", "alias reads another scalar; yaml:\n{yaml}");
}

#[test]
fn shared_long_string_in_sequence_reads_back() {
    // single-line string longer than the default folded_wrap_chars (80) -> folded block `>-`
    let rc = Rc::new("word ".repeat(30) + "end");
    let v = vec![RcAnchor(rc.clone()), RcAnchor(rc.clone())];
    let yaml = serde_saphyr::to_string(&v).unwrap();
    let back: Vec<RcAnchor<String>> = serde_saphyr::from_str(&yaml)
        .unwrap_or_else(|e| panic!("output does not read back: {e}\n{yaml}"));
    assert_eq!(*back[0].0, *rc);
    assert_eq!(*back[1].0, *rc);
}
