// C12 defect 1: the anchor of a shared (RcAnchor / ArcAnchor / weak) STRING is dropped when the
// string is written as a block scalar, and lands on the NEXT node instead - every alias of the
// string then reads back as that other value.
//
// Violated clause: "Every string ... serialized in any position ... deserializes back into the
// same type as the identical value" and "no string is ever emitted in a form that reads back as
// ... a different string" (values arriving through aliases).
//
// Minimal input (default options):
//     struct S { a: RcAnchor<String>, b: i32, c: RcAnchor<String> }   // a and c share one Rc
//     S { a: "x\ny", b: 5, c: <same Rc> }
//
// The crate writes
//     a: |-
//       x
//       y
//     b: &a1 5
//     c: *a1
// so `c` reads back as "5" (and `b` carries an anchor it never had). The same happens for every
// string that takes the block-scalar path: multi-line strings (auto `|`), long single-line strings
// (auto `>`), and LitString / FoldString inside an anchor wrapper. When there is no following
// scalar the pending anchor is never written at all and `*a1` is an undefined alias (parse error).
//
// Expected: `a: &a1 |-` (the anchor belongs to the block scalar), c reads back "x\ny".
//
// Cause: src/ser.rs, `Serializer::serialize_str`, the `if let Some(style) = self.pending_str_style.take()`
// branch (block scalar emission) never calls `write_scalar_prefix_if_anchor()`; only the quoted
// fallback and the plain path do. `pending_anchor_id` therefore survives until the next scalar.
//
// Run: cargo test --offline --test defect_1

use serde::{Deserialize, Serialize};
use serde_saphyr::{ArcAnchor, RcAnchor};
use std::rc::Rc;
use std::sync::Arc;

#[derive(Serialize, Deserialize, Debug)]
struct S {
    a: RcAnchor<String>,
    b: i32,
    c: RcAnchor<String>,
}

#[test]
fn shared_multiline_string_keeps_its_anchor() {
    let shared = Rc::new("x\ny".to_string());
    let v = S {
        a: RcAnchor(shared.clone()),
        b: 5,
        c: RcAnchor(shared),
    };
    let yaml = serde_saphyr::to_string(&v).unwrap();
    let back: S = serde_saphyr::from_str(&yaml)
        .unwrap_or_else(|e| panic!("does not parse back: {e}\n{yaml}"));
    assert_eq!(*back.a.0, "x\ny", "yaml:\n{yaml}");
    assert_eq!(back.b, 5, "yaml:\n{yaml}");
    assert_eq!(*back.c.0, "x\ny", "alias reads back as another value; yaml:\n{yaml}");
}

#[test]
fn shared_long_string_in_a_sequence_keeps_its_anchor() {
    // Long single-line string: auto-selected folded block scalar (`>-`).
    let text = "word ".repeat(30) + "end";
    let shared = Arc::new(text.clone());
    let v = vec![ArcAnchor(shared.clone()), ArcAnchor(shared)];
    let yaml = serde_saphyr::to_string(&v).unwrap();
    let back: Vec<ArcAnchor<String>> = serde_saphyr::from_str(&yaml)
        .unwrap_or_else(|e| panic!("does not parse back: {e}\n{yaml}"));
    assert_eq!(back.len(), 2);
    assert_eq!(*back[0].0, text, "yaml:\n{yaml}");
    assert_eq!(*back[1].0, text, "yaml:\n{yaml}");
}
