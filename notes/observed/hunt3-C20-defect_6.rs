// C20 defect 6 (lower priority - neighbour of the known "FoldStr folds inner line breaks"
// issue, but a different mechanism): FoldStr / FoldString drop ALL trailing line breaks but
// one, because the explicit wrapper always writes the clip header '>' whatever the text ends
// with.
//
// Violated clause: "strings under the explicit folded wrapper are compared modulo one
// trailing line break, its documented clip-chomping behaviour" - here two or more line
// breaks are lost; and "string content can never alter ... the document".
//
// Minimal input: FoldStr("abc def\n\n\n")  (no inner line breaks, three trailing ones).
//
// What the crate does: it writes
//     >
//       abc def
//       <empty>
//       <empty>
//       <empty>
// which every YAML reader (clip chomping) reads as "abc def\n": two line breaks are gone.
// The same string as a plain String (auto-selected style) or under LitStr is written with the
// keep indicator ('|+') and round-trips exactly; the auto-selected folded style also picks
// '-' / '' / '+' from the number of trailing line breaks.
//
// What it should do: choose the chomping indicator from the trailing line breaks as the
// literal branch and the auto-folded branch do ('>+' for two or more), or fall back to a
// quoted scalar.
//
// Cause: src/ser.rs, `serialize_str`, `StrStyle::Folded` arm: the chomping indicator is only
// written `if self.pending_str_from_auto` ("Explicit FoldStr/FoldString wrappers historically
// used plain '>' regardless of trailing newline; keep that behavior for compatibility").
//
// Run: cargo test --offline --test defect_6

use serde_saphyr::{FoldStr, FoldString};

fn modulo_one_trailing_break(s: &str) -> &str {
    s.strip_suffix('\n').unwrap_or(s)
}

#[test]
fn fold_str_keeps_trailing_line_breaks_modulo_one() {
    let text = "abc def\n\n\n";

    // Reference: the bare string round-trips exactly.
    let reference = serde_saphyr::to_string(&text).unwrap();
    assert_eq!(serde_saphyr::from_str::<String>(&reference).unwrap(), text);

    let yaml = serde_saphyr::to_string(&FoldStr(text)).unwrap();
    let bare: String = serde_saphyr::from_str(&yaml).unwrap();
    assert_eq!(
        modulo_one_trailing_break(&bare),
        modulo_one_trailing_break(text),
        "FoldStr changed the text by more than one trailing line break:\n{yaml}"
    );
    let wrapped: FoldString = serde_saphyr::from_str(&yaml).unwrap();
    assert_eq!(
        modulo_one_trailing_break(&wrapped.0),
        modulo_one_trailing_break(text)
    );
}
