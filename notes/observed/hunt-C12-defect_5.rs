// DEFECT 5 (property C12): LitStr("\n") / LitString("\n") reads back as the empty string
//
// Violated clause: "Every string ... deserializes back into the same type as the identical value
// - strings character for character" (LitStr is documented as "preserves newlines exactly").
//
// Minimal input (default options): struct { note: LitString("\n"), other: 0 }.
//
// What the crate does: it writes
//     note: |
//       <two blanks>
//     other: 0
// i.e. a literal scalar with *clip* chomping whose only line is blank. A block scalar that has
// no content line is empty, and clip chomping then drops the final line break as well (YAML 1.2
// section 8.1.1.2), so the value is "" - that is also what the crate's own reader returns. The
// existing test tests/test_block_str.rs::litstr_only_newline asserts this output and comments it
// with `Value: "\n"`, which is not what the text means. (As the last node of a document the same
// text happens to read back as "\n", so `vec![LitString("\n"), LitString("\n")]` comes back as
// ["", "\n"].)
//
// What it should do: use keep chomping (`|+` followed by one empty line) or fall back to the
// quoted form "\n", as the automatic style selection for ordinary strings already does
// (`fits_block_scalar` rejects strings without a content line).
//
// Cause: src/ser.rs `serialize_str`, `historical_empty` exemption: for the explicit wrappers ""
// and "\n" bypass `crate::wrapping::fits_block_scalar`, and `trailing_nl == 1` selects clip.
//
// Run: cargo test --offline --test defect_5

use serde::{Deserialize, Serialize};
use serde_saphyr::LitString;

#[derive(Serialize, Deserialize, PartialEq, Debug)]
struct Doc {
    note: LitString,
    other: usize,
}

#[test]
fn litstring_newline_only_round_trips_as_field() {
    let d = Doc { note: LitString("\n".to_string()), other: 0 };
    let yaml = serde_saphyr::to_string(&d).unwrap();
    let back: Doc = serde_saphyr::from_str(&yaml).unwrap();
    assert_eq!(back, d, "yaml was {yaml:?}");
}

#[test]
fn litstring_newline_only_round_trips_in_sequence() {
    let v = vec![LitString("\n".to_string()), LitString("\n".to_string())];
    let yaml = serde_saphyr::to_string(&v).unwrap();
    let back: Vec<LitString> = serde_saphyr::from_str(&yaml).unwrap();
    assert_eq!(back, v, "yaml was {yaml:?}");
}
