// Defect 3 (C03): an own key does NOT override a merged key when the two spell the same key
// differently (explicit `!!str` tag, `~` vs `null`); the merged value wins for map targets and a
// struct target fails with "duplicate field".
//
// Property clause violated:
//   "keys come from the mapping's own entries first and then from the merge sources ...; own keys
//    silently override merged ones under every duplicate-key policy"
//
// Minimal input (all three policies, BTreeMap<String, i32> / serde_json::Value / struct target):
//
//     !!str a: 1
//     <<: {a: 2}
//
// `!!str a` and `a` are the same YAML node (a plain `a` resolves to !!str) and both deserialize to
// the key "a". Written out in full the mapping is {a: 1}.
//
// What the crate does: map / untyped targets get {a: 2} - the MERGED value replaces the own one,
// because the merged entry is not recognised as already present and is delivered after the own one.
// A struct target `struct S { a: i32 }` fails with "duplicate field `a`" under every policy,
// including FirstWins and LastWins, although the document has a single own `a`.
// Same for null keys with an `Option<String>` key type: `~: 1` + `<<: {null: 2}` yields {None: 2}.
//
// What it should do: {a: 1} (own key wins, silently) for all targets and policies.
//
// Cause: src/de.rs `KeyFingerprint::Scalar { value, tag }` - the `seen` set that
// `MA::next_key_seed` consults while flushing merges (`if self.flushing_merges { if is_duplicate
// { continue; } }`) compares the raw scalar text AND the tag, so `!!str a` != `a` and `~` != `null`.
//
// Run: cargo test --offline --test defect_3   (no optional features needed)

use std::collections::BTreeMap;

use serde::Deserialize;
use serde_saphyr::options::DuplicateKeyPolicy;
use serde_saphyr::{Options, from_str_with_options};

const POLICIES: [DuplicateKeyPolicy; 3] = [
    DuplicateKeyPolicy::Error,
    DuplicateKeyPolicy::FirstWins,
    DuplicateKeyPolicy::LastWins,
];

fn opts(policy: DuplicateKeyPolicy) -> Options {
    let mut o = Options::default();
    o.duplicate_keys = policy;
    o
}

#[derive(Debug, Deserialize, PartialEq)]
struct S {
    a: i32,
}

#[test]
fn tagged_own_key_overrides_merged_key_in_map() {
    for policy in POLICIES {
        let got: BTreeMap<String, i32> =
            from_str_with_options("!!str a: 1\n<<: {a: 2}\n", opts(policy)).unwrap();
        let mut expected = BTreeMap::new();
        expected.insert("a".to_string(), 1);
        assert_eq!(got, expected, "policy {policy:?}: own key must win");
    }
}

#[test]
fn tagged_own_key_overrides_merged_key_in_struct() {
    for policy in POLICIES {
        let got: Result<S, _> = from_str_with_options("!!str a: 1\n<<: {a: 2}\n", opts(policy));
        match got {
            Ok(s) => assert_eq!(s, S { a: 1 }, "policy {policy:?}"),
            Err(e) => panic!("policy {policy:?}: own key must win silently, got error: {e}"),
        }
    }
}

#[test]
fn null_own_key_overrides_merged_null_key() {
    for policy in POLICIES {
        let got: BTreeMap<Option<String>, i32> =
            from_str_with_options("~: 1\n<<: {null: 2}\n", opts(policy)).unwrap();
        let mut expected = BTreeMap::new();
        expected.insert(None, 1);
        assert_eq!(got, expected, "policy {policy:?}: own key must win");
    }
}
