//! Observed on the UNCHANGED crate (property C15, "nested inside a user Deserialize impl").
//!
//! The fallback error location (`MISSING_FIELD_FALLBACK` in src/de_error.rs) is a thread-local
//! that, unlike the anchor table, is NOT parked when a parse starts: a parse nested inside a user
//! `Deserialize` impl of an enclosing parse starts with the enclosing call's current key / element
//! location still installed.  Any error the nested call produces through one of Serde's static
//! constructors (`invalid_type`, `invalid_value`, `unknown_variant`, ...) before it has installed
//! a location of its own - e.g. for a root scalar or a root sequence - is then stamped with a
//! location of the OUTER document.  On a fresh thread the same call reports no location.  The
//! stolen location also changes the message: it is rendered as "... at line 2, column 4" or even
//! as a snippet of the inner input with the outer document's coordinates.
//!
//! Expected: nested result == fresh-thread result.  Actual: location / message differ.

use serde::Deserialize;
use serde::de::{Deserializer, Visitor};
use std::fmt;

/// A type whose visitor accepts nothing: every input ends in `de::Error::invalid_type`.
#[derive(Debug)]
struct Rejects;

impl<'de> Deserialize<'de> for Rejects {
    fn deserialize<D: Deserializer<'de>>(d: D) -> Result<Self, D::Error> {
        struct V;
        impl<'de> Visitor<'de> for V {
            type Value = Rejects;
            fn expecting(&self, f: &mut fmt::Formatter) -> fmt::Result {
                f.write_str("nothing at all")
            }
        }
        d.deserialize_any(V)
    }
}

fn the_call() -> String {
    match serde_saphyr::from_str::<Rejects>("abc") {
        Ok(_) => "OK".to_string(),
        Err(e) => format!("location={:?} message={}", e.location(), e),
    }
}

/// Consumes its own node, then makes the call under observation and keeps its rendering.
struct Nested(String);
impl<'de> Deserialize<'de> for Nested {
    fn deserialize<D: Deserializer<'de>>(d: D) -> Result<Self, D::Error> {
        let _own = String::deserialize(d)?;
        Ok(Nested(the_call()))
    }
}

#[derive(Deserialize)]
struct Outer {
    #[allow(dead_code)]
    id: u8,
    nested: Nested,
}

fn on_fresh_thread<R: Send + 'static>(f: impl FnOnce() -> R + Send + 'static) -> R {
    std::thread::spawn(f).join().unwrap()
}

#[test]
fn call_nested_in_a_mapping_value_equals_fresh_thread() {
    let fresh = on_fresh_thread(the_call);
    let nested = on_fresh_thread(|| {
        let o: Outer = serde_saphyr::from_str("id: 1\nnested: go\n").unwrap();
        o.nested.0
    });
    assert_eq!(fresh, nested);
}

#[test]
fn call_nested_in_a_sequence_element_equals_fresh_thread() {
    let fresh = on_fresh_thread(the_call);
    let nested = on_fresh_thread(|| {
        let v: Vec<Nested> = serde_saphyr::from_str("- go\n").unwrap();
        v.into_iter().next().unwrap().0
    });
    assert_eq!(fresh, nested);
}
