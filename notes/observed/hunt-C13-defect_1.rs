// DEFECT 1 (property C13): the value of a composite ('? ') key loses its indentation when the
// mapping is nested and the value is (or contains) a block sequence or a struct variant.
//
// Violated clause: "for every value composed of the Serde data-model shapes - ... maps with
// string, non-string and composite keys ... nested arbitrarily - and every valid serializer option
// set, the emitted text is a single well-formed YAML document that deserializes back into an
// equal value of the same type."
//
// Minimal input (default options):
//     BTreeMap<String, BTreeMap<Vec<i32>, Vec<i32>>>   { "k": { [1]: [8] } }
// The crate emits
//     k:
//       ? - 1
//       :
//     - 8            <- the dash of the value sequence is at column 0
// which is not well-formed ("did not find expected key").  Expected: the value sequence indented
// under the ':' indicator, e.g. "  :\n    - 8" (or "  : - 8").
// Inside a sequence item the output ("- ? - 1\n  :\n- 8\n") is well-formed YAML but a different
// structure: the value sequence becomes a second item of the OUTER sequence (the typed read
// fails with "expected mapping start", an untyped read sees [{[1]: null}, 8]).
// With a struct variant as the value the nested mapping is glued to its key: "a: b: true".
//
// Cause: src/ser.rs, MapSer::serialize_value, branch `if self.last_key_complex`: it sets
// `self.ser.pending_inline_map = true` (wanted for ": z: 9").  The flag is only consumed by
// serialize_map; when the value is a sequence, SeqSer::serialize_element sees
// `self.first && pending_inline_map` and skips write_indent for the first dash after it has
// already broken the line; when the value is a struct variant the flag survives the "S:\n" label
// and the first nested struct / map is written inline after its key.
// (At nesting depth 0 the missing indentation happens to be zero columns, which hides the bug.)

use serde::{Deserialize, Serialize};
use std::collections::BTreeMap;

#[test]
fn sequence_value_of_composite_key_in_nested_map() {
    let mut inner: BTreeMap<Vec<i32>, Vec<i32>> = BTreeMap::new();
    inner.insert(vec![1], vec![8]);
    let mut outer: BTreeMap<String, BTreeMap<Vec<i32>, Vec<i32>>> = BTreeMap::new();
    outer.insert("k".to_string(), inner);

    let yaml = serde_saphyr::to_string(&outer).unwrap();
    let back: BTreeMap<String, BTreeMap<Vec<i32>, Vec<i32>>> = serde_saphyr::from_str(&yaml)
        .unwrap_or_else(|e| panic!("emitted text does not parse back: {e}\n{yaml}"));
    assert_eq!(back, outer, "emitted:\n{yaml}");
}

#[test]
fn sequence_value_of_composite_key_in_sequence_item() {
    let mut inner: BTreeMap<Vec<i32>, Vec<i32>> = BTreeMap::new();
    inner.insert(vec![1], vec![8]);
    let v = vec![inner];

    let yaml = serde_saphyr::to_string(&v).unwrap();
    // typed read
    let back: Vec<BTreeMap<Vec<i32>, Vec<i32>>> = serde_saphyr::from_str(&yaml)
        .unwrap_or_else(|e| panic!("emitted text does not parse back: {e}\n{yaml}"));
    assert_eq!(back, v, "emitted:\n{yaml}");
}

#[derive(Serialize, Deserialize, Debug, PartialEq, Clone)]
struct Inner {
    b: bool,
}
#[derive(Serialize, Deserialize, Debug, PartialEq, Clone)]
enum E {
    S { a: Inner },
}

#[test]
fn struct_variant_value_of_composite_key() {
    let mut m: BTreeMap<Vec<i32>, E> = BTreeMap::new();
    m.insert(vec![1], E::S { a: Inner { b: true } });

    let yaml = serde_saphyr::to_string(&m).unwrap();
    let back: BTreeMap<Vec<i32>, E> = serde_saphyr::from_str(&yaml)
        .unwrap_or_else(|e| panic!("emitted text does not parse back: {e}\n{yaml}"));
    assert_eq!(back, m, "emitted:\n{yaml}");
}
