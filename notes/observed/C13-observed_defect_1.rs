//! Observed on the UNCHANGED crate (default options): a map with a composite (non-scalar) key
//! whose VALUE is a non-empty block sequence is emitted with the first dash of the value at
//! column 0 and without indentation:
//!
//!     ? - 1
//!       - 2
//!     :
//!     - 3
//!       - 4
//!
//! which does not parse back.  Cause: MapSer::serialize_value sets `pending_inline_map = true`
//! for the value of a complex key (so that a mapping value can start inline as `: x: 3`); a
//! sequence value first breaks the line (pending space after ':') and then SeqSer::serialize_element
//! skips the indentation of its first dash because `pending_inline_map` is still set.
//! The same happens for tuples / tuple structs / tuple variants payloads in that position.
use std::collections::BTreeMap;

#[test]
fn composite_key_with_block_sequence_value_round_trips() {
    let mut m: BTreeMap<Vec<i32>, Vec<i32>> = BTreeMap::new();
    m.insert(vec![1, 2], vec![3, 4]);
    let text = serde_saphyr::to_string(&m).unwrap();
    let back: BTreeMap<Vec<i32>, Vec<i32>> = serde_saphyr::from_str(&text)
        .unwrap_or_else(|e| panic!("emitted text does not parse back:\n{text}\nerror: {e}"));
    assert_eq!(back, m, "emitted text:\n{text}");
}
