// C17 defect 5: the secondary ("defined here") window places its marker by counting
// characters, not display columns: after East Asian wide characters or tabs the marker is not
// under the reported column
//
// Violated: "includes the line the location refers to with the marker under the reported
//   column" (quantified over "multi-byte text around the error column").
//
// Minimal input 1 (wide characters):
//     名前名前: &val 42
//     flag: *val
//   into `struct W { #[serde(rename = "名前名前")] count: u64, flag: bool }` -> the alias fails
//   with `invalid boolean`, the value was defined at line 1 column 12 (`42`).
//   Rendered:
//       1 | 名前名前: &val 42
//         |            ^ defined here
//   The four ideographs occupy two terminal cells each, so `4` is 15 cells right of `| `;
//   the marker is printed 11 cells right of it (under `v`).  The primary window of the very
//   same report type (annotate-snippets) does account for the display width - e.g.
//   `名前名前: zz` gets its marker 10 cells in for column 7 - so the two windows of one report
//   disagree.
//
// Minimal input 2 (tabs): `{\t\t"count":\t&val 42,` / `\t"flag":\t*val}`. The primary window
//   expands every tab to four blanks and aligns the marker accordingly; the secondary window
//   prints the tabs raw and counts each as one column, so on any terminal (tab stops > 1) the
//   marker is left of `42`.
//
// What it should do: compute the marker offset of the secondary window from the display width
//   of the text in front of the column (and expand / replace tabs), as the primary window does.
//
// Cause: src/de/snippet.rs `fmt_snippet_window_with_mapping_or_fallback`:
//   `let caret_chars = window_text[line_byte_start..local_start].chars().count();` followed by
//   `{space:>caret_chars$}^`, and the source line is written verbatim (`{line}`).
//
// Run: cargo test --offline --test defect_5

use serde::Deserialize;

/// Terminal cells of the characters used in this test.
fn width(c: char) -> usize {
    match c {
        '名' | '前' | '旗' => 2,
        _ => 1,
    }
}

/// Checks the `defined here` window of `rendered`: the marker must be under `target`
/// (a character that occurs once in the source line), measured in terminal cells.
fn check_secondary(rendered: &str, target: char) {
    let idx = rendered
        .find("This value comes")
        .unwrap_or_else(|| panic!("no secondary window:\n{rendered}"));
    let lines: Vec<&str> = rendered[idx..].lines().collect();
    let m = lines
        .iter()
        .position(|l| l.contains("^ defined here"))
        .unwrap_or_else(|| panic!("no `defined here` marker:\n{rendered}"));
    let src = lines[m - 1];
    let marker = lines[m];

    let src_text = &src[src.find('|').unwrap() + 1..];
    let marker_text = &marker[marker.find('|').unwrap() + 1..];
    assert_eq!(
        src[..src.find('|').unwrap()].chars().count(),
        marker[..marker.find('|').unwrap()].chars().count(),
        "gutters differ:\n{rendered}"
    );

    let t = src_text
        .find(target)
        .unwrap_or_else(|| panic!("{target:?} not in the source line {src:?}:\n{rendered}"));
    let prefix = &src_text[..t];
    assert!(
        !prefix.contains('\t'),
        "a raw tab is printed in front of the marked column, its width depends on the \
         terminal, the marker cannot be aligned (the primary window expands tabs):\n{rendered}"
    );
    let expected: usize = prefix.chars().map(width).sum();
    let actual: usize = marker_text[..marker_text.find('^').unwrap()]
        .chars()
        .map(width)
        .sum();
    assert_eq!(
        actual, expected,
        "marker is {actual} cells right of the gutter, {target:?} is {expected} cells right of it:\n{rendered}"
    );
}

#[derive(Debug, Deserialize)]
#[allow(dead_code)]
struct W {
    #[serde(rename = "名前名前")]
    count: u64,
    #[serde(rename = "旗")]
    flag: bool,
}

#[test]
fn primary_window_accounts_for_wide_characters() {
    // Reference behaviour (passes): marker of the primary window, column 7 -> 10 cells.
    let err = serde_saphyr::from_str::<W>("名前名前: zz\n旗: true\n").unwrap_err();
    let rendered = err.to_string();
    let lines: Vec<&str> = rendered.lines().collect();
    let m = lines.iter().position(|l| l.contains("^ invalid u64")).unwrap();
    let marker = lines[m];
    let off = marker[marker.find('|').unwrap() + 1..marker.find('^').unwrap()]
        .chars()
        .count();
    assert_eq!(off, 1 + 10, "{rendered}");
}

#[test]
fn secondary_window_accounts_for_wide_characters() {
    let err = serde_saphyr::from_str::<W>("名前名前: &val 42\n旗: *val\n").unwrap_err();
    let loc = err.location().unwrap();
    assert_eq!((loc.line(), loc.column()), (2, 4));
    check_secondary(&err.to_string(), '4');
}

#[derive(Debug, Deserialize)]
#[allow(dead_code)]
struct C {
    count: u64,
    flag: bool,
}

#[test]
fn secondary_window_accounts_for_tabs() {
    let yaml = "{\t\t\"count\":\t&val 42,\n\t\"flag\":\t*val}\n";
    let err = serde_saphyr::from_str::<C>(yaml).unwrap_err();
    check_secondary(&err.to_string(), '4');
}
