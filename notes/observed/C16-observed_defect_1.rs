//! Observed on the UNCHANGED crate (property C16, clause "for a span-carrying scalar the
//! reported byte range is exactly that node's source text").
//!
//! For a single- or double-quoted scalar the span reported by `Spanned<T>` (char length and
//! byte length alike) runs past the closing quote: it swallows the blanks that follow and, when
//! present, a trailing `# comment` up to the end of the line (in flow collections: the blanks
//! before the next `,` / `]`).  Plain scalars are exact.  The start coordinates are right; only
//! the length is too large, so `input[byte_offset .. byte_offset + byte_len]` is not the node.
//! The length comes straight from the parser span via `location_from_span` (src/location.rs).

use serde::Deserialize;
use serde_saphyr::Spanned;

fn node_text<'a, T>(yaml: &'a str, s: &Spanned<T>) -> &'a str {
    let sp = s.referenced.span();
    let b = sp.byte_offset().unwrap() as usize;
    let n = sp.byte_len().unwrap() as usize;
    &yaml[b..b + n]
}

#[derive(Debug, Deserialize)]
struct Doc {
    a: Spanned<String>,
    b: Spanned<String>,
    c: Vec<Spanned<String>>,
    d: Spanned<String>,
}

#[test]
fn quoted_scalar_span_is_exactly_the_quoted_text() {
    let yaml = "a: \"qü\"   # comment\nb: 'x y'  \nc: [\"s\" , 't' ]\nd: plain # comment\n";
    let doc: Doc = serde_saphyr::from_str(yaml).unwrap();
    // control: plain scalar is exact
    assert_eq!(node_text(yaml, &doc.d), "plain");
    assert_eq!(node_text(yaml, &doc.a), "\"qü\"", "double-quoted scalar followed by a comment");
    assert_eq!(doc.a.referenced.span().len(), 4);
    assert_eq!(node_text(yaml, &doc.b), "'x y'", "single-quoted scalar followed by blanks");
    assert_eq!(node_text(yaml, &doc.c[0]), "\"s\"", "quoted scalar inside a flow sequence");
    assert_eq!(node_text(yaml, &doc.c[1]), "'t'", "quoted scalar inside a flow sequence");
}
