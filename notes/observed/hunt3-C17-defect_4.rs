// C17 defect 4: context lines that end before the crop window starts are printed in full, however
// long they are: they are not cropped to the configured radius.
//
// Violated clause: "shows at most the documented window (two lines of context either side, each
// line cropped to the configured radius around the error column)". The public documentation of
// Options::crop_radius says the same: "The renderer crops all displayed lines (including the
// context lines) to the same column window around the reported error column, so they stay
// vertically aligned."
//
// Minimal input (crop_radius = 3):
//     b: [2, 2, 2, ... 59 characters ...]
//     a: [1, 1, ... , X, 1, 1]            <- error at column 65
// What the crate does:
//     1 | b: [2, 2, 2, 2, 2, 2, 2, 2, 2, 2, 2, 2, 2, 2, 2, 2, 2, 2, 2]      <- 59 columns, radius is 3
//     2 | …1, X, 1…
//       |     ^ invalid i32
// What it should do: every displayed source line has at most 2 * radius + 1 columns (+ the two
// ellipsis marks); the context line would be cropped to the same window (or to an ellipsis).
// With an error far to the right on a long line (column 3000) a 2999 column context line is handed
// to the renderer unshortened.
//
// Cause: src/de/snippet.rs crop_line_by_cols(): `if left_col_1 >= line_len_cols + 1 { return
// line.to_owned() }` - meant for "very short context lines", but it applies to every line that is
// shorter than the left edge of the window, i.e. lines of up to `error column - radius - 1` columns.
// (crop_source_window() uses the same function when it shortens a region for storage.)
//
// Run: cargo test --offline --test defect_4

use std::collections::HashMap;

type M = HashMap<String, Vec<i32>>;

fn source_lines(rendered: &str) -> Vec<String> {
    rendered
        .lines()
        .filter_map(|l| {
            let bar = l.find('|')?;
            let num = l[..bar].trim();
            if num.is_empty() || !num.chars().all(|c| c.is_ascii_digit()) {
                return None;
            }
            Some(l[bar + 1..].trim_start_matches(' ').to_string())
        })
        .collect()
}

#[test]
fn every_displayed_line_is_cropped_to_the_radius() {
    let radius = 3usize;
    let pre = "1, ".repeat(20);
    let ctx = "2, ".repeat(18);
    let input = format!("b: [{ctx}2]\na: [{pre}X, 1, 1]\nc: [{ctx}{ctx}2]\n");
    let opts = serde_saphyr::options! { crop_radius: radius };
    let err = serde_saphyr::from_str_with_options::<M>(&input, opts).unwrap_err();
    let loc = err.location().unwrap();
    assert_eq!((loc.line(), loc.column()), (2, 65));
    let rendered = err.to_string();
    let lines = source_lines(&rendered);
    assert_eq!(lines.len(), 3, "{rendered}");
    for l in &lines {
        let cols = l.chars().count();
        assert!(
            cols <= 2 * radius + 1 + 2,
            "a displayed line has {cols} columns with crop_radius = {radius}:\n{rendered}"
        );
    }
}
