// Defect 6 (C07): after a document that exceeded max_events, the per-document event counter is
// not reset, so the following (small) document is rejected as well
//
// Violated clauses: "never rejects an input all of whose quantities are within the limits" and
// "Under per-document enforcement (the streaming iterator) quantities are counted per document,
// so the number of documents already read never affects whether a document is accepted."
//
// Budget: max_events = 6 (everything else default), target type Vec<i32>, streaming iterator
// `serde_saphyr::read_with_options`.
//   Y = `[1]`                  uses 5 events (the callback reports events: 5) -> within the limit
//   X = `[1,2,3,4,5,6,7,8]`    uses 12 events                                 -> over the limit
//
// What the crate does:
//   stream "Y"        -> [Ok]
//   stream "Y --- Y"  -> [Ok, Ok]
//   stream "X --- Y"  -> [Err(Budget Events), Err(Budget Events)]   <- Y rejected
// For every other counter the iterator recovers as designed, e.g. with max_nodes = 3 the same
// stream gives [Err(Budget Nodes), Ok].
//
// What it should do: "X --- Y" -> [Err(Budget Events), Ok(Y)]: Y is counted from zero.
//
// Cause: src/budget.rs `BudgetEnforcer::observe` increments `report.events` and returns
// `Err(BudgetBreach::Events)` *before* the `match` whose `Event::DocumentStart` arm performs the
// per-document reset. After X broke the events limit, the iterator recovers through
// `LiveEvents::skip_to_next_document` (src/live_events.rs), which shows the next DocumentStart
// to the budget (`let _ = budget.observe(&raw)`) precisely to reset the per-document counters;
// but with `events` already above the limit that call returns early with the (ignored) Events
// breach and never reaches the reset, so Y starts with X's event count and its first event
// breaches again.
//
// Run: cargo test --offline --test defect_6

use serde_saphyr::budget::{Budget, BudgetBreach, BudgetReport};
use serde_saphyr::{Error, Options};
use std::cell::RefCell;
use std::rc::Rc;

const X: &str = "[1,2,3,4,5,6,7,8]";
const Y: &str = "[1]";

fn read(stream: &str, budget: Budget) -> (Vec<Result<Vec<i32>, Error>>, Vec<BudgetReport>) {
    let sink: Rc<RefCell<Vec<BudgetReport>>> = Rc::new(RefCell::new(Vec::new()));
    let cb_sink = sink.clone();
    let mut options = Options::default();
    options.budget = Some(budget);
    let options = options.with_budget_report(move |r| cb_sink.borrow_mut().push(r));
    let mut reader = std::io::Cursor::new(stream.as_bytes().to_vec());
    let items: Vec<_> = serde_saphyr::read_with_options(&mut reader, options).collect();
    let reports = sink.borrow().clone();
    (items, reports)
}

fn events_budget() -> Budget {
    Budget {
        max_events: 6,
        ..Budget::default()
    }
}

#[test]
fn small_document_is_within_the_limit_on_its_own() {
    let (items, reports) = read(&format!("{Y}\n"), events_budget());
    assert_eq!(items.len(), 1);
    assert_eq!(items[0].as_ref().unwrap(), &vec![1]);
    assert_eq!(reports[0].events, 5);
    let (items, _) = read(&format!("{Y}\n---\n{Y}\n"), events_budget());
    assert!(items.iter().all(|i| i.is_ok()) && items.len() == 2);
}

#[test]
fn other_counters_recover_after_a_breached_document() {
    let (items, _) = read(
        &format!("{X}\n---\n{Y}\n"),
        Budget {
            max_nodes: 3,
            ..Budget::default()
        },
    );
    assert_eq!(items.len(), 2);
    assert!(matches!(
        items[0].as_ref().unwrap_err().without_snippet(),
        Error::Budget {
            breach: BudgetBreach::Nodes { .. },
            ..
        }
    ));
    assert_eq!(items[1].as_ref().unwrap(), &vec![1]);
}

#[test]
fn small_document_is_accepted_after_a_document_that_broke_max_events() {
    let (items, _) = read(&format!("{X}\n---\n{Y}\n"), events_budget());
    assert_eq!(items.len(), 2);
    assert!(matches!(
        items[0].as_ref().unwrap_err().without_snippet(),
        Error::Budget {
            breach: BudgetBreach::Events { .. },
            ..
        }
    ));
    assert!(
        items[1].is_ok(),
        "`[1]` uses 5 events (limit 6) but was rejected after the previous document: {}",
        items[1].as_ref().unwrap_err().without_snippet()
    );
}
