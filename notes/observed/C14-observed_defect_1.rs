//! Observed on the UNCHANGED crate (property C14, serializer side).
//!
//! A shared node whose payload serializes as `null` (`RcAnchor<Option<T>>` holding `None`, or
//! `RcAnchor<()>`) is written without its `&aN`: `serialize_none` / `serialize_unit` in src/ser.rs
//! never call `write_scalar_prefix_if_anchor`, so `pending_anchor_id` stays set and is attached to
//! the NEXT node that is written. The later alias `*aN` then refers to that unrelated node:
//!     a: null
//!     b: &a1 5
//!     c: *a1
//! After the round trip `c` is `Some(5)` instead of `None`, and `a` / `c` are no longer shared.
use serde::{Deserialize, Serialize};
use serde_saphyr::RcAnchor;
use std::rc::Rc;

#[derive(Serialize, Deserialize, Debug)]
struct Doc {
    a: RcAnchor<Option<i32>>,
    b: i32,
    c: RcAnchor<Option<i32>>,
}

#[test]
fn shared_none_payload_round_trips() {
    let n = Rc::new(None);
    let doc = Doc { a: RcAnchor(n.clone()), b: 5, c: RcAnchor(n) };
    let yaml = serde_saphyr::to_string(&doc).unwrap();
    let back: Doc = serde_saphyr::from_str(&yaml).unwrap_or_else(|e| panic!("{e}\nyaml:\n{yaml}"));
    assert_eq!(*back.a.0, None, "yaml:\n{yaml}");
    assert_eq!(back.b, 5);
    assert_eq!(*back.c.0, None, "alias resolved to an unrelated node; yaml:\n{yaml}");
    assert!(Rc::ptr_eq(&back.a.0, &back.c.0), "sharing lost; yaml:\n{yaml}");
}
