//! Observed on the UNCHANGED crate with the valid option indent_step = 1: a STRUCT VARIANT that is
//! a sequence item is emitted as
//!
//!     - S:
//!       a: x
//!       b: y
//!
//! The fields are written at depth (dash depth + 2) * indent_step = column 2, which is the column
//! of the label `S` (dash column + 2), so the item reads as {S: null, a: x, b: y} and
//! deserialization fails with "missing field `a`".  (With indent_step >= 2 the fields are deeper
//! than the label and all is well.)  The same holds for struct variants nested in tuples, tuple
//! structs and tuple variants.
use serde::{Deserialize, Serialize};

#[derive(Serialize, Deserialize, PartialEq, Debug, Clone)]
enum En {
    S { a: String, b: String },
}

#[test]
fn struct_variant_sequence_item_with_indent_step_1_round_trips() {
    let v = vec![En::S { a: "x".into(), b: "y".into() }];
    let opts = serde_saphyr::ser_options! { indent_step: 1 };
    let text = serde_saphyr::to_string_with_options(&v, opts).unwrap();
    let back: Vec<En> = serde_saphyr::from_str(&text)
        .unwrap_or_else(|e| panic!("emitted text does not parse back:\n{text}\nerror: {e}"));
    assert_eq!(back, v, "emitted text:\n{text}");
}
