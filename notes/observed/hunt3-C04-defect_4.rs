// C04 defect 4: a mapping that is read into an externally tagged ENUM never sees the
// duplicate-key policy
//
// Violated clause: "When the same key node ... occurs more than once among a mapping's own
// entries, the Error policy fails with a duplicate-key error located at the repeated key,
// FirstWins gives the result of the document with every later entry (its key and its whole value)
// deleted" - stated for every mapping; the README says the same without restriction ("Duplicate key
// handling is configurable. By default it's an error; "first wins" and "last wins" strategies are
// available via Options").
//
// Minimal input, target `enum E { A(i32), .. }`:
//
//     {A: 1, A: 2}
//
// What the crate does, under all three policies alike:
//     "expected end of mapping after enum variant value" (line 1 column 8)
//   - Error: the failure is not the duplicate-key error (no hint at DuplicateKeyPolicy, and the
//     message claims a structural problem although the repeated key is the only thing wrong);
//   - FirstWins: the document with the later entry deleted is `{A: 1}`, which is `E::A(1)`; the
//     crate fails instead. The later entry may have any size: `{A: 1, A: {x: [1, 2, {y: z}]}}`.
//   The same inside a larger document (`k: {A: 1, A: 2}` read into BTreeMap<String, E>), and for
//   struct variants at the variant level (`{B: {x: 1}, B: {x: 2}}`).
//   (Inside the payload the policy IS applied: `B: {x: 1, x: 2}` works as specified, see control.)
//
// What it should do: Error -> duplicate-key error at line 1 column 8; FirstWins -> E::A(1).
//
// Cause: src/de.rs `deserialize_enum`, arm `Some(Ev::MapStart { .. })`: the mapping is consumed by
// hand (`expect_map_start`, one `next()` for the variant name, then `VA::expect_map_end`), not
// through `MA::next_key_seed`, so `cfg.dup_policy` is never consulted: there is neither a
// seen-set nor a `skip_one_node` for the entries that follow the first one.
//
// Note: enum targets are not among the target kinds listed in the property's "quantified over"
// line (map / list of pairs / struct); the statement itself and the crate documentation make no
// such exception.
//
// Run: cargo test --offline --test defect_4

use serde::Deserialize;
use serde_saphyr::options::DuplicateKeyPolicy;
use std::collections::BTreeMap;

#[derive(Debug, Deserialize, PartialEq)]
enum E {
    A(i32),
    B { x: i32 },
}

fn parse<T: serde::de::DeserializeOwned>(
    yaml: &str,
    policy: DuplicateKeyPolicy,
) -> Result<T, serde_saphyr::Error> {
    let opts = serde_saphyr::options! { duplicate_keys: policy, };
    serde_saphyr::from_str_with_options::<T>(yaml, opts)
}

#[test]
fn control_policy_applies_inside_the_variant_payload() {
    let yaml = "B: {x: 1, x: 2}\n";
    let e = parse::<E>(yaml, DuplicateKeyPolicy::Error).unwrap_err();
    assert!(e.to_string().contains("duplicate mapping key"), "{e}");
    assert_eq!(parse::<E>(yaml, DuplicateKeyPolicy::FirstWins).unwrap(), E::B { x: 1 });
}

#[test]
fn error_policy_reports_the_repeated_variant_key_as_duplicate_key() {
    let e = parse::<E>("{A: 1, A: 2}\n", DuplicateKeyPolicy::Error).unwrap_err();
    assert!(
        e.to_string().contains("duplicate mapping key"),
        "expected the duplicate-key error, got: {e}"
    );
    let loc = e.location().expect("location");
    assert_eq!((loc.line(), loc.column()), (1, 8));
}

#[test]
fn first_wins_deletes_the_later_entry_scalar_value() {
    let got = parse::<E>("{A: 1, A: 2}\n", DuplicateKeyPolicy::FirstWins)
        .unwrap_or_else(|e| panic!("FirstWins must read `{{A: 1}}`: {e}"));
    assert_eq!(got, E::A(1));
}

#[test]
fn first_wins_deletes_the_later_entry_large_value() {
    let got = parse::<E>("A: 1\nA:\n  x: [1, 2, {y: z}]\n  w: ~\n", DuplicateKeyPolicy::FirstWins)
        .unwrap_or_else(|e| panic!("FirstWins must read `A: 1`: {e}"));
    assert_eq!(got, E::A(1));
}

#[test]
fn first_wins_struct_variant_repeated_at_the_variant_level() {
    let got = parse::<E>("{B: {x: 1}, B: {x: 2}}\n", DuplicateKeyPolicy::FirstWins)
        .unwrap_or_else(|e| panic!("FirstWins must read `{{B: {{x: 1}}}}`: {e}"));
    assert_eq!(got, E::B { x: 1 });
}

#[test]
fn nested_in_a_larger_document() {
    let yaml = "k: {A: 1, A: 2}\nz: {A: 3}\n";
    let e = parse::<BTreeMap<String, E>>(yaml, DuplicateKeyPolicy::Error).unwrap_err();
    assert!(
        e.to_string().contains("duplicate mapping key"),
        "expected the duplicate-key error, got: {e}"
    );
    let got = parse::<BTreeMap<String, E>>(yaml, DuplicateKeyPolicy::FirstWins)
        .unwrap_or_else(|e| panic!("FirstWins: {e}"));
    assert_eq!(got, BTreeMap::from([("k".to_owned(), E::A(1)), ("z".to_owned(), E::A(3))]));
}
