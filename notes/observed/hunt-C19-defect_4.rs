// C19 defect 4: the seconds field of a sexagesimal literal is not evaluated exactly: `SS.frac` is
// assembled as  SS + (frac_digits / 10^n)  (two roundings) instead of being the IEEE-754 value of
// the decimal that is written.
// Needs: cargo test --offline --features robotics --test defect_4
//
// Violated clause: "Robotics expressions evaluate totally and exactly ... every accepted
// arithmetic / angle expression yields the IEEE-754 result of evaluating it".
//
// Minimal input (angle_conversions on, target f64):   0:0:1.14      (README: "hh_mm_secs ... # Time")
// What the crate does: 1.1400000000000001 (0x3FF23D70A3D70A3E); the plain literal 1.14 and the
//   expression 0*3600 + 0*60 + 1.14 both give 1.14 (0x3FF23D70A3D70A3D). 831 of the 66600 seconds
//   values SS.f, SS.ff, SS.fff (SS in 0..59) are off by one ulp like this, e.g. 1.36, 1.39, 1.57.
//   The error propagates to angles: deg(0:0:1.14) != deg(1.14/3600).
// What it should do: 0:0:1.14 == 1.14 exactly; deg(0:0:S) == deg(S/3600).
// Cause: src/robotics.rs Parser::try_parse_sexagesimal: `secs = secs_u as f64; ... secs += frac;`
//   with `frac` from read_frac_part_unders (`num / scale`): the fraction is rounded once on its
//   own and the sum is rounded again, instead of parsing the text "SS.frac" as one decimal.

use serde_saphyr::{from_str_with_options, Options};

fn on() -> Options {
    serde_saphyr::options! { angle_conversions: true }
}

fn eval(y: &str) -> f64 {
    from_str_with_options::<f64>(y, on()).unwrap()
}

#[test]
fn sexagesimal_seconds_are_exact() {
    assert_eq!(eval("1.14"), 1.14);
    assert_eq!(eval("0*3600 + 0*60 + 1.14"), 1.14);
    let got = eval("0:0:1.14");
    assert_eq!(
        got.to_bits(),
        1.14f64.to_bits(),
        "0:0:1.14 evaluated to {got:?}, not to 1.14"
    );
}

#[test]
fn sexagesimal_angle_seconds_are_exact() {
    // 1.14 arc seconds
    let want = eval("deg(1.14/3600)");
    let got = eval("deg(0:0:1.14)");
    assert_eq!(got.to_bits(), want.to_bits(), "deg(0:0:1.14) = {got:?}, deg(1.14/3600) = {want:?}");
}
