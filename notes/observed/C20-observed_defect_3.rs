//! Observed on the UNCHANGED crate (property C20), smaller items:
//!
//! (a) `LitStr("\n")` / `LitString("\n")` is written as "|\n  \n" (the "historical output" kept
//!     in src/ser.rs serialize_str, `historical_empty`); followed by another mapping entry it
//!     reads back as "" (as the last node of the document it reads back as "\n") - the literal
//!     wrapper, unlike the folded one, has no documented "modulo one line break" licence.
//! (b) A struct variant inside a `FlowSeq` is written in block form in the middle of the flow
//!     sequence ("[S:\n  x: 1, N: 2]"), which does not parse; the same value without the
//!     FlowSeq wrapper round-trips. (serialize_struct_variant ignores `in_flow`.)
//! (c) A newtype variant as the value of a `FlowMap` entry is written as "{a: N: 2}", which
//!     does not parse.

use serde::{Deserialize, Serialize};
use serde_json::Value;
use serde_saphyr::{FlowMap, FlowSeq, LitStr, to_string};
use std::collections::BTreeMap;

fn tree<T: Serialize>(v: &T) -> Value {
    let yaml = to_string(v).unwrap();
    serde_saphyr::from_str::<Value>(&yaml).unwrap_or_else(|e| panic!("{e}\n{yaml}"))
}

#[derive(Serialize)]
struct Doc<A: Serialize> {
    text: A,
    next: i32,
}

#[test]
fn literal_wrapper_of_a_single_line_break() {
    // (at the very end of a document the same scalar happens to read back as "\n")
    let with = Doc { text: LitStr("\n"), next: 1 };
    let without = Doc { text: "\n", next: 1 };
    assert_eq!(tree(&with), tree(&without));
}

#[derive(Serialize, Deserialize, Debug, PartialEq, Clone)]
enum E {
    S { x: i32 },
    N(i32),
}

#[test]
fn struct_variant_inside_flow_sequence() {
    let v = vec![E::S { x: 1 }, E::N(2)];
    assert_eq!(tree(&FlowSeq(v.clone())), tree(&v));
}

#[test]
fn newtype_variant_as_flow_mapping_value() {
    let m: BTreeMap<String, E> = [("a".to_string(), E::N(2))].into();
    assert_eq!(tree(&FlowMap(m.clone())), tree(&m));
}
