// DEFECT 3 (C17): `from_multiple` / `from_multiple_with_options` (and the `_valid` /
// `_validate` / `from_slice_multiple*` variants built on the same loop) return a located error
// WITHOUT its snippet when the error is met while looking for the first event of a document.
//
// (No optional features needed: cargo test --offline --test defect_3)
//
// Violated clause: "includes the line the location refers to with the marker under the
// reported column" / mechanism "snippet attached at the API boundary" (src/lib.rs
// maybe_with_snippet), and the documentation of `Options::with_snippet`: "If true (default),
// public APIs that have access to the original YAML input will wrap returned errors with a
// snippet wrapper, enabling rustc-like snippet rendering when a location is available."
//
// Minimal input:  "a: 1\n---\n@x\n"  (or just "@x\n") with `from_multiple::<HashMap<String, i32>>`.
// The crate prints only
//
//     unexpected character: `@' at line 3, column 1
//
// whereas `from_str` on "@x\n" - and `from_multiple` itself for an error found a token later,
// e.g. "a: 1\n---\nb: @x\n" - prints the window
//
//     error: line 1 column 1: unexpected character: `@'
//      --> <input>:1:1
//       |
//     1 | @x
//       | ^ unexpected character: `@'
//
// Expected: the error of `from_multiple` shows line 3 (`3 | @x`) with the caret under column 1.
//
// Cause: src/lib.rs `from_multiple_with_options` (and the copies of the loop in
// `from_multiple_with_options_valid` / `from_multiple_with_options_validate`) do
// `match src.peek()? { ... }` and `src.next()?`: errors of these two calls leave through `?`
// and never pass `maybe_with_snippet(e, input, with_snippet, crop_radius)`, unlike every other
// error path of the same functions.

use std::collections::HashMap;

fn assert_window(rendered: &str, line_no: u64, text: &str, column: usize) {
    let lines: Vec<&str> = rendered.lines().collect();
    let wanted = format!("{line_no} | {text}");
    let idx = lines
        .iter()
        .position(|l| l.trim_start() == wanted)
        .unwrap_or_else(|| panic!("source line `{wanted}` is missing from the report:\n{rendered}"));
    let text_start = lines[idx].find("| ").unwrap() + 2;
    let marker = lines.get(idx + 1).copied().unwrap_or("");
    assert_eq!(
        marker.find('^'),
        Some(text_start + column - 1),
        "marker not under column {column}:\n{rendered}"
    );
}

#[test]
fn from_multiple_error_at_document_start_has_its_snippet() {
    // sanity 1: the single-document entry point renders the window for the same error
    let err = serde_saphyr::from_str::<HashMap<String, i32>>("@x\n").unwrap_err();
    assert_window(&err.to_string(), 1, "@x", 1);
    // sanity 2: from_multiple renders windows for errors met inside a document
    let err = serde_saphyr::from_multiple::<HashMap<String, i32>>("a: 1\n---\nb: @x\n").unwrap_err();
    assert_window(&err.to_string(), 3, "b: @x", 4);

    // the defect: error while fetching the first event of the second document
    let err = serde_saphyr::from_multiple::<HashMap<String, i32>>("a: 1\n---\n@x\n").unwrap_err();
    let loc = err.location().expect("the error has a location");
    assert_eq!((loc.line(), loc.column()), (3, 1));
    assert_window(&err.to_string(), 3, "@x", 1);
}

#[test]
fn from_multiple_with_options_error_in_first_token_has_its_snippet() {
    let options = serde_saphyr::options! { with_snippet: true, crop_radius: 64 };
    let err = serde_saphyr::from_multiple_with_options::<HashMap<String, i32>>("@x\n", options)
        .unwrap_err();
    let loc = err.location().expect("the error has a location");
    assert_eq!((loc.line(), loc.column()), (1, 1));
    assert_window(&err.to_string(), 1, "@x", 1);
}
