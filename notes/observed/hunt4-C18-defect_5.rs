// Needs the optional feature garde: run with
//   cargo test --offline --features garde --test defect_5
//
// VIOLATED CLAUSE (property C18): "every reported field path is mapped to the position where
// that field's value is used in the YAML". (An enum is not in the list of shapes the property
// enumerates, but it is an ordinary validated type: garde derives `Validate` for enums and
// reports the fields of a struct variant as `<field>.<variant field>`.)
//
// MINIMAL INPUT:
//
//     enum Shape { Circle { #[garde(range(min = 1))] r: u32 } }
//     struct Root { #[garde(dive)] shape: Shape }
//
//     shape:
//       Circle:
//         r: 0
//
// WHAT THE CRATE DOES: "validation error at shape.r: lower than 1" without any position
// (Error::location() is None, no snippet). Only `shape` itself is in the path map.
// With `#[serde(tag = "type")]` (internally tagged; the mapping is read through
// deserialize_any/deserialize_map) the very same issue is located, which shows that the
// path `shape.r` is what the recorder would have stored.
//
// WHAT IT SHOULD DO: locate `shape.r` at line 3 column 8.
//
// CAUSE: src/de.rs, deserialize_enum(): the `VariantAccess` implementations (`VA` and the
// replay variant) build the payload deserializer with `YamlDeserializer::new(self.ev,
// self.cfg)` in newtype_variant_seed / tuple_variant / struct_variant, i.e. with `garde: None`:
// the PathRecorder that `self` carried is dropped, so nothing below an externally tagged enum
// variant is ever recorded.

use garde::Validate;
use serde::Deserialize;

#[derive(Debug, Deserialize, Validate)]
enum Shape {
    Circle {
        #[garde(range(min = 1))]
        r: u32,
    },
}

#[derive(Debug, Deserialize, Validate)]
struct Root {
    #[garde(dive)]
    shape: Shape,
}

#[derive(Debug, Deserialize, Validate)]
#[serde(tag = "type")]
enum TaggedShape {
    Circle {
        #[garde(range(min = 1))]
        r: u32,
    },
}

#[derive(Debug, Deserialize, Validate)]
struct TaggedRoot {
    #[garde(dive)]
    shape: TaggedShape,
}

#[test]
fn control_internally_tagged_variant_field_is_located() {
    // This passes: it only documents the expected behaviour.
    let err = serde_saphyr::from_str_valid::<TaggedRoot>("shape:\n  type: Circle\n  r: 0\n")
        .expect_err("r must be >= 1");
    let loc = err.location().expect("position of shape.r");
    assert_eq!((loc.line(), loc.column()), (3, 6));
}

#[test]
fn field_of_a_struct_variant_is_located() {
    let err = serde_saphyr::from_str_valid::<Root>("shape:\n  Circle:\n    r: 0\n")
        .expect_err("r must be >= 1");
    let rendered = err.to_string();
    assert!(rendered.contains("shape.r"), "{rendered}");
    let loc = err.location().unwrap_or_else(|| {
        panic!("the failed field `shape.r` must have a position (line 3 column 8); report:\n{rendered}")
    });
    assert_eq!((loc.line(), loc.column()), (3, 8), "report:\n{rendered}");
}
