// C17 defect 6 (needs --features miette): miette adapter, input with CRLF line breaks: every
// displayed source line ends with a spurious '?'.
//
// Violated clause: the report has to "show the right line" for "CRLF" input and "for the miette
// adapter": the lines shown are not the lines of the input ("a: [1]?" instead of "a: [1]"). The
// crate's own snippet renderer strips the CR of a CRLF pair (src/de/snippet.rs crop_window_text:
// "Strips a trailing `\r` from each line (CRLF normalization) to avoid column skew and terminal
// rendering issues").
//
// Minimal input: "a: [1]\r\nb: [1, X]\r\nc: [2]\r\n" into HashMap<String, Vec<i32>>, then
// serde_saphyr::miette::to_miette_report(&err, input, "f.yaml") rendered with miette's
// GraphicalReportHandler.
// What the crate does:
//      1 │ a: [1]?
//      2 │ b: [1, X]?
//        ·        ┬
//        ·        ╰── invalid i32
//      3 │ c: [2]?
// What it should do: "a: [1]" / "b: [1, X]" / "c: [2]".
//
// Cause: src/miette.rs to_miette_report_with_formatter() runs the whole source through
// sanitize_terminal_snippet_preserve_len(), which replaces every C0 byte except '\n' and '\t' by
// a visible '?' - including the '\r' of each CRLF line break (src/de/snippet.rs; the placeholder
// became visible when blanks were replaced by '?').
//
// Run: cargo test --offline --features miette --test defect_6

use std::collections::HashMap;

type M = HashMap<String, Vec<i32>>;

fn render(err: &serde_saphyr::Error, source: &str) -> String {
    let report = serde_saphyr::miette::to_miette_report(err, source, "f.yaml");
    let mut out = String::new();
    miette::GraphicalReportHandler::new_themed(miette::GraphicalTheme::unicode_nocolor())
        .render_report(&mut out, report.as_ref())
        .unwrap();
    out
}

#[test]
fn control_lf_input() {
    let input = "a: [1]\nb: [1, X]\nc: [2]\n";
    let err = serde_saphyr::from_str::<M>(input).unwrap_err();
    let out = render(&err, input);
    assert!(out.contains("b: [1, X]"), "{out}");
    assert!(!out.contains('?'), "{out}");
}

#[test]
fn crlf_input_lines_are_shown_as_they_are() {
    let input = "a: [1]\r\nb: [1, X]\r\nc: [2]\r\n";
    let err = serde_saphyr::from_str::<M>(input).unwrap_err();
    let out = render(&err, input);
    assert!(out.contains("b: [1, X]"), "{out}");
    assert!(
        !out.contains('?'),
        "the report shows characters that are not in the input:\n{out}"
    );
}
