// Defect 2 (property C11): single-document entry points accept a stream whose first document is
// followed by further top-level content, although no `...` end marker was seen.
//
// Violated clause: "single-document entry points reject any stream with a second document".
//
// Minimal input: "{a: 1}\n{b: 2}\n"   (also "[1]\n[2]\n", "\"a\"\n\"b\"\n", "--- 1\n:\n")
//   crate : from_str / from_slice / from_reader return Ok({a: 1}) - the second node is silently
//           dropped. from_multiple and read on the same input report
//           "did not find expected <document start> at line 2, column 1".
//   should: an error (either "multiple documents" or the syntax error), as from_multiple gives.
//
// Cause: src/lib.rs from_str_with_options_impl / from_reader_with_options (and the copies in
// from_str_with_options_and_path_recorder, the *_valid / *_validate variants and
// src/de/with_deserializer.rs enforce_single_document_and_finish): a scan error found while
// peeking past the first document is ignored when `src.seen_doc_end()` is true. The comments say
// this is meant for "trailing garbage after a proper document end marker (`...`)", but
// src/live_events.rs next_impl sets `seen_doc_end = true` on EVERY `Event::DocumentEnd`, and the
// parser also emits that event for an implicit document end (no `...` in the input). So any syntax
// error that follows a complete root node is swallowed.

use serde_json::{Value, json};

#[test]
fn from_str_rejects_second_top_level_node() {
    for input in ["{a: 1}\n{b: 2}\n", "[1]\n[2]\n", "\"a\"\n\"b\"\n", "--- 1\n:\n"] {
        // The stream as a whole is not acceptable to the multi-document entry point ...
        assert!(serde_saphyr::from_multiple::<Value>(input).is_err(), "{input:?}");
        // ... so a single-document entry point must not quietly return its first node.
        let r = serde_saphyr::from_str::<Value>(input);
        assert!(r.is_err(), "from_str({input:?}) returned {r:?}");
    }
}

#[test]
fn from_reader_rejects_second_top_level_node() {
    let input = "{a: 1}\n{b: 2}\n";
    let r = serde_saphyr::from_reader::<_, Value>(std::io::Cursor::new(input.as_bytes()));
    assert!(r.is_err(), "from_reader({input:?}) returned {r:?}");
}

#[test]
fn control_single_document_is_fine() {
    assert_eq!(serde_saphyr::from_str::<Value>("{a: 1}\n").unwrap(), json!({"a": 1}));
}
