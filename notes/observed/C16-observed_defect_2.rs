//! Observed on the UNCHANGED crate (property C16, clauses "a type error at a node is reported
//! at the position a span-carrying value would give for that node" and "the definition-site
//! location [is] that of the anchored node ... an error caused by such a value reports both").
//!
//! When the offending leaf sits INSIDE a container that is reached through an alias or a merge,
//! every enclosing level re-wraps the error with `attach_alias_locations_if_missing` (src/de.rs):
//! the innermost level builds the correct pair (use-site = alias token, definition-site = the
//! leaf), but the enclosing mapping-value level then replaces it by a new `AliasError` whose
//! definition-site is the start of the CONTAINER (`[` / `{`), and whose message embeds the
//! already-rendered inner error ("invalid i32 at line 1, column 13 (defined at line 1, column
//! 13) at line 2, column 4").  A `Spanned<i32>` at the same node reports the leaf position.
//! For a leaf that is directly the aliased / merged value the pair is right (control below).

use serde::Deserialize;
use serde::de::IgnoredAny;
use serde_saphyr::Spanned;

#[derive(Debug, Deserialize)]
#[allow(dead_code)]
struct Typed {
    a: IgnoredAny,
    b: Vec<i32>,
}

#[derive(Debug, Deserialize)]
#[allow(dead_code)]
struct Probe {
    a: IgnoredAny,
    b: Vec<Spanned<String>>,
}

#[test]
fn error_inside_aliased_sequence_names_the_offending_leaf() {
    let yaml = "a: &x [\"1\", two]\nb: *x\n";
    // what a span-carrying value reports for that node
    let probe: Probe = serde_saphyr::from_str(yaml).unwrap();
    let want_ref = probe.b[1].referenced;
    let want_def = probe.b[1].defined;
    assert_eq!((want_ref.line(), want_ref.column()), (2, 4)); // `*x`
    assert_eq!((want_def.line(), want_def.column()), (1, 13)); // `two`

    let err = serde_saphyr::from_str::<Typed>(yaml).unwrap_err();
    let locs = err.locations().expect("locations");
    assert_eq!(locs.reference_location, want_ref, "use-site: {err}");
    assert_eq!(locs.defined_location, want_def, "definition-site: {err}");
}

#[test]
fn error_inside_merged_container_value_names_the_offending_leaf() {
    #[derive(Debug, Deserialize)]
    #[allow(dead_code)]
    struct T {
        l: Vec<i32>,
    }
    #[derive(Debug, Deserialize)]
    #[allow(dead_code)]
    struct D {
        base: IgnoredAny,
        t: T,
    }
    let yaml = "base: &b {l: [1, zz]}\nt:\n  <<: *b\n";
    let err = serde_saphyr::from_str::<D>(yaml).unwrap_err();
    let locs = err.locations().expect("locations");
    assert_eq!((locs.reference_location.line(), locs.reference_location.column()), (3, 7));
    assert_eq!(
        (locs.defined_location.line(), locs.defined_location.column()),
        (1, 18),
        "definition-site must be `zz`, not the `[` of the enclosing sequence: {err}"
    );
}

#[test]
fn control_leaf_that_is_directly_the_aliased_value() {
    #[derive(Debug, Deserialize)]
    #[allow(dead_code)]
    struct D {
        a: IgnoredAny,
        b: Vec<i32>,
    }
    let yaml = "a: &a two\nb: [1, *a]\n";
    let err = serde_saphyr::from_str::<D>(yaml).unwrap_err();
    let locs = err.locations().expect("locations");
    assert_eq!((locs.reference_location.line(), locs.reference_location.column()), (2, 8));
    assert_eq!((locs.defined_location.line(), locs.defined_location.column()), (1, 7));
}
