//! Observed on the UNCHANGED crate (property C14; documented limitation of the reader, but the
//! writer produces the text).
//!
//! A weak edge to a LIVE target that comes before the strong occurrence in serialization order
//! (here simply by field order). The serializer defines the anchor at the weak site and writes
//! the strong occurrence as the alias:
//!     back: &a1
//!       v: 1
//!     owner: *a1
//! The deserializer requires the strong definition first and rejects its own output
//! ("weak Rc anchor refers to unknown anchor; strong anchor must be defined before weak").
use serde::{Deserialize, Serialize};
use serde_saphyr::{RcAnchor, RcWeakAnchor};
use std::rc::Rc;

#[derive(Serialize, Deserialize)]
struct Leaf {
    v: i32,
}
#[derive(Serialize, Deserialize)]
struct Doc {
    back: RcWeakAnchor<Leaf>,
    owner: RcAnchor<Leaf>,
}

#[test]
fn weak_edge_written_before_its_strong_target() {
    let l = Rc::new(Leaf { v: 1 });
    let doc = Doc { back: RcWeakAnchor(Rc::downgrade(&l)), owner: RcAnchor(l) };
    let yaml = serde_saphyr::to_string(&doc).unwrap();
    let back: Doc = serde_saphyr::from_str(&yaml).unwrap_or_else(|e| panic!("{e}\nyaml:\n{yaml}"));
    let up = back.back.upgrade().expect("weak resolves to its live target");
    assert!(Rc::ptr_eq(&up, &back.owner.0));
}
