// DEFECT 5 (C09): `Options::with_snippet = false` is honoured by from_str / from_slice /
// with_deserializer_from_str, but ignored by from_reader_with_options, which still wraps every
// located error in `Error::WithSnippet`.
//
// Violated clause: "For the same UTF-8 text, options and owned target type, from_str, from_slice,
// the closure-based deserializer helpers and from_reader [...] return the same value, or an error
// of the same kind at the same line and column". With the same options the in-memory entry points
// return `Error::InvalidScalar { .. }`, the reader entry point returns
// `Error::WithSnippet { error: InvalidScalar { .. }, .. }`, whose Display is the multi-line
// rustc-like rendering the option is there to switch off. The option's documentation
// (src/options.rs): "If true (default), public APIs that have access to the original YAML input
// will wrap returned errors with a snippet wrapper" - so with `false` nothing is to be wrapped.
//
// Minimal input: "- 1\n- x\n" into Vec<u8> with `options! { with_snippet: false }`.
//
// What the crate does:
//   from_str_with_options    -> "invalid u8 at line 2, column 3"
//   from_reader_with_options -> "error: line 2 column 3: invalid u8\n --> <input>:2:3\n  |\n1 | - 1\n..."
// What it should do: return the bare error from both.
//
// Cause: src/lib.rs `from_reader_with_options`: the `attach_snippet` closure only looks at
// `crop_radius == 0`; `options.with_snippet` is never read (compare `maybe_with_snippet`, used by
// the &str entry points, which tests `with_snippet && crop_radius > 0`).

#[test]
fn with_snippet_false_is_honoured_by_the_reader_entry_point() {
    let yaml = "- 1\n- x\n";
    let options = serde_saphyr::options! { with_snippet: false };

    let from_str = serde_saphyr::from_str_with_options::<Vec<u8>>(yaml, options.clone()).unwrap_err();
    assert!(!matches!(from_str, serde_saphyr::Error::WithSnippet { .. }));

    let from_reader =
        serde_saphyr::from_reader_with_options::<_, Vec<u8>>(yaml.as_bytes(), options).unwrap_err();
    assert!(
        !matches!(from_reader, serde_saphyr::Error::WithSnippet { .. }),
        "from_reader_with_options wrapped the error in a snippet although with_snippet is false:\n{from_reader}"
    );
    assert_eq!(from_str.to_string(), from_reader.to_string());
}
