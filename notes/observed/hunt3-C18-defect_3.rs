// C18 defect 3: `validator` issues of a document whose root is a sequence of structs are
// reported without any position (and under a made-up field name)
//
// Run with: cargo test --offline --features garde,validator --test defect_3
//
// Violated clause: "whenever it fails they return a validation error in which every reported
// field path is mapped to the position where that field's value is used in the YAML ...
// for both supported validation crates, string and reader entry points, single and
// multi-document" - for a sequence of structs at the root of the document.
//
// Minimal input:
//
//   - firstName: a
//   - firstName: okay
//
//   serde_saphyr::from_str_validate::<Vec<Item>>(yaml)      // Item: #[validate(length(min = 2))] first_name
//
// What the crate does: the error is rendered as
//   "validation error at _tmp_validator[0].first_name: length (min=2, value="a")"
// - no line/column, no snippet, `Error::location()` is None, and the path starts with
// `_tmp_validator`, an internal placeholder of the `validator` crate. The `garde` flavour
// (`from_str_valid::<Vec<Item>>`) reports `[0].firstName` at line 1, column 14 with a snippet.
// The same happens with from_multiple_validate / from_reader_validate / read_validate.
//
// What it should do: report `[0].firstName` at line 1, column 14, like the garde flavour.
//
// Cause: `validator` implements `Validate` for `Vec<T>` (and slices, arrays, sets, maps) by
// returning `ValidationErrors { "_tmp_validator": List(..) }`; when such a collection is a
// *field*, validator strips the placeholder itself (ValidationErrors::merge_self), at the root
// nobody does. src/de_error.rs collect_validator_issues_inner (and its twin
// src/miette.rs collect_validator_entries_inner) turn the placeholder into a real key segment,
// so the issue path is `_tmp_validator[0].first_name` (3 segments) while the path recorder
// stored `[0].firstName` (2 segments): PathMap::search can never match.
#![cfg(all(feature = "garde", feature = "validator"))]

use serde_saphyr::{DefaultMessageFormatter, RenderOptions, SnippetMode};

mod g {
    use garde::Validate;
    use serde::Deserialize;

    #[derive(Debug, Deserialize, Validate)]
    #[serde(rename_all = "camelCase")]
    pub struct Item {
        #[garde(length(min = 2))]
        pub first_name: String,
    }
}

mod v {
    use serde::Deserialize;
    use validator::Validate;

    #[derive(Debug, Deserialize, Validate)]
    #[serde(rename_all = "camelCase")]
    pub struct Item {
        #[validate(length(min = 2))]
        pub first_name: String,
    }
}

const YAML: &str = "- firstName: a\n- firstName: okay\n";

fn plain(e: &serde_saphyr::Error) -> String {
    let f = DefaultMessageFormatter;
    let mut o = RenderOptions::new(&f);
    o.snippets = SnippetMode::Off;
    e.render_with_options(o)
}

#[test]
fn garde_control_root_sequence_is_located() {
    let err = serde_saphyr::from_str_valid::<Vec<g::Item>>(YAML).expect_err("must fail");
    let loc = err.location().expect("garde flavour has a location");
    assert_eq!((loc.line(), loc.column()), (1, 14));
    assert!(plain(&err).contains("line 1, column 14"), "{}", plain(&err));
}

#[test]
fn validator_root_sequence_is_located_from_str() {
    let err = serde_saphyr::from_str_validate::<Vec<v::Item>>(YAML).expect_err("must fail");
    let text = plain(&err);
    assert!(
        text.contains("line 1, column 14"),
        "the failed field `[0].firstName` is at line 1, column 14, reported: {text}"
    );
    let loc = err.location().expect("validation error must have a location");
    assert_eq!((loc.line(), loc.column()), (1, 14));
    assert!(
        err.to_string().contains(" --> "),
        "string entry points render a snippet: {err}"
    );
}

#[test]
fn validator_root_sequence_path_has_no_placeholder() {
    let err = serde_saphyr::from_str_validate::<Vec<v::Item>>(YAML).expect_err("must fail");
    let text = plain(&err);
    assert!(
        !text.contains("_tmp_validator"),
        "internal placeholder of the validator crate leaks into the field path: {text}"
    );
}

#[test]
fn validator_root_sequence_is_located_from_reader_stream() {
    let yaml = "- firstName: okay\n---\n- firstName: okay\n- firstName: b\n";
    let mut reader = std::io::Cursor::new(yaml.as_bytes());
    let results: Vec<_> = serde_saphyr::read_validate::<_, Vec<v::Item>>(&mut reader).collect();
    assert_eq!(results.len(), 2);
    assert!(results[0].is_ok());
    let err = results[1].as_ref().expect_err("second document must fail");
    let text = plain(err);
    assert!(
        text.contains("line 4, column 14"),
        "the failed field `[1].firstName` is at line 4, column 14, reported: {text}"
    );
}
