//! Observed on the UNCHANGED crate: a SEQUENCE (Vec / tuple / tuple struct) used as a composite
//! map key is laid out wrongly as soon as the options differ from the defaults:
//!
//!  * indent_step = 4 (any step other than 2): the first element is inline after "? " (column 2)
//!    but the following elements are indented by one full step (column 4):
//!        ? - x
//!            - y
//!        : 1
//!    which reads back as the single element "x - y" or fails;
//!  * compact_list_indent = true (step 2): the following elements are at column 0:
//!        ? - x
//!        - y
//!        : 1
//!  * a tuple VARIANT key with compact_list_indent = true puts all its fields at column 0:
//!        ? T:
//!        - x
//!        - y
//!        : 1
use serde::{Deserialize, Serialize};
use std::collections::BTreeMap;

#[derive(Serialize, Deserialize, PartialEq, Eq, PartialOrd, Ord, Debug, Clone)]
enum K {
    T(String, String),
}

fn check<T: Serialize + serde::de::DeserializeOwned + PartialEq + std::fmt::Debug>(
    v: &T,
    opts: serde_saphyr::SerializerOptions,
) {
    let text = serde_saphyr::to_string_with_options(v, opts).unwrap();
    let back: T = serde_saphyr::from_str(&text)
        .unwrap_or_else(|e| panic!("emitted text does not parse back:\n{text}\nerror: {e}"));
    assert_eq!(&back, v, "emitted text:\n{text}");
}

fn seq_key_map() -> BTreeMap<Vec<String>, i32> {
    let mut m = BTreeMap::new();
    m.insert(vec!["x".to_string(), "y".to_string()], 1);
    m
}

#[test]
fn sequence_key_with_indent_step_4() {
    check(&seq_key_map(), serde_saphyr::ser_options! { indent_step: 4 });
}

#[test]
fn sequence_key_with_compact_list_indent() {
    check(&seq_key_map(), serde_saphyr::ser_options! { compact_list_indent: true });
}

#[test]
fn tuple_variant_key_with_compact_list_indent() {
    let mut m = BTreeMap::new();
    m.insert(K::T("x".into(), "y".into()), 1);
    check(&m, serde_saphyr::ser_options! { compact_list_indent: true });
}
