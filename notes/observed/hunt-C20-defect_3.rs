// C20 defect 3: `compact_list_indent: true` makes the document unreadable when a mapping value
// is an anchored EMPTY sequence.
//
// Violated clause: "all serializer options affect only the layout of the emitted document: it
// deserializes to the same data as without them".
//
// Minimal input:
//     struct Doc { a: RcAnchor<Vec<i32>>, b: i32, c: RcAnchor<Vec<i32>> }  (a, c share an empty Vec)
// Default options emit
//     a: &a1
//       []
//     b: 1
//     c: *a1
// which reads back fine. With `ser_options! { compact_list_indent: true }` the crate emits
//     a: &a1
//     []
//     b: 1
//     c: *a1
// The `[]` is in the column of the key `a`, so it is not the value of `a` any more and the parser
// fails with "simple key expect ':'". (For a non-empty sequence the compact form is fine because
// `- item` lines may sit in the key's column; a flow collection may not.)
//
// Expected: `a: &a1 []`, or the `[]` indented deeper than the key.
//
// Cause: src/ser.rs. serialize_seq (block branch) computes `depth_next = base` for
// `compact_list_indent` and calls `write_anchor_for_complex_node()`, which ends the line after
// `&a1`; `SeqSer::end` (the `self.first` / `empty_as_braces` branch) then finds `at_line_start`
// and writes `[]` with `write_indent(self.depth)`, i.e. in the key's column.
//
// Run: cargo test --offline --test defect_3

use serde::Serialize;
use serde_saphyr::{RcAnchor, ser_options};
use std::rc::Rc;

#[derive(Serialize)]
struct Doc {
    a: RcAnchor<Vec<i32>>,
    b: i32,
    c: RcAnchor<Vec<i32>>,
}

#[derive(Serialize)]
struct Outer {
    inner: Doc,
}

#[test]
fn compact_list_indent_with_anchored_empty_sequence() {
    let shared = Rc::new(Vec::<i32>::new());
    let doc = Doc {
        a: RcAnchor(shared.clone()),
        b: 1,
        c: RcAnchor(shared),
    };
    let reference = serde_saphyr::to_string(&doc).unwrap();
    let tree_ref: serde_json::Value = serde_saphyr::from_str(&reference).unwrap();
    assert_eq!(tree_ref, serde_json::json!({"a": [], "b": 1, "c": []}));

    let yaml =
        serde_saphyr::to_string_with_options(&doc, ser_options! { compact_list_indent: true })
            .unwrap();
    let tree: serde_json::Value = serde_saphyr::from_str(&yaml)
        .unwrap_or_else(|e| panic!("compact_list_indent broke the document: {e}\n{yaml}"));
    assert_eq!(tree, tree_ref, "document:\n{yaml}");
}

#[test]
fn compact_list_indent_with_anchored_empty_sequence_nested() {
    let shared = Rc::new(Vec::<i32>::new());
    let doc = Outer {
        inner: Doc {
            a: RcAnchor(shared.clone()),
            b: 1,
            c: RcAnchor(shared),
        },
    };
    let yaml =
        serde_saphyr::to_string_with_options(&doc, ser_options! { compact_list_indent: true })
            .unwrap();
    let tree: serde_json::Value = serde_saphyr::from_str(&yaml)
        .unwrap_or_else(|e| panic!("compact_list_indent broke the document: {e}\n{yaml}"));
    assert_eq!(tree, serde_json::json!({"inner": {"a": [], "b": 1, "c": []}}), "document:\n{yaml}");
}
