// DEFECT 1 (C06): the scalar payload of a tag-selected enum variant (`!Variant payload`) is
// silently re-tagged `!!str`, so it is no longer interpreted "from its text, style, tag, the
// requested Rust type and the options only".
//
// Property clauses violated:
//   "A scalar is interpreted from its text, style, tag, the requested Rust type and the options
//    only" / "typed entry points and the untyped inference order (null, bool, int, float,
//    string)" / "null-likes ... follow the documented tables".
//
// Minimal input:   `!Foo 5`   read as   enum E { Foo(serde_json::Value) }
//   crate:   E::Foo(Value::String("5"))            (also `!Foo true` -> String("true"),
//                                                   `!Foo 1.5` -> String("1.5"))
//   should:  E::Foo(Value::Number(5)) - exactly what the equivalent `Foo: 5` yields, and what
//            the same scalar `!Foo 5` yields when read as a bare serde_json::Value (Number(5)).
//
// Second symptom, same cause:   `!Foo null` / `!Foo ~`   read as   enum S { Foo(String) }
//   crate:   Ok(S::Foo("null")) / Ok(S::Foo("~"))
//   should:  the NullIntoString error ("cannot deserialize null into string; use
//            Option<String>") that `Foo: null`, `Foo: ~` and a plain `null` for a String give
//            (doc of deserialize_string: "Tagged null or plain null-like scalars (empty, `~`,
//            or case-insensitive `null`) are not valid `String`").
//   The inconsistency is visible inside one run: the same payload `!Foo null` is None for
//   Foo(Option<String>) and Null for Foo(Value), but the string "null" for Foo(String).
//
// Cause: src/de.rs, `deserialize_enum`, scalar arm building `Mode::TaggedNewtype`: the event is
// re-emitted with `tag: SfTag::String, raw_tag: None` instead of `SfTag::None`.  With the String
// tag `deserialize_any` takes the "string-ish" branch (no bool/int/float inference) and
// `deserialize_string`/`deserialize_str` skip the null check (`tag != &SfTag::String`).
// (The sequence arm of the same function correctly re-emits with `SfTag::None`.)
//
// Run: cargo test --offline --test defect_1

use serde::Deserialize;
use serde_json::Value;

#[derive(Debug, Deserialize, PartialEq)]
enum E {
    Foo(Value),
}

#[derive(Debug, Deserialize, PartialEq)]
enum S {
    Foo(String),
}

#[test]
fn tag_selected_variant_payload_keeps_untyped_inference() {
    for (tagged, mapped) in [
        ("!Foo 5", "Foo: 5"),
        ("!Foo true", "Foo: true"),
        ("!Foo 1.5", "Foo: 1.5"),
        ("!Foo 0x10", "Foo: 0x10"),
    ] {
        let via_tag: E = serde_saphyr::from_str(tagged).unwrap();
        let via_map: E = serde_saphyr::from_str(mapped).unwrap();
        assert_eq!(
            via_tag, via_map,
            "{tagged:?} and {mapped:?} carry the same plain scalar payload"
        );
    }
    // The bare scalar with the same application tag is a number as well.
    let bare: Value = serde_saphyr::from_str("!Foo 5").unwrap();
    assert_eq!(bare, Value::from(5));
}

#[test]
fn tag_selected_variant_payload_null_is_not_a_string() {
    for (tagged, mapped) in [("!Foo null", "Foo: null"), ("!Foo ~", "Foo: ~")] {
        let via_map = serde_saphyr::from_str::<S>(mapped);
        assert!(via_map.is_err(), "{mapped:?}: plain null is not a String");
        let via_tag = serde_saphyr::from_str::<S>(tagged);
        assert!(
            via_tag.is_err(),
            "{tagged:?}: plain null-like payload was accepted as the string {via_tag:?}"
        );
    }
}
