// DEFECT 1 (C05): a document that is a payload-less tagged variant (`!Variant`) is silently
// dropped by the multi-document entry points.
//
// Violated clause: "all enum notations (`Variant`, `{Variant: payload}`, `!Variant payload`) are
// honoured" / "every Rust position is filled from the YAML node at the corresponding position"
// (position = index of the document in the stream).
//
// Minimal input:  "--- !U\n--- !N 1\n"  read with from_multiple::<E>  (E { U, N(i32), ... })
//
// What the crate does:  returns [N(1)] - the first document has vanished. The same happens for
//   `!O` (newtype variant of Option -> O(None)), `!V` (newtype of Vec -> V([])), `!U ~`, and for
//   `read` / `from_slice_multiple`.  The single-document entry points read the very same document
//   text as a value: from_str::<E>("!U") == E::U, from_str::<E>("!O") == E::O(None).
// What it should do:  return [U, N(1)] (the documentation says that only "completely empty or
//   null-like (e.g. "", ~, null)" documents are skipped; the comment on `is_null_document` says
//   that a scalar that is a value for the single-document entry points is a value here, too).
//
// Cause: src/lib.rs `is_null_document` - it only exempts `SfTag::String` / `SfTag::Binary`; a
//   scalar with an application tag (`SfTag::Other`, i.e. `!Variant`) and empty / `~` / `null`
//   text is classified as a null document and consumed by the skipping loops of
//   `from_multiple_with_options`, `read_with_options` (and the *_valid / *_validate twins).
//
// Run: cargo test --offline --test defect_1

use serde::Deserialize;

#[derive(Debug, Deserialize, PartialEq)]
enum E {
    U,
    N(i32),
    O(Option<i32>),
    V(Vec<i32>),
}

#[test]
fn single_document_reads_tagged_payloadless_variants() {
    // Sanity: these are values for the single-document entry point.
    assert_eq!(serde_saphyr::from_str::<E>("!U").unwrap(), E::U);
    assert_eq!(serde_saphyr::from_str::<E>("!U ~").unwrap(), E::U);
    assert_eq!(serde_saphyr::from_str::<E>("!O").unwrap(), E::O(None));
    assert_eq!(serde_saphyr::from_str::<E>("!V").unwrap(), E::V(vec![]));
}

#[test]
fn from_multiple_keeps_tagged_unit_variant_document() {
    let docs: Vec<E> = serde_saphyr::from_multiple("--- !U\n--- !N 1\n").unwrap();
    assert_eq!(docs, vec![E::U, E::N(1)]);
}

#[test]
fn from_multiple_keeps_every_tagged_document() {
    let docs: Vec<E> =
        serde_saphyr::from_multiple("--- !N 1\n--- !U\n--- !O\n--- !V\n--- !U ~\n--- U\n").unwrap();
    assert_eq!(
        docs,
        vec![E::N(1), E::U, E::O(None), E::V(vec![]), E::U, E::U]
    );
}

#[test]
fn read_keeps_tagged_unit_variant_document() {
    let mut input = "--- !U\n--- !N 1\n".as_bytes();
    let docs: Vec<E> = serde_saphyr::read::<_, E>(&mut input)
        .collect::<Result<_, _>>()
        .unwrap();
    assert_eq!(docs, vec![E::U, E::N(1)]);
}
