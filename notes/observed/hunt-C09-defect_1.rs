// DEFECT 1 (C09): the reader entry points never return on a directive that runs into the end
// of the input, while from_str / from_slice return at once.
//
// Violated clause: "For the same UTF-8 text, options and owned target type, from_str,
// from_slice, the closure-based deserializer helpers and from_reader - under every partition of
// the bytes into read calls [...] - return the same value, or an error of the same kind at the
// same line and column".
//
// Minimal input: "%"  (also "%FOO", "%YAML", "%FOO bar", "a\n...\n%FOO" - any `%` line whose
// directive name, or whose reserved-directive parameter, is the last thing in the input with no
// line break after it; a leading BOM does not matter).
//
// What the crate does:
//   from_str("%")            -> Err(scan error "could not find expected directive name", 1:2)
//   from_str("a\n...\n%FOO") -> Ok("a")
//   from_reader(same bytes)  -> does not terminate: it spins at 100 % CPU, polls the reader for
//                               more bytes for ever and grows a String without bound (observed
//                               > 5 GB RSS before it was killed). Same for
//                               with_deserializer_from_reader and read().
// What it should do: return exactly what from_str returns.
//
// Cause: saphyr-parser-bw `Input::fetch_while_is_yaml_non_space` (default implementation in
// src/input.rs, used by `Scanner::scan_directive_name` / `scan_directive` in src/scanner.rs)
// loops `while is_yaml_non_space(self.look_ch())`. The streaming input
// (`BufferedInput::lookahead`, fed by serde-saphyr's src/buffered_input.rs `ChunkedChars`)
// reports end of input as an endless supply of '\0', and `is_yaml_non_space('\0')` is true, so
// the loop never ends. `StrInput` overrides the method with a bounded `take_while` over the
// remaining str, which is why the in-memory entry points are fine. serde-saphyr's
// src/live_events.rs `LiveEvents::from_reader` / src/buffered_input.rs give the parser no way to
// see a real end of input.
//
// The reader below panics once it has been polled 100 000 times after its end, so the test
// fails instead of hanging.

use std::io::Read;

struct Guarded<'a> {
    data: &'a [u8],
    pos: usize,
    chunk: usize,
    polls_after_end: usize,
}

impl Read for Guarded<'_> {
    fn read(&mut self, buf: &mut [u8]) -> std::io::Result<usize> {
        let n = self.chunk.min(buf.len()).min(self.data.len() - self.pos);
        if n == 0 {
            self.polls_after_end += 1;
            assert!(
                self.polls_after_end < 100_000,
                "the reader was polled 100000 times after the end of the input: from_reader does not terminate"
            );
            return Ok(0);
        }
        buf[..n].copy_from_slice(&self.data[self.pos..self.pos + n]);
        self.pos += n;
        Ok(n)
    }
}

fn outcome(r: Result<serde_json::Value, serde_saphyr::Error>) -> String {
    match r {
        Ok(v) => format!("Ok({v})"),
        Err(e) => {
            let e = e.without_snippet();
            format!(
                "Err({:?} at {:?})",
                std::mem::discriminant(e),
                e.location().map(|l| (l.line(), l.column()))
            )
        }
    }
}

fn check(input: &str) {
    let expected = outcome(serde_saphyr::from_str::<serde_json::Value>(input));
    for chunk in [1usize, 4096] {
        let reader = Guarded { data: input.as_bytes(), pos: 0, chunk, polls_after_end: 0 };
        let got = outcome(serde_saphyr::from_reader::<_, serde_json::Value>(reader));
        assert_eq!(expected, got, "input {input:?}, chunk size {chunk}");
    }
}

#[test]
fn lone_percent_sign() {
    check("%");
}

#[test]
fn reserved_directive_name_at_end_of_input() {
    check("%FOO");
}

#[test]
fn reserved_directive_parameter_at_end_of_input() {
    check("%FOO bar");
}

#[test]
fn directive_after_a_finished_document() {
    check("a\n...\n%FOO");
}
