// DEFECT 1 (property C05): a tag on a MAPPING node is silently ignored by enum deserialization.
//
// Violated clause: "all enum notations (`Variant`, `{Variant: payload}`, `!Variant payload`) are
// honoured ... unknown variants and kind mismatches are reported as errors, never silently
// re-synchronised."
//
// Minimal input:   !C {A: 1}        target: enum E { A(i32), B { x: i32 }, C, D(i32, i32) }
//
// What the crate does: returns Ok(E::A(1)). The tag `!C` (which names the variant in the
// `!Variant payload` notation) is dropped and the payload mapping is re-read as a
// `{Variant: payload}` notation, so a DIFFERENT variant than the one named by the tag is returned.
// The same happens for a tag that names no variant at all (`!Zzz {A: 1}` -> Ok(A(1))), although the
// very same tag on a scalar (`!Zzz C` -> "tagged enum `Zzz` does not match target enum `E`") or on
// a sequence (`!Zzz [1, 2]` -> "externally tagged enum expected scalar or mapping") is an error.
//
// What it should do: either build the variant named by the tag from the payload
// (`!B {x: 1}` -> B { x: 1 }) or fail; never return a variant the tag does not name.
//
// Cause: src/live_events.rs, next_impl(): `Event::MappingStart(anchor_id, _tag)` discards the tag
// (Ev::MapStart has no tag field at all, unlike Ev::Scalar / Ev::SeqStart), so
// src/de.rs deserialize_enum(), arm `Some(Ev::MapStart { .. })`, can neither select the variant
// from the tag nor run the TaggedEnumMismatch check that the scalar arm performs.
//
// Run: cargo test --offline --test defect_1      (no optional features needed)

use serde::Deserialize;

#[derive(Debug, Deserialize, PartialEq)]
enum E {
    A(i32),
    B { x: i32 },
    C,
    D(i32, i32),
}

fn describe(r: &Result<E, serde_saphyr::Error>) -> String {
    match r {
        Ok(v) => format!("Ok({v:?})"),
        Err(e) => format!("Err({})", e.to_string().lines().next().unwrap_or("")),
    }
}

#[test]
fn tag_naming_another_variant_is_not_ignored() {
    // `!C payload`: the tag names the unit variant C; the result can be C-related or an error,
    // but never the variant A that only occurs inside the payload.
    let r = serde_saphyr::from_str::<E>("!C {A: 1}");
    assert!(
        !matches!(r, Ok(E::A(1))),
        "`!C {{A: 1}}` was read as {} - the tag `!C` was silently dropped",
        describe(&r)
    );
}

#[test]
fn tag_naming_struct_variant_is_not_ignored() {
    // `!B {A: 1}`: B { x } cannot be built from {A: 1} -> must be an error.
    let r = serde_saphyr::from_str::<E>("!B {A: 1}");
    assert!(r.is_err(), "`!B {{A: 1}}` must fail, got {}", describe(&r));
}

#[test]
fn unknown_tag_on_mapping_is_reported_like_on_scalar_and_sequence() {
    // Reference behaviour of the crate itself for the other two node kinds:
    assert!(serde_saphyr::from_str::<E>("!Zzz C").is_err());
    assert!(serde_saphyr::from_str::<E>("!Zzz [1, 2]").is_err());
    // ... but on a mapping the unknown tag is swallowed:
    let r = serde_saphyr::from_str::<E>("!Zzz {A: 1}");
    assert!(r.is_err(), "`!Zzz {{A: 1}}` must fail, got {}", describe(&r));
}

#[test]
fn nested_in_a_sequence() {
    // The element says "variant A", the crate returns variant C.
    let r = serde_saphyr::from_str::<Vec<E>>("- !A {C: ~}\n");
    assert!(
        !matches!(r.as_deref(), Ok([E::C])),
        "`- !A {{C: ~}}` was read as [C] - the tag `!A` was silently dropped"
    );
}
