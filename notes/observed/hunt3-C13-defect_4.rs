// C13 defect 4: enum variants that carry a payload (newtype / tuple / struct variants) are
// emitted with the BLOCK layout even inside a flow collection (FlowSeq / FlowMap wrappers).
//
// Violated clause: "For every value composed of the Serde data-model shapes - ... unit /
// newtype / tuple / struct enum variants, nested arbitrarily - ... the emitted text is a single
// well-formed YAML document that deserializes back into an equal value of the same type."
// FlowSeq / FlowMap are the crate's own public layout wrappers ("Force a sequence to be emitted
// in flow style"); they only choose the style and must not change the tree.
//
// Minimal inputs (default options):
//   FlowSeq(vec![En::Sv { a: 1, b: 2 }])        ->  "[Sv:\n  a: 1b: 2]\n"
//       struct variant: "Sv:" + line break + block-indented fields, and because scalars inside
//       a flow collection do not end their line the fields run together ("a: 1b: 2").
//       Expected e.g. "[{Sv: {a: 1, b: 2}}]" / "[Sv: {a: 1, b: 2}]".
//   FlowMap({"k": En::Nv(1)})                   ->  "{k: Nv: 1}\n"
//   FlowMap({"k": En::Tv(1, 2)})                ->  "{k: Tv: [1, 2]}\n"
//       a nested "key: value" pair directly in flow-mapping-value position is not YAML; the
//       reader takes "Nv" as the value and fails ("invalid type: unit variant / unit value").
//       Expected "{k: {Nv: 1}}" and "{k: {Tv: [1, 2]}}".
//
// Cause: src/ser.rs, serialize_newtype_variant / serialize_tuple_variant /
// serialize_struct_variant never look at `self.in_flow`: they always write `Variant:` followed
// by the deferred-space / newline machinery of the block emitter (serialize_struct_variant even
// writes ":\n" and returns a StructVariantSer that indents fields with write_indent), and never
// wrap the single-pair mapping in braces when the parent is a flow mapping.
//
// Run: cargo test --offline --test defect_4
use serde::{Deserialize, Serialize};
use serde_saphyr::{FlowMap, FlowSeq};
use std::collections::BTreeMap;

#[derive(Debug, Clone, PartialEq, Serialize, Deserialize)]
enum En {
    Nv(i32),
    Tv(i32, i32),
    Sv { a: i32, b: i32 },
}

#[test]
fn struct_variant_inside_flow_sequence() {
    let v = FlowSeq(vec![En::Sv { a: 1, b: 2 }]);
    let yaml = serde_saphyr::to_string(&v).unwrap();
    let back: FlowSeq<Vec<En>> = serde_saphyr::from_str(&yaml)
        .unwrap_or_else(|e| panic!("emitted text does not read back: {e}\n{yaml}"));
    assert_eq!(back, v, "emitted:\n{yaml}");
}

#[test]
fn newtype_variant_as_flow_mapping_value() {
    let mut m = BTreeMap::new();
    m.insert("k".to_string(), En::Nv(1));
    let v = FlowMap(m);
    let yaml = serde_saphyr::to_string(&v).unwrap();
    let back: FlowMap<BTreeMap<String, En>> = serde_saphyr::from_str(&yaml)
        .unwrap_or_else(|e| panic!("emitted text does not read back: {e}\n{yaml}"));
    assert_eq!(back, v, "emitted:\n{yaml}");
}

#[test]
fn tuple_variant_as_flow_mapping_value() {
    let mut m = BTreeMap::new();
    m.insert("k".to_string(), En::Tv(1, 2));
    let v = FlowMap(m);
    let yaml = serde_saphyr::to_string(&v).unwrap();
    let back: FlowMap<BTreeMap<String, En>> = serde_saphyr::from_str(&yaml)
        .unwrap_or_else(|e| panic!("emitted text does not read back: {e}\n{yaml}"));
    assert_eq!(back, v, "emitted:\n{yaml}");
}

#[test]
fn struct_variant_as_flow_mapping_value() {
    let mut m = BTreeMap::new();
    m.insert("k".to_string(), En::Sv { a: 1, b: 2 });
    let v = FlowMap(m);
    let yaml = serde_saphyr::to_string(&v).unwrap();
    let back: FlowMap<BTreeMap<String, En>> = serde_saphyr::from_str(&yaml)
        .unwrap_or_else(|e| panic!("emitted text does not read back: {e}\n{yaml}"));
    assert_eq!(back, v, "emitted:\n{yaml}");
}
