// Defect 4 (property C11): a `---` marker does not end a root-level literal block scalar whose
// content is not indented; the following documents are swallowed into the string.
//
// Violated clauses: "A stream of documents deserializes as the list obtained by deserializing each
// document separately" and "single-document entry points reject any stream with a second document".
//
// Minimal input: "--- |\ntext\n--- |\nmore\n"
//   crate : from_multiple::<String> -> ["text\n--- |\nmore\n"] (ONE document);
//           from_str::<String> -> Ok("text\n--- |\nmore\n") (two-document stream accepted)
//   should: ["text\n", "more\n"], and from_str must report multiple documents.
//   A line that starts with `---` followed by white space is "c-forbidden" inside a document
//   (YAML 1.2.2 production [206]) and therefore always starts a new document. The crate gets it
//   right when `...` is used ("--- |\ntext\n...\n--- |\nmore\n" -> 2 documents) and when the
//   content is indented ("--- |\n text\n--- |\n more\n" -> 2 documents), and each of the two
//   documents on its own ("--- |\ntext\n") is accepted with the value "text\n".
//
// Cause: dependency saphyr-parser-bw 0.0.608, src/scanner.rs scan_block_scalar: for `indent == 0`
// the content loop only stops at `self.input.next_is_document_end()` (`...`), not at
// `next_is_document_start()` / `next_is_document_indicator()`. serde-saphyr (src/live_events.rs)
// passes the scalar through unchanged, so the multi-document entry points of src/lib.rs see a
// single document.

#[test]
fn document_start_marker_ends_a_zero_indented_root_block_scalar() {
    // each document on its own
    assert_eq!(serde_saphyr::from_str::<String>("--- |\ntext\n").unwrap(), "text\n");
    assert_eq!(serde_saphyr::from_str::<String>("--- |\nmore\n").unwrap(), "more\n");
    // control: the same stream with explicit end markers is split correctly
    let ctl: Vec<String> = serde_saphyr::from_multiple("--- |\ntext\n...\n--- |\nmore\n").unwrap();
    assert_eq!(ctl, vec!["text\n".to_string(), "more\n".to_string()]);

    let stream = "--- |\ntext\n--- |\nmore\n";
    let batch: Vec<String> = serde_saphyr::from_multiple(stream).unwrap();
    assert_eq!(batch, vec!["text\n".to_string(), "more\n".to_string()]);
}

#[test]
fn single_document_entry_point_rejects_the_two_document_stream() {
    let stream = "--- |\ntext\n---\nb: 2\n";
    let r = serde_saphyr::from_str::<String>(stream);
    assert!(r.is_err(), "two documents accepted as one: {r:?}");
}
