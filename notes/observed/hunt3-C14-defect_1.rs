// C14 defect 1: a small DAG with nested sharing ("diamond chain") does not survive the round trip:
// the reader re-expands every alias in full, so reading the crate's own (linear-size) output costs
// time / events exponential in the nesting depth of the sharing, and is rejected.
//
// Violated clause: "Serializing a graph whose nodes are shared through the anchor wrapper types
// emits each shared node once and references to it elsewhere, and deserializing that text rebuilds
// a graph with the same sharing relation" - quantified "for all generated object graphs (DAGs over
// Rc and Arc anchors with random sharing ...)". README: "To support round-tripping, the library can
// also deserialize into these anchor structures; this deserialization is identity-preserving."
//
// Minimal input: node k holds the SAME RcAnchor<N> in two fields `l` and `r`, pointing to node k-1:
//
//     struct N { id: u32, l: Option<RcAnchor<N>>, r: Option<RcAnchor<N>> }
//
// A chain of 17 such nodes (depth 16) is 17 allocations; `to_string` writes it as 52 lines /
// 1185 bytes:   `l: &a2 ... l: &a3 ...  r: *a3 ... r: *a2`   (every node once, every second use
// an alias - exactly as the property demands).
//
// What the crate does: `from_str` of that text fails with
//     "budget breached: Nodes { nodes: 250001 }"
// (default options). With the budget switched off it fails a little deeper with
// `AliasReplayLimitExceeded` (1_000_000 replayed events, depth 22: 23 nodes, ~2 KB of text), and
// with that limit lifted as well the read needs 2^depth events: there is NO option combination
// with which a depth-60 chain (61 nodes, a few KB) can be read back.
//
// What it should do: read the 17 / 23 nodes back (linear work): when `*aN` is met for a wrapper
// whose anchor id is already in the anchor store, the stored Rc is the answer - the target's
// subtree need not be expanded and deserialized again.
//
// Cause:
//  * src/live_events.rs, `next_impl` / `record`: the events of an alias expansion are *copied*
//    into the recording buffer of every enclosing anchored node (`self.record(&ev, ..)` in the
//    replay branch), so the buffer of node k is twice the size of the buffer of node k-1;
//  * src/anchors.rs, `RcAnchor::deserialize` / `ArcAnchor::deserialize` (`visit_newtype_struct`):
//    for an anchor id that is already stored (`existing == Some((_, Some(rc)))`) the whole replayed
//    subtree is still run through `T::deserialize(deserializer)` and the result dropped; the weak
//    wrappers do the same with `IgnoredAny`. Every replayed event is charged to the budget
//    (`observe_budget_for_replay`) and to `AliasLimits::max_total_replayed_events`.
//
// The same mechanism hits perfectly flat data: a `Vec<RcAnchor<Item>>` of 600 items in which every
// item holds an `RcWeakAnchor` to the previous item (19 KB of text, nesting depth 2) is rejected
// with the same `Nodes` breach, because the recorded buffer of item k contains the expansion of
// item k-1, which contains the expansion of item k-2, ... (quadratic work, and a nesting depth of
// k inside the reader although the text has depth 2; the third test runs on a large stack because
// of that).
//
// Run: cargo test --offline --test defect_1

use serde::{Deserialize, Serialize};
use serde_saphyr::RcAnchor;
use std::rc::Rc;

#[derive(Serialize, Deserialize)]
struct N {
    id: u32,
    l: Option<RcAnchor<N>>,
    r: Option<RcAnchor<N>>,
}

/// `depth + 1` allocations; node k refers to node k-1 twice (one shared allocation).
fn chain(depth: u32) -> RcAnchor<N> {
    let mut cur = Rc::new(N {
        id: 0,
        l: None,
        r: None,
    });
    for i in 1..=depth {
        cur = Rc::new(N {
            id: i,
            l: Some(RcAnchor(cur.clone())),
            r: Some(RcAnchor(cur)),
        });
    }
    RcAnchor(cur)
}

fn check(root: &RcAnchor<N>, depth: u32) {
    let mut cur = root;
    let mut seen = 0;
    loop {
        assert_eq!(cur.0.id, depth - seen);
        match (cur.0.l.as_ref(), cur.0.r.as_ref()) {
            (Some(l), Some(r)) => {
                assert!(Rc::ptr_eq(&l.0, &r.0), "l and r of node {} are one allocation", cur.0.id);
                cur = l;
                seen += 1;
            }
            (None, None) => break,
            _ => panic!("half a node"),
        }
    }
    assert_eq!(seen, depth);
}

#[test]
fn diamond_chain_of_17_nodes_reads_back_with_default_options() {
    let depth = 16;
    let yaml = serde_saphyr::to_string(&chain(depth)).unwrap();
    // the text is small and linear in the number of nodes: every node is written once
    assert!(yaml.len() < 2000, "{} bytes", yaml.len());
    assert_eq!(yaml.matches('&').count(), depth as usize + 1);
    assert_eq!(yaml.matches('*').count(), depth as usize);

    let back: RcAnchor<N> = serde_saphyr::from_str(&yaml)
        .unwrap_or_else(|e| panic!("the crate's own {} byte output does not read back: {e}", yaml.len()));
    check(&back, depth);
}

#[test]
fn diamond_chain_of_23_nodes_reads_back_without_budget() {
    let depth = 22;
    let yaml = serde_saphyr::to_string(&chain(depth)).unwrap();
    assert!(yaml.len() < 3000, "{} bytes", yaml.len());
    let options = serde_saphyr::options! { budget: None };
    let back: RcAnchor<N> = serde_saphyr::from_str_with_options(&yaml, options)
        .unwrap_or_else(|e| panic!("the crate's own {} byte output does not read back: {e}", yaml.len()));
    check(&back, depth);
}

#[derive(Serialize, Deserialize)]
struct Item {
    id: u32,
    prev: Option<serde_saphyr::RcWeakAnchor<Item>>,
}

#[test]
fn flat_list_of_600_items_with_weak_link_to_the_previous_item_reads_back() {
    // (large stack: the reader nests as deep as the chain of expansions, see above)
    std::thread::Builder::new()
        .stack_size(512 << 20)
        .spawn(|| {
            let n = 600usize;
            let mut v: Vec<RcAnchor<Item>> = Vec::new();
            for i in 0..n {
                let prev = v.last().map(|p| serde_saphyr::RcWeakAnchor::from(&p.0));
                v.push(RcAnchor(Rc::new(Item { id: i as u32, prev })));
            }
            let yaml = serde_saphyr::to_string(&v).unwrap();
            assert!(yaml.len() < 20_000, "{} bytes", yaml.len());
            let back: Vec<RcAnchor<Item>> = serde_saphyr::from_str(&yaml).unwrap_or_else(|e| {
                panic!("the crate's own {} byte output does not read back: {e}", yaml.len())
            });
            assert_eq!(back.len(), n);
            for i in 1..n {
                let prev = back[i].0.prev.as_ref().unwrap().upgrade().expect("live target");
                assert!(Rc::ptr_eq(&prev, &back[i - 1].0));
            }
        })
        .unwrap()
        .join()
        .unwrap();
}
