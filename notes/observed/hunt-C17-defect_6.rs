// C17 defect 6: a location on the (empty) line after the final line break - the usual position
// of end-of-input errors - is rendered on the previous line, one column past its end; the
// report contradicts itself about line and column
//
// Violated: "includes the line the location refers to with the marker under the reported
//   column".
//
// Minimal inputs (string and reader entry points behave alike):
//     "# c\n"            into i32          -> line 2 column 1: unexpected end of input
//     "---\n"            into i32          -> line 2 column 1: invalid i32
//     "a: 1\nb: !!int\n" into {a,b: i32}   -> line 3 column 1: invalid i32
//     "a: 1\nb: &x\n"    into {a,b: i32}   -> line 3 column 1: invalid i32
//
// What the crate does, e.g. for the third one:
//     error: line 3 column 1: invalid i32
//      --> <input>:2:10
//       |
//     1 | a: 1
//     2 | b: !!int
//       |         ^ invalid i32
//   Line 3 is not part of the window, the marker is under line 2 at column 10 (the line has 8
//   characters), and the origin line says `2:10` while the title says `line 3 column 1`.
//
// What it should do: show the empty line 3 and put the marker in its first column - exactly
//   what the crate's own secondary-window renderer does for this case
//   (src/de/snippet.rs `fmt_snippet_window_with_mapping_or_fallback`, block
//   `if window_end_row == total_lines && window_text.ends_with('\n') ...` prints `3 |` and
//   the marker below it).
//
// Cause: src/de/snippet.rs `Snippet::fmt_or_fallback` / `crop_window_text`: for a location on
//   the implicit trailing empty line the span is rebased to `out.len()` ("rebase the annotation
//   span to the new end of output"), i.e. to the byte after the last `\n`; annotate-snippets has
//   no line for that offset and attaches the annotation to the last real line, past the `\n`.
//
// Run: cargo test --offline --test defect_6

use serde::Deserialize;
use serde::de::DeserializeOwned;

#[derive(Debug, Deserialize)]
#[allow(dead_code)]
struct S {
    a: i32,
    b: i32,
}

fn check(rendered: &str, line: u64, column: u64, what: &str) {
    let lines: Vec<&str> = rendered.lines().collect();
    let m = lines
        .iter()
        .position(|l| l.trim_start().starts_with('|') && l.contains('^'))
        .unwrap_or_else(|| panic!("{what}: no marker line:\n{rendered}"));
    let src = lines[m - 1];
    let number = src.split('|').next().unwrap().trim();
    assert_eq!(
        number,
        line.to_string(),
        "{what}: the location is line {line} column {column}, the marker is below line {number:?}:\n{rendered}"
    );
    let marker = lines[m];
    let off = marker[marker.find('|').unwrap() + 1..marker.find('^').unwrap()]
        .chars()
        .count();
    assert_eq!(
        off as u64,
        1 + (column - 1),
        "{what}: marker column:\n{rendered}"
    );
    assert!(
        rendered.contains(&format!(":{line}:{column}\n")),
        "{what}: origin line does not say {line}:{column}:\n{rendered}"
    );
}

fn run<T: DeserializeOwned + std::fmt::Debug>(yaml: &str, line: u64, column: u64) {
    let err = serde_saphyr::from_str::<T>(yaml).unwrap_err();
    let loc = err.location().expect("location");
    assert_eq!((loc.line(), loc.column()), (line, column), "location of {yaml:?}");
    check(&err.to_string(), line, column, &format!("from_str {yaml:?}"));

    let err = serde_saphyr::from_reader::<_, T>(std::io::Cursor::new(yaml.as_bytes())).unwrap_err();
    let loc = err.location().expect("location");
    assert_eq!((loc.line(), loc.column()), (line, column), "location of {yaml:?}");
    check(&err.to_string(), line, column, &format!("from_reader {yaml:?}"));
}

#[test]
fn comment_only_document() {
    run::<i32>("# c\n", 2, 1);
}

#[test]
fn empty_explicit_document() {
    run::<i32>("---\n", 2, 1);
}

#[test]
fn tag_without_value_at_end_of_input() {
    run::<S>("a: 1\nb: !!int\n", 3, 1);
}

#[test]
fn anchor_without_value_at_end_of_input() {
    run::<S>("a: 1\nb: &x\n", 3, 1);
}

#[test]
fn control_location_on_a_real_line_is_rendered_in_place() {
    // Passes: same renderer, location on an existing line.
    run::<S>("a: 1\nb: zz\n", 2, 4);
}
