// EXTRA (not counted among the 6 reproducers; the "[already fixed] empty sequence value that
// follows a block-style sibling" fix is incomplete):
// with compact_list_indent an EMPTY sequence whose length is not announced
// (serialize_seq(None), e.g. Serializer::collect_seq over a filtering iterator) that follows a
// block-style sibling is still moved to its own line at the column of the key:
//     a:
//     - 8
//     b:
//     []          <- column 0: "simple key expect ':'"
// Cause: src/ser.rs serialize_seq - the "value following a block sibling: force a newline now"
// branch is skipped only for `_len == Some(0)`; with `_len == None` the newline is written before
// the emitter knows that the sequence is empty, and SeqSer::end then writes "[]" at
// `indent_step * depth` where depth == base under compact_list_indent.

use serde::ser::{Serialize, SerializeStruct, Serializer};
use serde::Deserialize;

struct Evens<'a>(&'a [i32]);
impl Serialize for Evens<'_> {
    fn serialize<S: Serializer>(&self, s: S) -> Result<S::Ok, S::Error> {
        // Filter's size_hint has no exact length -> serialize_seq(None)
        s.collect_seq(self.0.iter().filter(|x| **x % 2 == 0))
    }
}

struct Doc<'a> {
    a: Vec<i32>,
    b: Evens<'a>,
}
impl Serialize for Doc<'_> {
    fn serialize<S: Serializer>(&self, s: S) -> Result<S::Ok, S::Error> {
        let mut st = s.serialize_struct("Doc", 2)?;
        st.serialize_field("a", &self.a)?;
        st.serialize_field("b", &self.b)?;
        st.end()
    }
}

#[derive(Deserialize, Debug, PartialEq)]
struct DocBack {
    a: Vec<i32>,
    b: Vec<i32>,
}

#[test]
fn empty_unsized_sequence_after_block_sibling_compact() {
    let doc = Doc { a: vec![8], b: Evens(&[1, 3]) };
    let yaml = serde_saphyr::to_string_with_options(
        &doc,
        serde_saphyr::ser_options! { compact_list_indent: true },
    )
    .unwrap();
    let back: DocBack = serde_saphyr::from_str(&yaml)
        .unwrap_or_else(|e| panic!("emitted text does not parse back: {e}\n{yaml}"));
    assert_eq!(back, DocBack { a: vec![8], b: vec![] }, "emitted:\n{yaml}");
}
