// DEFECT 3 (C09): deserializing into a borrowed `&str` skips every check and conversion the
// owned `String` path applies to the scalar's tag and to `Options::no_schema`, so the borrowed
// variant returns a different text than the owned one, or succeeds where the owned one fails.
//
// Violated clause: "Deserializing into borrowed strings succeeds exactly when the scalar appears
// verbatim in the input and then yields the same text as the owned variant".
//
// Minimal inputs and behaviour (from_str / from_slice / with_deserializer_from_str):
//   "!!binary aGVsbG8="      String -> "hello" (base64 decoded, documented for !!binary)
//                            &str   -> "aGVsbG8="        (should fail: "hello" is not in the input)
//   "!!binary ???"           String -> Err(invalid !!binary base64)      &str -> Ok("???")
//   "!!int 42"               String -> Err(cannot deserialize tagged scalar into string)
//                            &str   -> Ok("42")
//   "123" with no_schema     String -> Err("The string value [123] must be quoted")
//                            &str   -> Ok("123")
// The same holds for `Cow<str>` fields with `#[serde(borrow)]`, which also go through
// `deserialize_str`.
// What it should do: the borrowed variant must fail (or, for !!binary, refuse to borrow because
// the decoded text does not appear in the input) whenever the owned one does; it must never
// return a text the owned variant would not return.
//
// Cause: src/de.rs `YamlDeserializer::deserialize_str`. After the null check it calls
// `take_scalar_cow_with_location()` and hands a `Cow::Borrowed` straight to
// `visit_borrowed_str`; the tag is dropped (`_tag`). `deserialize_string` in the same file
// decodes `SfTag::Binary` through `take_string_scalar`, rejects tags for which
// `can_parse_into_string()` is false and applies the `no_schema` / `maybe_not_string` check.

#[test]
fn binary_scalar_borrowed_text_equals_owned_text() {
    let yaml = "!!binary aGVsbG8=";
    let owned: String = serde_saphyr::from_str(yaml).unwrap();
    assert_eq!(owned, "hello");
    match serde_saphyr::from_str::<&str>(yaml) {
        // "hello" does not appear in the input, so borrowing has to be refused
        Err(_) => {}
        Ok(borrowed) => assert_eq!(borrowed, owned, "borrowed and owned variants disagree"),
    }
}

#[test]
fn scalar_tagged_int_is_no_string_for_either_variant() {
    let yaml = "!!int 42";
    assert!(serde_saphyr::from_str::<String>(yaml).is_err());
    let borrowed = serde_saphyr::from_str::<&str>(yaml);
    assert!(borrowed.is_err(), "owned variant fails, borrowed variant returned {borrowed:?}");
}

#[test]
fn no_schema_applies_to_borrowed_strings_too() {
    let yaml = "123";
    let options = serde_saphyr::options! { no_schema: true };
    assert!(serde_saphyr::from_str_with_options::<String>(yaml, options.clone()).is_err());
    let borrowed = serde_saphyr::from_str_with_options::<&str>(yaml, options);
    assert!(borrowed.is_err(), "owned variant fails, borrowed variant returned {borrowed:?}");
}
