// C17 defect 4: when a line of the window is longer than 4 KiB the context lines are cropped
// twice - they show the wrong columns and are no longer aligned with the error line
//
// Violated: "shows ... the documented window (two lines of context either side, each line
//   cropped to the configured radius around the error column)"; documentation of
//   `Options::crop_radius`: "The renderer crops all displayed lines (including the context
//   lines) to the same column window around the reported error column, so they stay
//   vertically aligned."
//
// Minimal input (default crop_radius 64), 3 lines:
//     a: "abcdefghijklmnopqrstuvwxyzabc…"          (6000 characters, alphabet repeated)
//     b: <100 blanks>zz                             (error: invalid i32 at line 2 column 104)
//     c: "ABCDEFGHIJKLMNOPQRSTUVWXYZABC…"          (6000 characters)
//   into `struct D { a: String, b: i32, c: String }`.
//   Column window = [104-64, 104+64] = columns 40..=168.
//
// What the crate does: line 1 is shown as `…vwxyzabc…fgh…` = columns 79..=168 (90 characters)
//   printed where column 40 belongs, i.e. shifted 39 columns to the left against the error
//   line, and columns 40..=78 are missing. With 600 instead of 6000 characters per line (same
//   text inside the window) the correct `…jklmnopq…fgh…` = columns 40..=168 is shown.
//
// What it should do: the same window for the same columns, whatever the length of the part
//   of the line that lies outside the window.
//
// Cause: src/de/snippet.rs `crop_source_window` ("storage-time horizontal cropping", taken
//   when a line of the window exceeds 4 KiB or the window 16 KiB) already replaces a context
//   line by `…` + columns [left, right] + `…`. At render time `Snippet::fmt_or_fallback` ->
//   `crop_window_text` -> `crop_line_by_cols` crops that stored text *again* with the same
//   `[left, right]`, now counted in the already shifted text.
//
// Run: cargo test --offline --test defect_4

use serde::Deserialize;

#[derive(Debug, Deserialize)]
#[allow(dead_code)]
struct D {
    a: String,
    b: i32,
    c: String,
}

fn doc(n: usize) -> String {
    format!(
        "a: \"{}\"\nb: {}zz\nc: \"{}\"\n",
        ('a'..='z').cycle().take(n).collect::<String>(),
        " ".repeat(100),
        ('A'..='Z').cycle().take(n).collect::<String>()
    )
}

fn numbered_line(rendered: &str, n: usize) -> String {
    let prefix = format!("{n} | ");
    rendered
        .lines()
        .find_map(|l| l.trim_start().strip_prefix(prefix.as_str()))
        .unwrap_or_else(|| panic!("line {n} not shown:\n{rendered}"))
        .to_owned()
}

#[test]
fn context_lines_show_the_same_column_window_as_the_error_line() {
    let yaml = doc(6000);
    let err = serde_saphyr::from_str::<D>(&yaml).unwrap_err();
    let loc = err.location().unwrap();
    assert_eq!((loc.line(), loc.column()), (2, 104));
    let rendered = err.to_string();

    // Expected: columns 40..=168 of every line, `…` where something was cut off.
    for (n, line) in yaml.lines().enumerate() {
        let n = n + 1;
        let chars: Vec<char> = line.chars().collect();
        let right = 168.min(chars.len());
        let mut expected = String::from("…");
        expected.extend(&chars[39..right]);
        if right < chars.len() {
            expected.push('…');
        }
        assert_eq!(
            numbered_line(&rendered, n),
            expected,
            "line {n} is not cropped to columns 40..=168:\n{rendered}"
        );
    }
}

#[test]
fn window_does_not_depend_on_text_outside_of_it() {
    // Both documents are identical in columns 1..=600 of every line; the window is 40..=168.
    let long = serde_saphyr::from_str::<D>(&doc(6000)).unwrap_err().to_string();
    let short = serde_saphyr::from_str::<D>(&doc(600)).unwrap_err().to_string();
    assert_eq!(long, short);
}
