// DEFECT 4 (property C13): enum variants with a payload inside a flow collection
// (FlowMap / FlowSeq wrappers) are emitted with the block-style variant emitters - the text is
// not well-formed YAML or reads back as something else.
//
// Violated clause: "... unit / newtype / tuple / struct enum variants, nested arbitrarily - ...
// the emitted text is a single well-formed YAML document that deserializes back into an equal
// value of the same type."  (mechanism named by the property: "block / flow sequence and mapping
// emitters", "enum variant emitters in value and item position")
//
// Minimal inputs (default options), enum E { N(i32), T(i32, i32), S { a: i32 } }:
//   FlowMap({"k": E::N(1)})        emits  {k: N: 1}          -> not well-formed
//   FlowMap({"k": E::T(1, 2)})     emits  {k: T: [1, 2]}     -> not well-formed / wrong value
//   FlowMap({"k": E::S { a: 1 }})  emits  "{k: S:\n  a: 1}"  -> block mapping inside braces
//   FlowSeq([E::S { a: 1 }])       emits  "[S:\n  a: 1]"     -> block mapping inside brackets
// Expected e.g. {k: {N: 1}}, {k: {T: [1, 2]}}, {k: {S: {a: 1}}}, [{S: {a: 1}}].
// (FlowSeq([E::N(1)]) -> "[N: 1]" happens to be a legal single-pair flow entry and works.)
//
// Cause: src/ser.rs serialize_newtype_variant / serialize_tuple_variant /
// serialize_struct_variant never look at `self.in_flow`: they write "Variant:" (struct variants
// even "Variant:\n" followed by write_indent'ed "field: value" lines and a newline after every
// field) exactly as in block context, without wrapping the one-entry mapping in braces.

use serde::{Deserialize, Serialize};
use serde_saphyr::{FlowMap, FlowSeq};
use std::collections::BTreeMap;

#[derive(Serialize, Deserialize, Debug, PartialEq, Clone)]
enum E {
    N(i32),
    T(i32, i32),
    S { a: i32 },
}

fn flow_map_roundtrip(e: E) {
    let mut m = BTreeMap::new();
    m.insert("k".to_string(), e);
    let v = FlowMap(m);
    let yaml = serde_saphyr::to_string(&v).unwrap();
    let back: FlowMap<BTreeMap<String, E>> = serde_saphyr::from_str(&yaml)
        .unwrap_or_else(|e| panic!("emitted text does not parse back: {e}\n{yaml}"));
    assert_eq!(back, v, "emitted:\n{yaml}");
}

#[test]
fn newtype_variant_in_flow_map() {
    flow_map_roundtrip(E::N(1));
}

#[test]
fn tuple_variant_in_flow_map() {
    flow_map_roundtrip(E::T(1, 2));
}

#[test]
fn struct_variant_in_flow_map() {
    flow_map_roundtrip(E::S { a: 1 });
}

#[test]
fn struct_variant_in_flow_seq() {
    let v = FlowSeq(vec![E::S { a: 1 }]);
    let yaml = serde_saphyr::to_string(&v).unwrap();
    let back: FlowSeq<Vec<E>> = serde_saphyr::from_str(&yaml)
        .unwrap_or_else(|e| panic!("emitted text does not parse back: {e}\n{yaml}"));
    assert_eq!(back, v, "emitted:\n{yaml}");
}
