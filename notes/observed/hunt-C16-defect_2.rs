// DEFECT 2 - mapping KEYS reached through an alias (`*k: v`) or contributed by a merge
// (`<<: *m`) lose their use-site: Spanned::referenced equals the definition site, and a type
// error in such a key reports only the definition site (no alias / merge location at all).
//
// Property clause violated:
//   "For a value reached through an alias or a merge the use-site location is that of the
//    alias / merge entry and the definition-site location that of the anchored node, and an
//    error caused by such a value reports both."
//
// Minimal inputs:
//   (a)  1: &k foo            key of the 2nd entry is the alias `*k` (line 2, column 1)
//        *k : bar
//   (b)  base: &b {x: 1}      `d` receives key `x` through the merge entry `<<: *b` (3:7)
//        d:
//          <<: *b
//
// What the crate does:
//   (a) Spanned key: referenced = defined = 1:7 (`foo`); as BTreeMap<i32, String> the error is
//       "line 1 column 7: invalid i32" with Error::locations() = {1:7, 1:7} - line 2 is never
//       mentioned.
//   (b) Spanned key `x` in d: referenced = defined = 1:11, while the *value* of the same
//       merged entry correctly has referenced = 3:7 (`*b`). As BTreeMap<i32,i32> the error is
//       reported at 1:11 only.
// What it should do: referenced / reference_location = location of `*k` (2:1) resp. of the
//   merge entry (3:7), definition site as now; errors should be AliasError-style with both.
//
// Cause: src/de.rs, deserialize_map -> MA::deserialize_recorded_key(): the key node is captured
//   with capture_node() (which, for an alias, yields the *replayed definition* events) and then
//   deserialized from `ReplayEvents::new(events)` - without a reference override
//   (ReplayEvents::with_reference) and without attach_alias_locations_if_missing(). The use
//   site (Events::reference_location() before capture_node, or PendingEntry.reference_location
//   for merge-derived entries) is never consulted for keys.

use serde::de::{Deserializer, MapAccess, Visitor};
use serde::Deserialize;
use serde_saphyr::Spanned;
use std::collections::BTreeMap;
use std::fmt;

/// A mapping collected as a list of (spanned key, spanned value) pairs.
#[derive(Debug)]
struct Pairs(Vec<(Spanned<String>, Spanned<String>)>);

impl<'de> Deserialize<'de> for Pairs {
    fn deserialize<D: Deserializer<'de>>(d: D) -> Result<Self, D::Error> {
        struct V;
        impl<'de> Visitor<'de> for V {
            type Value = Pairs;
            fn expecting(&self, f: &mut fmt::Formatter) -> fmt::Result {
                f.write_str("a mapping")
            }
            fn visit_map<A: MapAccess<'de>>(self, mut a: A) -> Result<Pairs, A::Error> {
                let mut v = Vec::new();
                while let Some(k) = a.next_key()? {
                    let val = a.next_value()?;
                    v.push((k, val));
                }
                Ok(Pairs(v))
            }
        }
        d.deserialize_map(V)
    }
}

#[test]
fn spanned_key_through_alias_reports_the_alias_as_use_site() {
    let yaml = "1: &k foo\n*k : bar\n";
    let pairs: Pairs = serde_saphyr::from_str(yaml).unwrap();
    let (key, _) = &pairs.0[1];
    assert_eq!(key.value, "foo");
    assert_eq!((key.defined.line(), key.defined.column()), (1, 7));
    assert_eq!(
        (key.referenced.line(), key.referenced.column()),
        (2, 1),
        "use-site of the aliased key must be the alias token `*k`"
    );
}

#[test]
fn type_error_in_key_through_alias_reports_both_sites() {
    let yaml = "1: &k foo\n*k : bar\n";
    let err = serde_saphyr::from_str::<BTreeMap<i32, String>>(yaml).unwrap_err();
    let locs = err.locations().expect("locations");
    assert_eq!((locs.defined_location.line(), locs.defined_location.column()), (1, 7));
    assert_eq!(
        (locs.reference_location.line(), locs.reference_location.column()),
        (2, 1),
        "error: {}",
        err.to_string().lines().next().unwrap_or("")
    );
}

#[test]
fn spanned_key_from_merge_reports_the_merge_entry_as_use_site() {
    #[derive(Debug, Deserialize)]
    #[allow(dead_code)]
    struct Doc {
        base: BTreeMap<String, String>,
        d: Pairs,
    }
    let yaml = "base: &b {x: 1}\nd:\n  <<: *b\n";
    let doc: Doc = serde_saphyr::from_str(yaml).unwrap();
    let (key, value) = &doc.d.0[0];
    assert_eq!(key.value, "x");
    // The merged value already behaves as documented ...
    assert_eq!((value.referenced.line(), value.referenced.column()), (3, 7));
    assert_eq!((value.defined.line(), value.defined.column()), (1, 14));
    // ... the merged key does not.
    assert_eq!((key.defined.line(), key.defined.column()), (1, 11));
    assert_eq!(
        (key.referenced.line(), key.referenced.column()),
        (3, 7),
        "use-site of a merge-derived key must be the merge entry"
    );
}
