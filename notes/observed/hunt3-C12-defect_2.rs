// C12 defect 2: the explicit block-string wrappers LitStr / LitString (and FoldStr / FoldString)
// do not carry the strings "" and "\n".
//
// Violated clause: "Every string (any Unicode content and length) ... deserializes back ... as
// the identical value" and "no string is ever emitted in a form that reads back as null ... or a
// different string"; the LitStr documentation promises that the literal style "preserves
// newlines exactly".
//
// Minimal inputs (default options):
//   (a) struct W { w: Option<LitString> }   W { w: Some(LitString("")) }
//       is written as          w: |-
//       (a block scalar header with no content) and reads back as  W { w: None }:
//       a string became null.
//   (b) vec![LitString("\n"), LitString("x")]
//       is written as          - |
//                                <indent only>
//                              - |-
//                                x
//       Clip chomping (`|`) of a scalar that has no content line yields "", so the first item
//       reads back as "" instead of "\n" (only when the scalar happens to be the very last
//       thing in the stream does the parser return "\n").
//
// Expected: a form that reads back unchanged, e.g. `""` for the empty string and `"\n"` (or
// `|+` followed by one empty line) for "\n" - exactly what the serializer already does for the
// automatically selected block style and for every other content a block scalar cannot carry.
//
// Cause: src/ser.rs, `Serializer::serialize_str`: `historical_empty` exempts `v.is_empty() ||
// v == "\n"` from the `fits_block_scalar` check when the style comes from a wrapper
// (`!self.pending_str_from_auto`), so these two strings are still emitted as `|-` / `|` with
// no content line.
//
// Run: cargo test --offline --test defect_2

use serde::{Deserialize, Serialize};
use serde_saphyr::LitString;

#[derive(Serialize, Deserialize, Debug, PartialEq)]
struct W {
    w: Option<LitString>,
}

#[test]
fn some_empty_literal_string_is_not_null() {
    let v = W {
        w: Some(LitString(String::new())),
    };
    let yaml = serde_saphyr::to_string(&v).unwrap();
    let back: W = serde_saphyr::from_str(&yaml).unwrap();
    assert_eq!(back, v, "yaml: {yaml:?}");
}

#[test]
fn literal_string_of_one_line_break_survives() {
    let v = vec![LitString("\n".to_string()), LitString("x".to_string())];
    let yaml = serde_saphyr::to_string(&v).unwrap();
    let back: Vec<LitString> = serde_saphyr::from_str(&yaml).unwrap();
    assert_eq!(back, v, "yaml: {yaml:?}");
}
