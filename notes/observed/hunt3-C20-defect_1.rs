// C20 defect 1: `indent_step: 1` collapses the nesting of everything that sits below a
// mapping key (or enum variant label) of a block-sequence item.
//
// Violated clause: "all serializer options affect only the layout of the emitted document:
// it deserializes to the same data as without them".  `indent_step` is documented as
// "Number of spaces to indent per nesting level ... 0 value is invalid"; the `ser_options!`
// macro states "Valid range: 1..=65535", so 1 is a legal value.
//
// Minimal input: vec![{"a": {"b": 1, "c": 2}, "z": {"b": 1, "c": 2}}] with
// `ser_options! { indent_step: 1 }`.
//
// What the crate does: it writes
//     - a:
//       b: 1        <- column 2, the same column as `a`
//       c: 2
//       z:
//       b: 1
//       c: 2
// i.e. the keys of the inner mappings land in the column of the outer keys.  The document
// reads back as one flat mapping {a: null, b: .., c: .., z: null, b: .., c: ..} and is rejected
// (untyped: "duplicate mapping key: b"; typed: "expected mapping start"); with distinct inner
// keys an untyped reader silently gets different data.  The same happens to enum variants in a sequence: `- St:\n  a: 1\n  b: 2` reads as
// {St: null, a: 1, b: 2} instead of {St: {a: 1, b: 2}}.
// With the default step (2), or any step >= 2, the same values round-trip.
//
// What it should do: keep nested nodes strictly deeper than the key they belong to (e.g. by
// indenting relative to the real column of the key) or reject the option value.
//
// Cause: src/ser.rs.  The first key of a mapping that starts inline after a dash, and all its
// sibling keys (`MapSer::serialize_key`, `align_after_dash` branch), are written at
// `indent_step * (depth - 1) + 2` (the fixed width of "- "), but every node nested below
// them is indented with `write_indent(depth + 1)` = a multiple of `indent_step`
// (`serialize_map`: `depth_next = base + 1`; `serialize_struct_variant`: `depth_next = d + 2`;
// `serialize_newtype_variant`: `write_indent(base + 1)`).  For indent_step == 1 both are the
// same column.  (`compact_list_indent: true` adds `- a:\n - 1`, where the nested dash is even
// left of its key.)
//
// Run: cargo test --offline --test defect_1

use serde::{Deserialize, Serialize};
use std::collections::BTreeMap;

type Inner = BTreeMap<String, i32>;
type Outer = BTreeMap<String, Inner>;

fn inner() -> Inner {
    BTreeMap::from([("b".to_string(), 1), ("c".to_string(), 2)])
}

#[test]
fn indent_step_1_keeps_nested_mapping_below_its_key() {
    let value: Vec<Outer> = vec![BTreeMap::from([
        ("a".to_string(), inner()),
        ("z".to_string(), inner()),
    ])];

    // Reference: default options round-trip.
    let reference = serde_saphyr::to_string(&value).unwrap();
    assert_eq!(serde_saphyr::from_str::<Vec<Outer>>(&reference).unwrap(), value);

    let yaml =
        serde_saphyr::to_string_with_options(&value, serde_saphyr::ser_options! { indent_step: 1 })
            .unwrap();
    let back: Vec<Outer> = serde_saphyr::from_str(&yaml)
        .unwrap_or_else(|e| panic!("indent_step: 1 produced an unreadable document:\n{yaml}\n{e}"));
    assert_eq!(back, value, "indent_step: 1 changed the data:\n{yaml}");
}

#[derive(Serialize, Deserialize, Debug, PartialEq)]
enum E {
    St { a: i32, b: i32 },
}

#[test]
fn indent_step_1_keeps_struct_variant_fields_below_the_variant() {
    let value = vec![E::St { a: 1, b: 2 }];
    let yaml =
        serde_saphyr::to_string_with_options(&value, serde_saphyr::ser_options! { indent_step: 1 })
            .unwrap();
    // Untyped view: the fields must be the payload of `St`, not its siblings.
    let tree: serde_json::Value = serde_saphyr::from_str(&yaml).unwrap();
    assert_eq!(
        tree,
        serde_json::json!([{ "St": { "a": 1, "b": 2 } }]),
        "indent_step: 1 changed the data:\n{yaml}"
    );
    let back: Vec<E> = serde_saphyr::from_str(&yaml)
        .unwrap_or_else(|e| panic!("cannot read back:\n{yaml}\n{e}"));
    assert_eq!(back, value);
}
