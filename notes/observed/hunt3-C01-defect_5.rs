// DEFECT 5 - the miette report of an error whose message quotes input text with line breaks is
// rendered in quadratic time and space: 16 KB of YAML -> 64 MB of text in 7 s, 160 KB -> 6 GB,
// and a document well inside the default budget (one scalar of 1 MB) cannot be reported at all -
// the process is killed for memory long before the rendering ends.
//
// Needs the optional feature `miette`:
//     cargo test --offline --features miette --test defect_5
//
// Violated clause (property C01): "Turning any returned error into text is equally total"
// (no abort, terminates).
//
// (Same public surface as DEFECT 1 - `serde_saphyr::miette::to_miette_report` - but another
// mechanism: nothing is wide here, every line of the input is short.)
//
// Minimal input: a double-quoted scalar that consists of N `\n` escapes, read as an enum (or any
// other place where Serde's message quotes the offending text: unknown variant, invalid type
// `string "..."`, custom messages of user types):
//
//     "\n\n\n\n ... \n"        ->  unknown variant `<N line breaks>`, expected `A` or `B`
//
// What the crate does: `build_diagnostic` (src/miette.rs) puts the formatted message - which
// `sanitize_rendered` deliberately leaves its `\n` in - into the diagnostic *and* into the text
// of the label (`LabeledSpan::new_with_span(Some(message), span)`). miette's graphical reporter
// renders a label of N lines with N connector rows of O(N) width each. Measured (release):
//     N = 1000 ( 2 KB of YAML) ->   1.0 MB of report, 0.11 s
//     N = 2000 ( 4 KB)         ->   4.1 MB, 0.46 s
//     N = 4000 ( 8 KB)         ->  16.1 MB, 1.7 s
//     N = 8000 (16 KB)         ->  64.2 MB, 7.1 s
//     N = 70000 (140 KB)       ->   4.9 GB
// The crate's own renderer (`Error::to_string()`) is linear for the same errors (72 KB for N = 8000).
//
// What it should do: produce a report of a size proportional to the message (e.g. label with the
// first line / a bounded excerpt of the message, as the snippet renderer crops what it shows).
//
// Where: src/miette.rs `build_diagnostic` (the `other =>` arm and the `AliasError` arm: the whole
// message becomes the label text), `to_miette_report_with_formatter`.

use serde::Deserialize;

#[derive(Debug, Deserialize)]
#[allow(dead_code)]
enum E {
    A,
    B,
}

fn report_len(line_breaks: usize) -> (usize, usize, usize) {
    let yaml = format!("\"{}\"\n", "\\n".repeat(line_breaks));
    let err = serde_saphyr::from_str::<E>(&yaml).unwrap_err();
    let own = err.to_string().len();
    let report = serde_saphyr::miette::to_miette_report(&err, &yaml, "input.yaml");
    let rendered = format!("{report:?}");
    (yaml.len(), own, rendered.len())
}

#[test]
fn miette_report_size_is_proportional_to_the_message() {
    let (input_small, own_small, miette_small) = report_len(750);
    let (input_large, own_large, miette_large) = report_len(3000);
    eprintln!("N=750:  input {input_small} B, Error::to_string {own_small} B, miette report {miette_small} B");
    eprintln!("N=3000: input {input_large} B, Error::to_string {own_large} B, miette report {miette_large} B");

    // the crate's own rendering grows linearly: 4 x the input, about 4 x the text
    assert!(own_large < 6 * own_small);
    // the miette report of the same errors must do so as well (it grows 16-fold: quadratic) ...
    assert!(
        miette_large < 6 * miette_small,
        "4 x the line breaks, {} x the report ({} -> {} bytes)",
        miette_large / miette_small,
        miette_small,
        miette_large
    );
    // ... and stay within a sane factor of the input (it is 1500 x the input here).
    assert!(miette_large < 200 * input_large);
}
