// DEFECT 4 (C17): miette adapter - an error located at the very end of the input (a syntax
// error the scanner detects at end of input) loses its label: the report has no source
// excerpt and no marker at all.
//
// Needs the optional feature: run with
//   cargo test --offline --features garde,validator,miette,robotics --test defect_4
//
// Violated clause: "includes the line the location refers to with the marker under the
// reported column ... This holds ... for the miette adapter" (mechanism "miette conversion ...
// converts char spans to byte spans": src/miette.rs to_miette_report_with_formatter,
// to_source_span).
//
// Minimal input:  "a: 1\nb\n"  (any target type; here serde_json::Value).
// The scanner reports `simple key expect ':'` at line 3, column 1, span offset 7 - the position
// just after the final line break, i.e. offset == number of characters of the input.
// (Other inputs of the same kind: "a: 'abc\n" - unterminated quoted scalar, "%YAML 1.2" - a
// directive without a document, "- a: 1\n  b".)
//
// What the crate does: `to_miette_report(&err, yaml, "f.yaml")` yields a diagnostic whose
// `labels()` is `None`; miette prints only
//
//       x simple key expect ':'
//
// without the `[f.yaml:3:1]` position and without any source line. The same error with one
// more character after it (e.g. "a: 1\nb\nc\n", offset 7 of 9) gets its label, and the crate's
// own snippet renderer does show a window for the end-of-input location.
//
// Expected: a label at byte offset 7 (== source length; an empty span at end of input is a
// valid miette span - the byte-offset branch of `to_source_span` explicitly allows
// `byte_off == src_len`), so that miette prints the position and the source excerpt.
//
// Cause: src/miette.rs `to_source_span`, character-offset branch (taken for every scanner
// error and for every reader-based error, which have no byte offsets): the inner helper
// `char_range_to_byte_range` computes the start with
//     `s.char_indices().nth(char_offset).map(|(i, _)| i)?`
// which is `None` when `char_offset == s.chars().count()` (one past the last character), so
// the function returns `None` and the label is dropped - instead of mapping the end position to
// `s.len()` like it does for the END of the range two lines below.

#![cfg(feature = "miette")]

use miette::Diagnostic;

fn label_offsets(err: &serde_saphyr::Error, yaml: &str) -> Vec<(usize, usize)> {
    let report = serde_saphyr::miette::to_miette_report(err, yaml, "f.yaml");
    let diag: &dyn Diagnostic = report.as_ref();
    diag.labels()
        .map(|it| it.map(|l| (l.offset(), l.len())).collect())
        .unwrap_or_default()
}

#[test]
fn error_at_end_of_input_keeps_its_miette_label() {
    // sanity: the same error followed by more text has its label at the reported position
    let yaml = "a: 1\nb\nc\n";
    let err = serde_saphyr::from_str::<serde_json::Value>(yaml).unwrap_err();
    let loc = err.location().expect("location");
    assert_eq!((loc.line(), loc.column(), loc.span().offset()), (3, 1, 7));
    assert_eq!(label_offsets(&err, yaml).first().map(|l| l.0), Some(7));

    // the defect: the error position is the end of the input
    let yaml = "a: 1\nb\n";
    let err = serde_saphyr::from_str::<serde_json::Value>(yaml).unwrap_err();
    let loc = err.location().expect("location");
    assert_eq!((loc.line(), loc.column(), loc.span().offset()), (3, 1, 7));
    assert_eq!(yaml.len(), 7);
    let labels = label_offsets(&err, yaml);
    assert_eq!(
        labels.first().map(|l| l.0),
        Some(7),
        "the miette report for an error at end of input has no label (labels: {labels:?})"
    );
}

#[test]
fn unterminated_quote_at_end_of_input_keeps_its_miette_label() {
    let yaml = "a: 'abc\n";
    for reader in [false, true] {
        let err = if reader {
            serde_saphyr::from_reader::<_, serde_json::Value>(std::io::Cursor::new(yaml.as_bytes()))
                .unwrap_err()
        } else {
            serde_saphyr::from_str::<serde_json::Value>(yaml).unwrap_err()
        };
        let loc = err.location().expect("location");
        assert_eq!((loc.line(), loc.column()), (2, 1));
        let labels = label_offsets(&err, yaml);
        assert_eq!(
            labels.first().map(|l| l.0),
            Some(yaml.len()),
            "reader={reader}: no label for the end-of-input location (labels: {labels:?})"
        );
    }
}
