// DEFECT 2 (C05): `!Variant` (tag notation without a payload) read into `Option<Enum>` yields
// `None` instead of `Some(Variant)`.
//
// Violated clause: "option/null handling and all enum notations (`Variant`,
// `{Variant: payload}`, `!Variant payload`) are honoured" - the node is a tagged, non-null node
// that the enum itself accepts; wrapped in an Option the variant is lost silently.
//
// Minimal input:  "[!N 1, !U, U]"  into  Vec<Option<E>>   (E { U, N(i32), O(Option<i32>) })
//
// What the crate does:  [Some(N(1)), None, Some(U)]      (also `x: !U` -> field Option<E> = None,
//                       `!O` -> None although E reads it as O(None))
// What it should do:    [Some(N(1)), Some(U), Some(U)]   - exactly what it returns for the two
//   other notations (`U`, `{U: ~}`) and what `Vec<E>` returns for the same document ([N(1), U, U]).
//
// Cause: src/de.rs `deserialize_option` - the arm
//   `Some(Ev::Scalar{..}) if tag != &SfTag::Binary && scalar_is_nullish_for_option(s, style)`
//   looks at the scalar text only; a scalar that carries an application tag (`SfTag::Other`,
//   which `deserialize_enum` / `simple_tagged_enum_name` would use to select the variant) with
//   empty text is consumed as a null before the enum ever sees the tag.
//
// Run: cargo test --offline --test defect_2

use serde::Deserialize;

#[derive(Debug, Deserialize, PartialEq)]
enum E {
    U,
    N(i32),
    O(Option<i32>),
}

#[derive(Debug, Deserialize, PartialEq)]
struct Holder {
    x: Option<E>,
    y: Option<E>,
}

#[test]
fn plain_enum_target_accepts_the_notation() {
    let v: Vec<E> = serde_saphyr::from_str("[!N 1, !U, U, !O]").unwrap();
    assert_eq!(v, vec![E::N(1), E::U, E::U, E::O(None)]);
}

#[test]
fn tagged_unit_variant_in_option_is_some() {
    let v: Vec<Option<E>> = serde_saphyr::from_str("[!N 1, !U, U, {U: ~}, ~]").unwrap();
    assert_eq!(
        v,
        vec![Some(E::N(1)), Some(E::U), Some(E::U), Some(E::U), None]
    );
}

#[test]
fn tagged_unit_variant_in_optional_field_is_some() {
    let h: Holder = serde_saphyr::from_str("x: !U\ny: !O\n").unwrap();
    assert_eq!(
        h,
        Holder {
            x: Some(E::U),
            y: Some(E::O(None)),
        }
    );
}
