//! Observed on the UNCHANGED crate (property C20): the folded wrapper wraps a long line at an
//! ASCII space that is followed by a TAB. The continuation line then starts with a tab, which
//! makes it a "spaced" (more-indented) line for a YAML reader, so the inserted line break is
//! NOT folded back into a space: "aaaa bbbb \tcccc dddd" is written as
//! ">\n  aaaa bbbb\n  \tcccc dddd\n" and reads back as "aaaa bbbb\n\tcccc dddd\n" - the space
//! before the tab has become a line break. The same happens when the line itself starts with a
//! tab (only a leading ASCII space switches wrapping off): "\taaaa bbbb cccc" comes back with
//! line breaks instead of spaces.
//! src/wrapping.rs write_folded_block: `line.starts_with(' ')` and the space-run logic only
//! look at ' ', but s-white in the YAML folding rules is space OR tab.

use serde_saphyr::{FoldStr, SerializerOptions, to_string_with_options};

fn opts() -> SerializerOptions {
    let mut o = SerializerOptions::default();
    o.folded_wrap_chars = 10;
    o.min_fold_chars = 0;
    o
}

fn roundtrip(s: &str) -> (String, String) {
    let yaml = to_string_with_options(&FoldStr(s), opts()).unwrap();
    let back: String = serde_saphyr::from_str(&yaml).unwrap();
    (yaml, back)
}

#[test]
fn wrap_at_space_followed_by_tab() {
    let s = "aaaa bbbb \tcccc dddd";
    let (yaml, back) = roundtrip(s);
    // modulo the one trailing line break of the clip-chomped folded scalar
    assert_eq!(back.strip_suffix('\n').unwrap_or(&back), s, "written as {yaml:?}");
}

#[test]
fn wrap_of_a_line_that_starts_with_a_tab() {
    let s = "\taaaa bbbb cccc dddd";
    let (yaml, back) = roundtrip(s);
    assert_eq!(back.strip_suffix('\n').unwrap_or(&back), s, "written as {yaml:?}");
}

#[test]
fn default_width_long_line() {
    // default options: 80 columns; the space before the tab is the last one inside the limit
    let s = format!("{} \t{}", "word ".repeat(15).trim_end(), "x".repeat(30));
    let yaml = serde_saphyr::to_string(&FoldStr(&s)).unwrap();
    let back: String = serde_saphyr::from_str(&yaml).unwrap();
    assert_eq!(back.strip_suffix('\n').unwrap_or(&back), s, "written as {yaml:?}");
}
