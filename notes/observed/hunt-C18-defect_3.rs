// DEFECT 3 (C18): a validated value inside a newtype struct (`struct Name(String)`) is reported
// without any position, although its value is right there in the YAML and although the crate's
// own `Error::locations()` finds it.
//
// Needs: cargo test --offline --features garde,validator,miette,robotics --test defect_3
//        (only `garde` is really required)
//
// Violated clause: "whenever it fails they return a validation error in which every reported
// field path is mapped to the position where that field's value is used in the YAML"
// (family: nested structs).
//
// Minimal input, for
//     struct Name(#[garde(length(min = 2))] String);
//     struct Root { #[garde(dive)] name: Name }
//
//     name: x
//
// What the crate does: renders `validation error at name[0]: length is lower than 2` - no line,
// no column, no snippet; `err.location()` is None. At the same time `err.locations()` returns
// line 1 column 7 for the very same error.
//
// What it should do: map `name[0]` to line 1 column 7 (the position of `x`) and render the
// snippet, like it does for `#[garde(transparent)] struct Name(..)` or for a plain String field.
//
// Cause: garde reports the field of a tuple struct as an index segment (`name[0]`), while
// YamlDeserializer::deserialize_newtype_struct (src/de.rs) hands the value through without
// recording a segment, so the recorder only knows `name`. PathMap::search (src/path_map.rs)
// requires equal path lengths and fails. The ancestor fallback that would resolve this
// (search_locations_with_ancestor_fallback, src/de_error.rs) is used by Error::locations() only;
// Error::location(), Error::with_snippet, default_format_message (src/message_formatters.rs) and
// fmt_validation_error_with_snippets_offset all call PathMap::search directly.

use garde::Validate;
use serde::Deserialize;

#[derive(Debug, Deserialize, Validate)]
struct Name(#[garde(length(min = 2))] String);

#[derive(Debug, Deserialize, Validate)]
#[allow(dead_code)]
struct Root {
    #[garde(dive)]
    name: Name,
}

#[derive(Debug, Deserialize, Validate)]
#[allow(dead_code)]
struct Item {
    #[garde(dive)]
    name: Name,
}

#[derive(Debug, Deserialize, Validate)]
#[allow(dead_code)]
struct Items {
    #[garde(dive)]
    items: Vec<Item>,
}

#[test]
fn newtype_field_is_located() {
    let err = serde_saphyr::from_str_valid::<Root>("name: x\n").expect_err("must fail validation");
    let rendered = err.to_string();

    // The crate itself knows where the value is ...
    let locs = err.locations().expect("Error::locations() resolves the path");
    assert_eq!(
        (locs.reference_location.line(), locs.reference_location.column()),
        (1, 7)
    );
    // ... but neither the rendered report nor Error::location() tell.
    assert!(
        rendered.contains("line 1"),
        "the issue for `name[0]` must be mapped to line 1 column 7, got:\n{rendered}"
    );
    assert!(err.location().is_some(), "Error::location() must agree with Error::locations()");
}

#[test]
fn newtype_field_in_sequence_of_structs_is_located() {
    let yaml = "items:\n  - name: ok\n  - name: x\n";
    let err = serde_saphyr::from_str_valid::<Items>(yaml).expect_err("must fail validation");
    let rendered = err.to_string();
    assert!(
        rendered.contains("line 3"),
        "the issue for `items[1].name[0]` must be mapped to line 3 column 11, got:\n{rendered}"
    );
}
