// C16 defect 4: after a NUL character (U+0000) in the input, the line / column of a reported
// location and its character offset denote different positions.
//
// Violated clause: "Every location reported for in-memory input ... its line, column, character
//   offset and byte offset all denote the same position of the (BOM-stripped) text"
//   (error locations of arbitrary input, the C01 input space).
//
// Minimal input:  "a: b\nc\0: d\n"   (any target, e.g. serde_json::Value)
// What the crate does: error "simple key expected" with line 3, column 1 and
//   Span::offset() == 6. Character 6 is the NUL itself, which stands at line 2, column 2;
//   line 3 column 1 is character 10 (the end of the input). The two coordinates are 4
//   characters apart. (Also as a value: `a: &x \0'q'\nd: e\n` gives the node `a`'s value
//   line 2 column 1 with character offset 6, i.e. line 1 column 7.)
// What it should do: report one position, e.g. 2:2 / offset 6 (where the offending character
//   is), or 3:1 / offset 10.
//
// Cause: saphyr-parser-bw treats NUL as "break or end of input" (is_breakz): the scanner's
//   line counter advances as for a line break while the character index does not move the same
//   way; src/de_error.rs from_scan_error() and src/location.rs location_from_span() copy
//   mark.line()/col()/index() unchecked.

fn line_col_of_char_offset(text: &str, off: usize) -> (u64, u64) {
    let chars: Vec<char> = text.chars().collect();
    let (mut line, mut col) = (1u64, 1u64);
    let mut i = 0;
    while i < off.min(chars.len()) {
        match chars[i] {
            '\r' => {
                if chars.get(i + 1) == Some(&'\n') && i + 1 < off {
                    i += 1;
                }
                line += 1;
                col = 1;
            }
            '\n' => {
                line += 1;
                col = 1;
            }
            _ => col += 1,
        }
        i += 1;
    }
    (line, col)
}

#[test]
fn error_location_after_nul_is_self_consistent() {
    for yaml in ["a: b\nc\0: d\n", "a:\n  - b\n  c\0: d\n", "é: b\nc\0: d\ne: f\n"] {
        let err = serde_saphyr::from_str::<serde_json::Value>(yaml).expect_err("syntax error");
        let loc = err.location().expect("location");
        let off = loc.span().offset() as usize;
        assert!(off <= yaml.chars().count(), "{yaml:?}: offset outside the input");
        assert_eq!(
            (loc.line(), loc.column()),
            line_col_of_char_offset(yaml, off),
            "{yaml:?}: line/column and character offset {off} denote different positions ({err})"
        );
    }
}
