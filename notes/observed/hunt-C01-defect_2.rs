// DEFECT 2 (property C01): memory use is (nesting depth) x (number of nodes) for nested ANCHORED
// containers - a document of a few megabytes that respects every limit of the default budget
// makes the process run out of memory (allocation failure = abort / OOM kill).
//
// Violated clause: "Every deserialization entry point, given any byte sequence ... returns either
// a value or an error value: it never panics, never aborts the process ... while the default
// budget is in force".
//
// Minimal input (shape): block sequences nested D deep, every level carrying an anchor, and N
// scalars at the bottom. No alias is needed at all:
//
//     - &a0
//      - &a1
//       - &a2
//        ...
//           - [x,x,x,x, ... N times ...]
//
// What the crate does: src/live_events.rs keeps one recording frame (`rec_stack`) per anchored
// container that is still open, and `LiveEvents::record` clones EVERY event into EVERY open frame
// (the finished buffers are then kept in `anchors` until the document ends). With D open anchored
// containers and N events inside the innermost one that is D x N retained `Ev` values of ~100
// bytes each. Measured (release and debug alike, any target type, here `IgnoredAny`):
//     D = 200, N = 20 000  (60 KB of YAML)  ->  ~470 MB
// The default budget allows max_depth = 2000, max_anchors = 50 000, max_nodes = 250 000,
// max_events = 1 000 000: D = 2000, N = 240 000 is a ~2.5 MB document inside all of these limits
// and needs 2000 x 240 000 x ~110 B = ~50 GB. The alias hardening (`AliasLimits`, alias/anchor
// ratio) does not apply because nothing is ever replayed. The same document without the anchors
// needs a few MB.
//
// What it should do: stay O(input) (e.g. record a nested anchored node once and let outer frames
// refer to it), or reject the document with a budget error before memory is exhausted.
//
// Cause: src/live_events.rs, LiveEvents::record / rec_stack / bump_depth_on_end.
//
// The test uses a scaled-down instance (D = 250, N = 12 000, a 55 KB document) and checks the
// growth of the peak resident set size (Linux: VmHWM in /proc/self/status) while it is parsed.
// It runs the parse on a thread with a big stack so that the (already known) stack consumption of
// unoptimized builds plays no role.
//
// No optional feature needed:  cargo test --offline --test defect_2

fn vm_hwm_kb() -> usize {
    let status = std::fs::read_to_string("/proc/self/status").expect("Linux /proc needed");
    for line in status.lines() {
        if let Some(rest) = line.strip_prefix("VmHWM:") {
            return rest.trim().trim_end_matches("kB").trim().parse().unwrap();
        }
    }
    panic!("no VmHWM line");
}

fn doc(depth: usize, leaves: usize, anchored: bool) -> String {
    let mut y = String::new();
    for i in 0..depth {
        y.push_str(&" ".repeat(i));
        if anchored {
            y.push_str(&format!("- &a{i}\n"));
        } else {
            y.push_str("-\n");
        }
    }
    y.push_str(&" ".repeat(depth));
    y.push_str("- [");
    for _ in 0..leaves {
        y.push_str("x,");
    }
    y.push_str("]\n");
    y
}

fn growth_mb(yaml: String) -> usize {
    std::thread::Builder::new()
        .stack_size(256 * 1024 * 1024)
        .spawn(move || {
            let before = vm_hwm_kb();
            let r: Result<serde::de::IgnoredAny, _> = serde_saphyr::from_str(&yaml);
            assert!(r.is_ok(), "the document is valid and within the default budget");
            (vm_hwm_kb() - before) / 1024
        })
        .unwrap()
        .join()
        .unwrap()
}

#[test]
fn nested_anchored_containers_do_not_multiply_memory() {
    const DEPTH: usize = 250;
    const LEAVES: usize = 12_000;

    let plain = doc(DEPTH, LEAVES, false);
    let anchored = doc(DEPTH, LEAVES, true);
    assert!(anchored.len() < 64 * 1024);

    let plain_mb = growth_mb(plain);
    let anchored_mb = growth_mb(anchored);
    eprintln!("peak RSS growth: without anchors {plain_mb} MB, with anchors {anchored_mb} MB");

    // 64 MB is a thousand times the size of the document.
    assert!(
        anchored_mb < 64,
        "parsing a {DEPTH}-deep, {LEAVES}-leaf document of < 64 KB took {anchored_mb} MB \
         (the same document without anchors: {plain_mb} MB); at the limits of the default budget \
         (depth 2000, 250 000 nodes) this scales to tens of GB"
    );
}
