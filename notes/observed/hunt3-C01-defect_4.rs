// DEFECT 4 - OPTIMISED builds exhaust an 8 MiB stack below the default depth budget when the
// nested target type goes through the crate's own `Spanned<T>` wrapper and tag-selected enum
// variants: about 1700 nesting levels suffice, `Budget::default().max_depth` is 2000.
//
//     cargo test --release --offline --test defect_4
//
// (Run it with `--release`: in an unoptimised build the process dies as well, but there the
// cause is the already known ~10 KiB per level of the debug profile, for which "optimised builds
// pass at 2000" was recorded. This file shows that the optimised build does NOT pass at 2000.)
// The failure is a stack overflow: the test process is aborted with SIGABRT
// ("thread 'deep' has overflowed its stack"), which cargo reports as a failed test binary.
//
// Violated clause (property C01): "never aborts the process (in particular it does not exhaust
// an 8 MiB stack while the default budget is in force)"; mechanism named by the property:
// "nesting-depth limit of the default budget bounds the recursion of node capture / map / seq
// deserialization".
//
// Minimal input: 1990 nested block sequences, each selecting the variant by tag (depth 1990 is
// within the budget of 2000; about 4 MB of text because of the indentation):
//
//     !Node
//     - !Node
//       - !Node
//         ...
//           - !Leaf 1
//
// read as `enum Tree { Leaf(i32), Node(Spanned<Vec<Spanned<Tree>>>) }` - an ordinary
// "AST with source spans" type built only from `Vec`, the derive macro and serde-saphyr's own
// `Spanned`.
//
// What the crate does: per nesting level the optimised build needs about 5 KiB of stack:
// `deserialize_enum` (buffering arm) -> `TaggedEA::variant_seed` -> `newtype_variant_seed` ->
// `Spanned::deserialize` -> `deserialize_newtype_struct("__yaml_spanned")` ->
// `deserialize_yaml_spanned` -> `SpannedVisitor::visit_newtype_struct` ->
// `SpannedDeser::deserialize_any` -> `deserialize_struct` -> `ReprOrPlainVisitor::visit_map` ->
// `Repr::deserialize(MapAccessDeserializer)` -> derived `visit_map` -> `next_value_seed` ->
// `Vec::deserialize` -> `deserialize_seq` -> `SA::next_element_seed` -> (the same `Spanned`
// chain again for the element) -> `Tree::deserialize` ... Roughly thirty frames per level, many
// of them holding an `Ev` / `Error`-sized temporaries. 1700 levels x 5 KiB > 8 MiB.
// Without `Spanned` (`Node(Vec<Tree>)`) the same document needs 6-8 MiB at 1990 levels, i.e.
// it only just fits; with `Spanned` on one side only (`Node(Vec<Spanned<Tree>>)`) it still fits.
//
// What it should do: return the value, or a budget error - the depth budget is documented as
// what "protects stack/CPU" (src/budget.rs, `max_depth: 2_000, // protects stack/CPU`).
//
// Where: src/spanned.rs (`Spanned::deserialize`: newtype -> any -> struct -> MapAccessDeserializer
// -> derived struct, a five-fold indirection per value) + src/de/spanned_deser.rs +
// src/de.rs `deserialize_enum` (tagged sequence arm); src/budget.rs `Budget::default` (max_depth
// = 2000 is too high for what one level costs on these paths).

use serde::Deserialize;
use serde_saphyr::Spanned;

#[derive(Debug, Deserialize)]
#[allow(dead_code)]
enum Tree {
    Leaf(i32),
    Node(Spanned<Vec<Spanned<Tree>>>),
}

fn document(depth: usize) -> String {
    let mut s = String::from("!Node\n");
    for i in 0..depth {
        for _ in 0..i {
            s.push(' ');
        }
        s.push_str("- ");
        s.push_str(if i + 1 < depth { "!Node" } else { "!Leaf 1" });
        s.push('\n');
    }
    s
}

fn parse_on_8_mib_stack(depth: usize) -> Result<(), String> {
    std::thread::Builder::new()
        .name("deep".to_string())
        .stack_size(8 << 20)
        .spawn(move || {
            let yaml = document(depth);
            let result = serde_saphyr::from_str::<Tree>(&yaml);
            let outcome = result.as_ref().map(|_| ()).map_err(|e| e.to_string());
            // (dropping 2000 nested vectors recurses as well, in the caller's code: not the point)
            std::mem::forget(result);
            outcome
        })
        .unwrap()
        .join()
        .unwrap()
}

#[test]
fn shallow_document_is_read() {
    parse_on_8_mib_stack(100).expect("100 levels");
}

#[test]
fn nesting_within_the_default_depth_budget_fits_an_8_mib_stack() {
    // 1990 < Budget::default().max_depth == 2000: a value or an error value must come back.
    // On the unchanged crate the process aborts here: "thread 'deep' has overflowed its stack".
    let _ = parse_on_8_mib_stack(1990);
}
