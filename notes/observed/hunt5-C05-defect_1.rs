// C05 defect 1: the enum notation `!Variant payload` is silently misread whenever the node is
// reached through `deserialize_any` (struct with a `#[serde(flatten)]` field, internally tagged
// enum, adjacently tagged enum whose content precedes the tag, untagged enum).
//
// Violated clause: "deserialization either fails or returns the value in which every Rust
// position is filled from the YAML node at the corresponding position: ... all enum notations
// (`Variant`, `{Variant: payload}`, `!Variant payload`) are honoured."
//
// Minimal input (enum E { A, B(String), O(Option<i32>) }):
//     x: 1
//     e: !B A
// read into `struct Outer { x: i32, #[serde(flatten)] inner: Inner }`, `struct Inner { e: E }`.
//
// What the crate does: returns Ok with `e == E::A` (the *payload* text is taken for the name of a
// unit variant and the tag that selects the variant is dropped).  Without `flatten` the very same
// document gives `E::B("A")`.  Likewise `oe: !O ~` into `Option<E>` gives `None` below flatten but
// `Some(E::O(None))` directly, and the adjacently tagged `{t: X, c: !B A}` gives `X(B("A"))`
// while the same mapping written in the other order, `{c: !B A, t: X}`, gives `X(A)`.
//
// What it should do: yield `E::B("A")` / `Some(E::O(None))` in all of these positions, or fail;
// never a different variant.
//
// Cause: src/de.rs `YamlDeserializer::deserialize_any`, scalar branch: a scalar that carries an
// application tag (`SfTag::Other`, `raw_tag` = `!B`) is handed to the visitor as its bare text /
// number / unit (`visit_string`, `visit_u64`, `visit_unit`), the tag is discarded.  serde's
// `Content` buffer (flatten, internally / adjacently tagged, untagged) is filled through
// `deserialize_any`, so `deserialize_enum` - the only place that looks at `raw_tag`
// (`simple_tagged_enum_name`) - never sees it.  A tagged scalar in an "any" position should be
// rejected (or presented as the one-entry map `{B: A}`) instead of losing its tag.
//
// Run: cargo test --offline --test defect_1

use serde::Deserialize;

#[derive(Debug, Deserialize, PartialEq, Clone)]
enum E {
    A,
    B(String),
    O(Option<i32>),
}

#[derive(Debug, Deserialize, PartialEq)]
struct Inner {
    e: E,
    #[serde(default)]
    oe: Option<E>,
}

#[derive(Debug, Deserialize, PartialEq)]
struct Outer {
    x: i32,
    #[serde(flatten)]
    inner: Inner,
}

#[derive(Debug, Deserialize, PartialEq)]
struct Plain {
    x: i32,
    e: E,
    #[serde(default)]
    oe: Option<E>,
}

#[derive(Debug, Deserialize, PartialEq)]
#[serde(tag = "t", content = "c")]
enum Adj {
    X(E),
}

#[derive(Debug, Deserialize, PartialEq)]
#[serde(tag = "type")]
enum Internal {
    X { e: E },
}

#[test]
fn tagged_variant_below_flatten_is_not_another_variant() {
    let doc = "x: 1\ne: !B A\n";
    // Reference: the same document without flatten.
    let plain: Plain = serde_saphyr::from_str(doc).unwrap();
    assert_eq!(plain.e, E::B("A".to_owned()));

    match serde_saphyr::from_str::<Outer>(doc) {
        Err(_) => {} // an error would be acceptable
        Ok(v) => assert_eq!(
            v.inner.e,
            E::B("A".to_owned()),
            "`e: !B A` below #[serde(flatten)] was read as a different variant"
        ),
    }
}

#[test]
fn tagged_variant_with_null_payload_below_flatten_is_not_none() {
    let doc = "x: 1\ne: A\noe: !O ~\n";
    let plain: Plain = serde_saphyr::from_str(doc).unwrap();
    assert_eq!(plain.oe, Some(E::O(None)));

    match serde_saphyr::from_str::<Outer>(doc) {
        Err(_) => {}
        Ok(v) => assert_eq!(
            v.inner.oe,
            Some(E::O(None)),
            "`oe: !O ~` below #[serde(flatten)] lost the variant"
        ),
    }
}

#[test]
fn adjacently_tagged_enum_does_not_depend_on_entry_order() {
    let tag_first: Adj = serde_saphyr::from_str("{t: X, c: !B A}").unwrap();
    assert_eq!(tag_first, Adj::X(E::B("A".to_owned())));

    match serde_saphyr::from_str::<Adj>("{c: !B A, t: X}") {
        Err(_) => {}
        Ok(v) => assert_eq!(
            v, tag_first,
            "the same mapping with its two entries swapped reads as a different value"
        ),
    }
}

#[test]
fn internally_tagged_enum_honours_tagged_variant() {
    match serde_saphyr::from_str::<Internal>("type: X\ne: !B A\n") {
        Err(_) => {}
        Ok(v) => assert_eq!(v, Internal::X { e: E::B("A".to_owned()) }),
    }
}
