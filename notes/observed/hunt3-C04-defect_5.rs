// C04 defect 5: two mapping KEYS with the same entries written in a different order are not
// recognised as the same key
//
// Violated clause: "When the same key node (same structure, scalar text and tag; scalar, sequence
// or MAPPING) occurs more than once among a mapping's own entries, the Error policy fails with a
// duplicate-key error located at the repeated key, FirstWins gives the result of the document with
// every later entry ... deleted". A YAML mapping node is an UNORDERED set of key/value pairs
// (YAML 1.2.2 section 3.2.1.1), and two mapping nodes are equal when they have the same tag and
// equal pairs, whatever the order they were written in (section 3.2.1.3 "Node Comparison"):
// `{a: 1, b: 2}` and `{b: 2, a: 1}` are the same key node.
//
// Minimal input:
//
//     {a: 1, b: 2}: first
//     {b: 2, a: 1}: second
//
// What the crate does: no duplicate-key error under Error - a `BTreeMap<BTreeMap<String, i32>, _>`
// target (where both keys are the same Rust value too) silently ends up with "second", exactly the
// silent overwrite the Error policy exists to prevent; FirstWins also yields "second".
// The same one level down (`[{a: 1, b: 2}]` / `[{b: 2, a: 1}]` as sequence keys).
//
// What it should do: Error -> duplicate-key error at line 2 column 1; FirstWins -> "first".
//
// Cause: src/de.rs `KeyFingerprint::Mapping(Vec<(KeyFingerprint, KeyFingerprint)>)` is an ordered
// list ("ordered list of `(key, value)` fingerprints") filled by `capture_node` in document order
// and compared / hashed with the derived `PartialEq` / `Hash`, i.e. order-sensitively. The pairs
// would have to be put in a canonical order (or compared as a set) before the lookup in
// `MA::next_key_seed` / `collect_entries_from_map`.
//
// Run: cargo test --offline --test defect_5

use serde_saphyr::options::DuplicateKeyPolicy;
use std::collections::BTreeMap;

type Inner = BTreeMap<String, i32>;

fn parse<T: serde::de::DeserializeOwned>(
    yaml: &str,
    policy: DuplicateKeyPolicy,
) -> Result<T, serde_saphyr::Error> {
    let opts = serde_saphyr::options! { duplicate_keys: policy, };
    serde_saphyr::from_str_with_options::<T>(yaml, opts)
}

fn inner() -> Inner {
    BTreeMap::from([("a".to_owned(), 1), ("b".to_owned(), 2)])
}

const YAML: &str = "{a: 1, b: 2}: first\n{b: 2, a: 1}: second\n";
const YAML_NESTED: &str = "[{a: 1, b: 2}]: first\n[{b: 2, a: 1}]: second\n";

#[test]
fn control_same_order_is_detected() {
    let yaml = "{a: 1, b: 2}: first\n{a: 1, b: 2}: second\n";
    let e = parse::<BTreeMap<Inner, String>>(yaml, DuplicateKeyPolicy::Error).unwrap_err();
    assert!(e.to_string().contains("duplicate mapping key"), "{e}");
    let got = parse::<BTreeMap<Inner, String>>(yaml, DuplicateKeyPolicy::FirstWins).unwrap();
    assert_eq!(got, BTreeMap::from([(inner(), "first".to_owned())]));
}

#[test]
fn error_policy_detects_the_reordered_mapping_key() {
    match parse::<BTreeMap<Inner, String>>(YAML, DuplicateKeyPolicy::Error) {
        Ok(v) => panic!("Error policy accepted a repeated key and silently produced {v:?}"),
        Err(e) => {
            assert!(e.to_string().contains("duplicate mapping key"), "{e}");
            let loc = e.location().expect("location");
            assert_eq!((loc.line(), loc.column()), (2, 1));
        }
    }
}

#[test]
fn first_wins_keeps_the_first_entry() {
    let got = parse::<BTreeMap<Inner, String>>(YAML, DuplicateKeyPolicy::FirstWins).unwrap();
    assert_eq!(got, BTreeMap::from([(inner(), "first".to_owned())]));
}

#[test]
fn reordered_mapping_inside_a_sequence_key() {
    match parse::<BTreeMap<Vec<Inner>, String>>(YAML_NESTED, DuplicateKeyPolicy::Error) {
        Ok(v) => panic!("Error policy accepted a repeated key and silently produced {v:?}"),
        Err(e) => assert!(e.to_string().contains("duplicate mapping key"), "{e}"),
    }
    let got = parse::<BTreeMap<Vec<Inner>, String>>(YAML_NESTED, DuplicateKeyPolicy::FirstWins).unwrap();
    assert_eq!(got, BTreeMap::from([(vec![inner()], "first".to_owned())]));
}
