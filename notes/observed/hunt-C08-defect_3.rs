// C08 defect 3: under DuplicateKeyPolicy::LastWins the work for a merged mapping ("wide merge") is
// quadratic in the number of budget-counted events.
//
// Violated clause: "What deserialization costs is bounded by the configured limits ... wide merges
// ... are therefore rejected or processed after bounded work" - the limits (max_events / max_nodes)
// are linear, the work done below them is events^2.
//
// Minimal input (n distinct keys followed by n repetitions of one of them, as a merge source; it
// makes no difference whether the mapping is written inline or arrives as `<<: *alias`):
//
//     <<:
//       k0: 0
//       k1: 0
//       ...
//       k5999: 0
//       k0: 1        <- 6000 times
//
// read into HashMap<String, i32> with `duplicate_keys: LastWins`.
//
// What the crate does: `collect_entries_from_map` (src/de.rs) handles a repeated key of a merged
// mapping with
//     DuplicateKeyPolicy::LastWins => fields.retain(|e| *e.key.fingerprint() != fingerprint)
// i.e. one full scan of all entries collected so far per repeated key, and `KeyNode::fingerprint()`
// allocates a fresh String for every scalar key it is asked about. n repeated keys over n entries
// = n^2 allocations + comparisons: 12_000 entries (84 KB) take seconds in a debug build while the
// same mapping read directly (not through `<<`) takes a few ten ms; at the default node budget
// (~125_000 entries) this is minutes of CPU for a < 1 MB document that the budget accepts.
//
// What it should do: work proportional to the number of events (e.g. remember the index of each
// fingerprint in a map and overwrite in place), as the non-merge path in `MA::next_key_seed` does.
//
// Observer: wall time relative to the very same entries read without `<<` (the crate forbids
// `unsafe`, so no counting allocator in tests/); the measured ratio is ~40-60x and doubles with n
// (the assertion allows 10x), and doubling n multiplies the time by ~4 (the assertion allows 3).
//
// Run: cargo test --offline --test defect_3

use serde_saphyr::options::DuplicateKeyPolicy;
use std::collections::HashMap;
use std::time::{Duration, Instant};

fn doc(n: usize, merged: bool) -> String {
    let mut y = String::new();
    let ind = if merged { "  " } else { "" };
    if merged {
        y.push_str("<<:\n");
    }
    for i in 0..n {
        y.push_str(&format!("{ind}k{i}: 0\n"));
    }
    for _ in 0..n {
        y.push_str(&format!("{ind}k0: 1\n"));
    }
    y
}

fn time(n: usize, merged: bool) -> Duration {
    let mut opts = serde_saphyr::Options::default();
    opts.duplicate_keys = DuplicateKeyPolicy::LastWins;
    let y = doc(n, merged);
    let t = Instant::now();
    let r: HashMap<String, i32> = serde_saphyr::from_str_with_options(&y, opts).unwrap();
    let d = t.elapsed();
    assert_eq!(r.len(), n);
    assert_eq!(r["k0"], 1, "last wins");
    d
}

#[test]
fn lastwins_merged_mapping_work_is_linear_in_events() {
    let n = 8000;
    let _warm_up = time(200, true);
    let direct = time(n, false).min(time(n, false));
    let merged = time(n, true);
    let half = time(n / 2, true);
    let ratio = merged.as_secs_f64() / direct.as_secs_f64();
    let growth = merged.as_secs_f64() / half.as_secs_f64();
    println!("n={n}: same 2n entries: direct {direct:?}, through `<<` {merged:?} ({ratio:.1}x)");
    println!("n={}: through `<<` {half:?}: doubling n multiplies the time by {growth:.1}", n / 2);

    // Linear work means: about as fast as the direct read, and twice the time for twice the input.
    assert!(
        ratio < 10.0 && growth < 3.0,
        "LastWins: {} entries read through `<<` took {merged:?}; the same entries read directly \
         {direct:?} ({ratio:.1}x); half as many entries through `<<` {half:?} ({growth:.1}x for 2x \
         the input): work grows with entries^2",
        2 * n
    );
}
