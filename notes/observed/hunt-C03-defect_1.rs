// Defect 1 (C03): a value that reaches a struct through a merge key is deserialized in a
// different ORDER than the same mapping written out in full, which breaks weak anchors.
//
// Property clause violated:
//   "A mapping that contains merge keys (an untagged plain `<<`) deserializes exactly like the
//    mapping written out in full"
//
// Minimal input (target: struct { strong: RcAnchor<Node>, weak: RcWeakAnchor<Node> }):
//
//     <<:
//       strong: &a1 {name: primary}
//     weak: *a1
//
// Written out in full this is
//
//     strong: &a1 {name: primary}
//     weak: *a1
//
// which the crate accepts (tests/deserialize_weak_anchors.rs::rc_weak_anchor_deserialize_success):
// the strong anchor `&a1` is textually defined before the alias `*a1`.
//
// What the crate does: the merged form fails with
//     "weak Rc anchor refers to unknown anchor; strong anchor must be defined before weak"
// although the anchor IS defined before the alias in the document. The same happens when both
// fields come from two merge entries (`<<: {strong: &a1 {...}}` / `<<: {weak: *a1}`), because the
// merge batches are flushed newest first.
//
// What it should do: produce the same value as the written-out mapping (weak upgrades to the
// allocation held by `strong`).
//
// Cause: src/de.rs, `MA::next_key_seed` inside `YamlDeserializer::deserialize_map`. Merge entries
// are only captured (`pending_entries_from_live_events` -> `merge_stack`) while the own keys are
// streamed and deserialized immediately; the merged key/value pairs are handed to the visitor after
// the mapping end (`flushing_merges`), newest batch first. So the own entry `weak: *a1` is
// deserialized BEFORE the merged entry `strong: &a1 ...`; `RcWeakAnchor::deserialize`
// (src/anchors.rs) looks the id up in `anchor_store` at that moment and finds nothing. The same
// ordering problem affects `ArcWeakAnchor` and `RcRecursion`/`ArcRecursion` aliases that point at
// an `RcRecursive` that arrives through a merge.
//
// Run: cargo test --offline --test defect_1   (no optional features needed)

use std::rc::Rc;

use serde::Deserialize;
use serde_saphyr::{RcAnchor, RcWeakAnchor, from_str};

#[derive(Clone, Debug, PartialEq, Eq, Deserialize)]
struct Node {
    name: String,
}

#[derive(Deserialize)]
struct RcDoc {
    strong: RcAnchor<Node>,
    weak: RcWeakAnchor<Node>,
}

fn check(doc: RcDoc) {
    let upgraded = doc.weak.upgrade().expect("weak should upgrade");
    assert!(Rc::ptr_eq(&upgraded, &doc.strong.0));
    assert_eq!(doc.strong.0.name, "primary");
}

#[test]
fn written_out_in_full_is_accepted() {
    let doc: RcDoc = from_str("strong: &a1 {name: primary}\nweak: *a1\n").expect("full form");
    check(doc);
}

#[test]
fn strong_anchor_supplied_by_merge_then_weak_alias_as_own_key() {
    let yaml = "<<:\n  strong: &a1 {name: primary}\nweak: *a1\n";
    let doc: RcDoc = from_str(yaml)
        .expect("the merged mapping must deserialize like `strong: &a1 {...}` / `weak: *a1`");
    check(doc);
}

#[test]
fn strong_and_weak_supplied_by_two_merge_entries() {
    let yaml = "<<: {strong: &a1 {name: primary}}\n<<: {weak: *a1}\n";
    let doc: RcDoc = from_str(yaml)
        .expect("the merged mapping must deserialize like `strong: &a1 {...}` / `weak: *a1`");
    check(doc);
}
