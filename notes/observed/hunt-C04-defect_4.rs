// C04 defect 4: the duplicate-key policy is not applied to a mapping that is consumed as a merge
// (`<<`) source: its repeated keys are always resolved "first wins", silently, whatever the policy.
//
// Violated clause: "When the same key node ... occurs more than once among a mapping's own
// entries, the Error policy fails with a duplicate-key error located at the repeated key, ... and
// LastWins delivers every entry in order so that overwriting targets keep the last one."
//
// Minimal inputs:
//   (a)  <<: {k: 1, k: 2}            Error policy: Ok({"k": 1}) - no error although the mapping
//        z: 0                         `{k: 1, k: 2}` repeats `k`; LastWins: k == 1 (not 2).
//   (b)  base: &b {k: 1, k: 2}       LastWins: base == {"k": 2} but derived == {"k": 1}:
//        derived: {<<: *b}           merging *b yields something different from b itself.
// Expected: (a) Error policy -> duplicate-key error at line 1 column 12; LastWins -> k == 2.
//           (b) LastWins -> derived.k == base.k == 2.
// (This is about repeated keys INSIDE one merged mapping, not about precedence between several
// merged mappings or between merged and own keys, which tests/merge.rs defines.)
//
// Cause: src/de.rs `collect_entries_from_map` / `pending_entries_from_events` turn the merge value
// into `PendingEntry`s without consulting `cfg.dup_policy`; later, in `MA::next_key_seed`, entries
// popped while `self.flushing_merges` is true take the branch
// `if self.flushing_merges { if is_duplicate { continue; } }`, i.e. unconditional FirstWins and
// never an error - this is meant for merged-vs-own conflicts but also swallows the repeated keys
// of the merged mapping itself.
//
// Run: cargo test --offline --test defect_4

use serde::Deserialize;
use serde_saphyr::{DuplicateKeyPolicy, Options};
use std::collections::BTreeMap;

fn opts(p: DuplicateKeyPolicy) -> Options {
    Options {
        duplicate_keys: p,
        ..Options::default()
    }
}

type M = BTreeMap<String, i32>;

#[test]
fn error_policy_must_reject_repeated_key_in_inline_merge_source() {
    let y = "<<: {k: 1, k: 2}\nz: 0\n";
    let r: Result<M, _> = serde_saphyr::from_str_with_options(y, opts(DuplicateKeyPolicy::Error));
    let e = r.expect_err("`{k: 1, k: 2}` repeats the key k");
    assert!(e.to_string().contains("duplicate mapping key"), "{e}");
}

#[test]
fn last_wins_must_keep_last_value_of_inline_merge_source() {
    let y = "<<: {k: 1, k: 2}\nz: 0\n";
    let m: M = serde_saphyr::from_str_with_options(y, opts(DuplicateKeyPolicy::LastWins)).unwrap();
    assert_eq!(m.get("k"), Some(&2));
}

#[derive(Debug, Deserialize)]
struct Doc {
    base: M,
    derived: M,
}

#[test]
fn last_wins_merged_copy_must_equal_its_source() {
    let y = "base: &b {k: 1, k: 2}\nderived:\n  <<: *b\n";
    let d: Doc = serde_saphyr::from_str_with_options(y, opts(DuplicateKeyPolicy::LastWins)).unwrap();
    assert_eq!(d.base.get("k"), Some(&2)); // holds
    assert_eq!(d.derived, d.base, "`derived` consists of nothing but `<<: *b`");
}
