// C20 defect 3: `tagged_enums: true` with an enum whose serde name is not a single tag word
// (`#[serde(rename = "My Enum")]`) writes a broken tag; the variant can no longer be read.
//
// Violated clause: "all serializer options affect only the layout of the emitted document: it
// deserializes to the same data as without them, both into the wrapped type and into the bare
// type"; the option's rustdoc: "Deserializer does not need this setting as both cases will be
// understood."
//
// Minimal input: #[serde(rename = "My Enum")] enum E { A, B };  vec![E::A, E::B]
// with ser_options! { tagged_enums: true }.
//
// The crate writes
//     - !!My Enum A
//     - !!My Enum B
// which is the tag `!!My` followed by the plain scalar "Enum A": the typed reader fails
// (unknown variant `Enum A`), an untyped reader gets ["Enum A", "Enum B"] instead of ["A", "B"].
// Without the option the output is `- A\n- B` and round-trips.
//
// Expected: the enum name is escaped for use as a tag (URI escapes, `!!My%20Enum A`), or the tag is
// dropped when the name is no valid tag suffix.
//
// Cause: src/ser.rs, `serialize_tagged_scalar`: `self.out.write_str("!!"); self.out.write_str(enum_name)`
// copies the serde name verbatim (spaces, `,`, `[`, `{`, `!` ... are not allowed in a tag
// shorthand); the variant goes through `write_plain_or_quoted_value`, the name through nothing.
//
// Run: cargo test --offline --test defect_3

use serde::{Deserialize, Serialize};
use serde_saphyr::ser_options;

#[derive(Serialize, Deserialize, Debug, PartialEq)]
#[serde(rename = "My Enum")]
enum E {
    A,
    B,
}

#[test]
fn tagged_enums_with_renamed_enum() {
    let v = vec![E::A, E::B];
    let reference = serde_saphyr::to_string(&v).unwrap();
    assert_eq!(serde_saphyr::from_str::<Vec<E>>(&reference).unwrap(), v);

    let yaml = serde_saphyr::to_string_with_options(&v, ser_options! { tagged_enums: true }).unwrap();
    let untyped: serde_json::Value = serde_saphyr::from_str(&yaml).unwrap();
    assert_eq!(untyped, serde_json::json!(["A", "B"]), "tagged_enums changed the data:\n{yaml}");
    let back: Vec<E> = serde_saphyr::from_str(&yaml)
        .unwrap_or_else(|e| panic!("tagged_enums output does not load:\n{yaml}\n{e}"));
    assert_eq!(back, v);
}
