// C16 defect 1: nodes nested inside a value of a merged mapping that is WRITTEN IN PLACE
// (`<<: {a: [1, 2]}`, no anchor / alias anywhere) are treated as if they were reached through an
// alias.
//
// Violated clauses:
//   "a type error at a node is reported at the position a span-carrying value would give for
//    that node" and "For a value reached through an alias or a merge the use-site location is
//    that of the alias / merge entry ..." (there is no alias here; Spanned docs: "For plain
//    values: [defined] equals referenced").
//
// Minimal input:  <<: {a: [1, x]}      (target: struct { a: Vec<i32> })
//
// What the crate does:
//   * error "invalid i32" is reported at line 1 column 9 (the `[`), with the text
//     "This value comes indirectly from the anchor at line 1 column 13" although the document
//     contains no anchor; Error::locations() gives reference = `[`, defined = `x`.
//   * with `a: Vec<Spanned<i32>>` and `<<: {a: [1, 2]}` every element has
//     referenced = 1:9 (`[`) while defined = the element.
//   The same happens for `<<: [{a: [1, x]}]`.
// What it should do: behave like the un-merged `a: [1, x]`: one location, the `x` (1:13);
//   Spanned elements with referenced == defined.
//
// Cause: src/de.rs collect_entries_from_map(): for a mapping written in place the entry's
//   reference_location is set to `value.location()` (start of the value node). MA::next_value_seed
//   replays the value through ReplayEvents::with_reference(events, reference_location); that
//   override applies to EVERY node of the replay, so every nested node has
//   reference (`[`) != defined (own position) and attach_alias_locations_if_missing() /
//   deserialize_yaml_spanned() take it for an aliased value. (Fix 69f8b6d only repaired the
//   case where the value is a scalar.)

use serde::Deserialize;
use serde_saphyr::Spanned;

#[derive(Debug, Deserialize)]
struct Plain {
    #[allow(dead_code)]
    a: Vec<i32>,
}

#[derive(Debug, Deserialize)]
struct Sp {
    a: Vec<Spanned<i32>>,
}

#[test]
fn type_error_inside_inplace_merged_value_is_reported_at_the_node() {
    for (yaml, col) in [("<<: {a: [1, x]}\n", 13u64), ("<<: [{a: [1, x]}]\n", 14u64)] {
        let err = serde_saphyr::from_str::<Plain>(yaml).expect_err("x is no i32");
        let loc = err.location().expect("location");
        let locs = err.locations().expect("locations");
        assert_eq!(
            (loc.line(), loc.column()),
            (1, col),
            "{yaml:?}: the error must be located at the `x`, got {err}"
        );
        assert_eq!(
            locs.reference_location, locs.defined_location,
            "{yaml:?}: no alias is involved, use site and definition site must coincide: {err}"
        );
        assert!(
            !err.to_string().contains("anchor"),
            "{yaml:?}: the document has no anchor, but the report says: {err}"
        );
    }
}

#[test]
fn spanned_inside_inplace_merged_value_is_a_plain_value() {
    let yaml = "<<: {a: [1, 2]}\n";
    let v: Sp = serde_saphyr::from_str(yaml).unwrap();
    assert_eq!(v.a.len(), 2);
    for (s, col) in v.a.iter().zip([10u64, 13u64]) {
        assert_eq!((s.defined.line(), s.defined.column()), (1, col));
        assert_eq!(
            s.referenced, s.defined,
            "plain value {}: referenced must equal defined",
            s.value
        );
    }
}
