// DEFECT 6 (property C12): with folded_wrap_chars = 0 a `char` that is a value of a nested
// mapping is written as a folded block scalar whose body is not indented under its key
//
// Violated clause: "Every ... char ... serialized in any position ... under any valid serializer
// options, deserializes back into the same type as the identical value". `folded_wrap_chars` has
// no documented lower bound and `SerializerOptions::consistent()` accepts 0; a String in the same
// position works with the same options (`c: >-` + body indented by 4).
//
// Minimal input: struct Outer { outer: Inner }, struct Inner { c: char, d: i32 } with
// c = 'a', options `ser_options!{ folded_wrap_chars: 0 }`.
//
// What the crate does:
//     outer:
//       c: >-
//       a          <- body at the indentation of the key `c`, i.e. not part of the scalar
//       d: 1
// The reader fails ("invalid char: expected a single Unicode scalar value" - the scalar is
// empty); deeper nesting produces other parse errors.
//
// What it should do: indent the body one step deeper than the key (or not use a block scalar
// for a char at all).
//
// Cause: src/ser.rs `serialize_char` calls `self.write_space_if_pending()` *before* delegating to
// `serialize_str`. `serialize_str` decides where the block body goes from
// `was_map_value = self.pending_space_after_colon`, which is now already false, so it takes
// `self.depth` (0) instead of `current_map_depth` as the base.
//
// Run: cargo test --offline --test defect_6

use serde::{Deserialize, Serialize};

#[derive(Serialize, Deserialize, PartialEq, Debug)]
struct Inner {
    c: char,
    d: i32,
}
#[derive(Serialize, Deserialize, PartialEq, Debug)]
struct Outer {
    outer: Inner,
}

#[test]
fn char_in_nested_mapping_round_trips_with_zero_wrap_width() {
    let v = Outer { outer: Inner { c: 'a', d: 1 } };
    let opts = serde_saphyr::ser_options! { folded_wrap_chars: 0 };
    let yaml = serde_saphyr::to_string_with_options(&v, opts).unwrap();
    let back: Outer = serde_saphyr::from_str(&yaml)
        .unwrap_or_else(|e| panic!("own output does not parse:\n{yaml}\n{e}"));
    assert_eq!(back, v);
}
