// C12 defect 5: in mapping-key position the string "null" and the null key (None / unit) are
// written correctly (`"null"` quoted, `null` plain) but the reader's duplicate-key check ignores
// the scalar style, takes the two for the same key and rejects the document (with
// DuplicateKeyPolicy::FirstWins / LastWins it silently drops one entry instead).
//
// Violated clause: "Every string ... unit/None ... serialized in any position (... mapping
// key ...) ... deserializes back into the same type as the identical value", "no string is ever
// emitted in a form that reads back as null".
//
// Minimal input (default options on both sides):
//     BTreeMap<Option<String>, i32>  { None: 2, Some("null"): 1 }
// is written as
//     null: 2
//     "null": 1
// and `from_str` fails with "duplicate mapping key: null". The quoted key on its own reads back
// as Some("null") and the plain one as None, so the two keys ARE different values for the typed
// reader; only the duplicate check conflates them.
//
// Expected: the map reads back with its two entries.
//
// Cause: src/de.rs, `KeyNode::fingerprint` / `KeyFingerprint::Scalar { value, tag }`: the
// fingerprint of a scalar key is its text and tag only; the style (plain vs quoted) is dropped
// (except for the empty plain scalar), so `null` and `"null"` - or `true` and `"true"`, `1` and
// `"1"` in keys of an untagged-enum type - get equal fingerprints.
//
// Run: cargo test --offline --test defect_5

use std::collections::BTreeMap;

#[test]
fn string_key_null_and_none_key_are_different_keys() {
    let mut v: BTreeMap<Option<String>, i32> = BTreeMap::new();
    v.insert(None, 2);
    v.insert(Some("null".to_string()), 1);
    let yaml = serde_saphyr::to_string(&v).unwrap();
    let back: BTreeMap<Option<String>, i32> = serde_saphyr::from_str(&yaml)
        .unwrap_or_else(|e| panic!("does not read back: {e}\nyaml:\n{yaml}"));
    assert_eq!(back, v, "yaml:\n{yaml}");
}
