// Defect 3 (property C13): a composite mapping key that is a SEQUENCE / TUPLE of two or more
// items does not parse back when indent_step != 2 or when compact_list_indent is on: the first
// item is written inline after "? " (two columns right of the '?'), the following items are
// written at `depth * indent_step` (resp. at the column of the '?' itself with
// compact_list_indent).
//
// Violated clause: "For every value composed of the Serde data-model shapes - ... maps with
//   string, non-string and composite keys ... - and every valid serializer option set, the
//   emitted text is a single well-formed YAML document that deserializes back into an equal
//   value" ("x all combinations of indent step, compact list indent, ...").
//   (Not the known '? ' defect about struct variants / multi-line strings in a key: this one
//   needs only integers, at the document root, and works with the default step 2.)
//
// Minimal input: BTreeMap<(i32, i32), i32> { (1, 2): 3 }
//   indent_step 4:                       indent_step 2 + compact_list_indent:
//     ? - 1                                ? - 1
//         - 2        <- column 4           - 2          <- column 0 = sibling of the '?'
//     : 3                                  : 3
//   -> "invalid i32" (the key is read     -> "invalid length 1, expected a tuple of size 2"
//      as the scalar "1 - 2")
// Expected: all items of the key in one column right of the '?', e.g. "?   - 1\n    - 2\n: 3"
//   or "?\n    - 1\n    - 2\n: 3" (and for compact_list_indent "? - 1\n  - 2\n: 3").
// The same happens for Vec keys and at every nesting level (map value, sequence item, ...).
//
// Cause: src/ser.rs MapSer::serialize_key (non-scalar key branch) writes "? " and serializes the
//   key mid-line; serialize_seq then keeps the first dash on that line (SeqSer::serialize_element
//   "first && !at_line_start") but computes the depth of the other dashes as
//   current_map_depth (+1 unless compact_list_indent) - the rule `inline_first only when
//   indent_step == 2` that was introduced for "- - x" is not applied to "? - x".
use serde_saphyr::ser_options;
use std::collections::BTreeMap;

fn check(opts: serde_saphyr::SerializerOptions, what: &str) {
    let mut m = BTreeMap::new();
    m.insert((1, 2), 3);
    let yaml = serde_saphyr::to_string_with_options(&m, opts).unwrap();
    match serde_saphyr::from_str::<BTreeMap<(i32, i32), i32>>(&yaml) {
        Ok(back) => assert_eq!(back, m, "{what}: value changed; emitted text:\n{yaml}"),
        Err(e) => panic!("{what}: emitted text does not read back: {e}\nemitted text:\n{yaml}"),
    }
}

#[test]
fn tuple_key_default_options_is_fine() {
    check(ser_options! {}, "defaults");
}

#[test]
fn tuple_key_indent_step_4() {
    check(ser_options! { indent_step: 4 }, "indent_step 4");
}

#[test]
fn tuple_key_indent_step_3() {
    check(ser_options! { indent_step: 3 }, "indent_step 3");
}

#[test]
fn tuple_key_compact_list_indent() {
    check(ser_options! { compact_list_indent: true }, "compact_list_indent");
}
