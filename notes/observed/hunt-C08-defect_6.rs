// C08 defect 6: `AliasLimits::max_replay_stack_depth` cannot limit replay nesting: it only
// distinguishes 0 (no alias at all) from "anything goes".
//
// Violated clause: "alias replay never exceeds the configured ... replay-nesting limits" (family:
// long alias chains). The crate's own documentation (src/options.rs):
//     /// Maximum depth of the alias replay stack (nested alias -> injected buffer -> alias, etc.).
//     pub max_replay_stack_depth: usize,     // default 64
//
// Minimal input: an alias chain nested five deep, read with `max_replay_stack_depth = 2`:
//
//     a: &a [x]
//     b: &b [*a]
//     c: &c [*b]
//     d: &d [*c]
//     e: &e [*d]
//     f: *e          <- *e -> *d -> *c -> *b -> *a : nesting 5
//
// What the crate does: accepts it (and any longer chain; 1 behaves like 2, 64 or usize::MAX).
// In `LiveEvents::next_impl` (src/live_events.rs) an `Event::Alias` can only come from the real
// parser, and the parser is only pulled when the `inject` stack is empty; aliases inside an anchored
// node were already expanded when its buffer was recorded (`record` stores the replayed events, not
// the alias). So `self.inject.len() + 1` is always exactly 1 at the check
//     if next_depth > self.alias_limits.max_replay_stack_depth { AliasReplayStackDepthExceeded }
// and the documented "nested alias -> injected buffer -> alias" situation never arises: the limit a
// user configures to cut off deep chains is silently without effect.
//
// What it should do: reject the document at `f: *e` (nesting 5 > 2) - e.g. by storing with every
// recorded anchor the alias nesting it contains (1 + max over the aliases expanded while recording)
// and checking that against the limit - or drop / re-document the option.
//
// Run: cargo test --offline --test defect_6

use serde::de::IgnoredAny;
use serde_saphyr::Options;

const CHAIN: &str = "a: &a [x]\nb: &b [*a]\nc: &c [*b]\nd: &d [*c]\ne: &e [*d]\nf: *e\n";

fn read(max_depth: usize) -> Result<(), String> {
    let mut opts = Options::default();
    opts.alias_limits.max_replay_stack_depth = max_depth;
    serde_saphyr::from_str_with_options::<IgnoredAny>(CHAIN, opts)
        .map(|_| ())
        .map_err(|e| e.to_string())
}

#[test]
fn control_generous_limit_accepts_and_zero_rejects() {
    assert!(read(64).is_ok());
    assert!(read(5).is_ok());
    assert!(read(0).unwrap_err().contains("alias replay stack depth exceeded"));
}

#[test]
fn alias_chain_nested_deeper_than_the_limit_is_rejected() {
    for limit in [1usize, 2, 3, 4] {
        let r = read(limit);
        assert!(
            r.is_err(),
            "max_replay_stack_depth = {limit}: an alias chain nested 5 deep (*e -> *d -> *c -> *b -> *a) was accepted"
        );
    }
}
