// C13 defect 5: a mapping with a composite (non-scalar) key cannot be serialized at all once
// it is inside a flow collection: serialization fails with
// "unexpected internal error: non-scalar key".
//
// Violated clause: "For every value composed of the Serde data-model shapes - ... maps with
// string, non-string and composite keys ... nested arbitrarily - ... the emitted text is a
// single well-formed YAML document that deserializes back into an equal value of the same
// type."  No text is emitted; the (internal) error also hits a block-style map that merely
// sits somewhere inside a FlowSeq / FlowMap value.
//
// Minimal inputs (default options):
//   FlowMap(BTreeMap<Vec<i32>, i32> { [1, 2]: 3 })          expected "{[1, 2]: 3}" or
//                                                            "{? [1, 2] : 3}"
//   FlowSeq(vec![ BTreeMap<Vec<i32>, i32> { [1, 2]: 3 } ])  expected "[{[1, 2]: 3}]"
// (the reader accepts both forms, see "Composite keys" in README.md).
//
// Cause: src/ser.rs, MapSer::serialize_key, `if self.flow { ... let text =
// scalar_key_to_string(key, ...)?; ...}`: the flow branch propagates the "non-scalar key"
// marker error of KeyScalarSink instead of handling it like the block branch does
// (`Err(Error::Unexpected { msg }) if msg == "non-scalar key" => { ... "? " ... }`).
//
// Run: cargo test --offline --test defect_5
use serde_saphyr::{FlowMap, FlowSeq};
use std::collections::BTreeMap;

fn key_map() -> BTreeMap<Vec<i32>, i32> {
    let mut m = BTreeMap::new();
    m.insert(vec![1, 2], 3);
    m
}

#[test]
fn composite_key_in_flow_mapping() {
    let v = FlowMap(key_map());
    let yaml = serde_saphyr::to_string(&v)
        .unwrap_or_else(|e| panic!("a map with a composite key cannot be serialized: {e}"));
    let back: FlowMap<BTreeMap<Vec<i32>, i32>> = serde_saphyr::from_str(&yaml)
        .unwrap_or_else(|e| panic!("emitted text does not read back: {e}\n{yaml}"));
    assert_eq!(back, v, "emitted:\n{yaml}");
}

#[test]
fn composite_key_map_inside_flow_sequence() {
    let v = FlowSeq(vec![key_map()]);
    let yaml = serde_saphyr::to_string(&v)
        .unwrap_or_else(|e| panic!("a map with a composite key cannot be serialized: {e}"));
    let back: FlowSeq<Vec<BTreeMap<Vec<i32>, i32>>> = serde_saphyr::from_str(&yaml)
        .unwrap_or_else(|e| panic!("emitted text does not read back: {e}\n{yaml}"));
    assert_eq!(back, v, "emitted:\n{yaml}");
}

#[test]
fn the_reader_accepts_the_expected_forms() {
    // Sanity check (passes): the texts the serializer should have produced are readable.
    let a: BTreeMap<Vec<i32>, i32> = serde_saphyr::from_str("{[1, 2]: 3}\n").unwrap();
    assert_eq!(a, key_map());
    let b: Vec<BTreeMap<Vec<i32>, i32>> = serde_saphyr::from_str("[{[1, 2]: 3}]\n").unwrap();
    assert_eq!(b, vec![key_map()]);
}
