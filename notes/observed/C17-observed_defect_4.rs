//! OBSERVED DEFECT 4 (unchanged crate) - NEEDS FEATURE `miette`
//!   cargo test --features garde,validator,miette,robotics --test observed_defect_4
//!
//! miette adapter x reader entry point x multi-byte text before the error. For reader input the
//! parser supplies no byte offsets (`byte_info == (0, 0)`), and `Span::offset()` - documented as a
//! character offset - actually counts BYTES there (e.g. 13 for "a: 1 # é\nb: " although that is
//! 12 characters; `from_str` reports offset 12 / byte offset 13 for the same text).
//! `to_source_span` takes the "character" path and walks `offset` *characters* into the source, so
//! the label is shifted right by the number of continuation bytes before the error ("yz\n"
//! instead of "xyz"), or is dropped altogether when the walk runs off the end of the source.
#![cfg(feature = "miette")]
use serde::Deserialize;

#[derive(Debug, Deserialize)]
#[allow(dead_code)]
struct P {
    a: i32,
    b: i32,
}

fn labelled_text(report: &miette::Report, source: &str) -> Option<String> {
    let labels: Vec<_> = report.labels()?.collect();
    let l = labels.first()?;
    Some(source[l.offset()..l.offset() + l.len()].to_owned())
}

#[test]
fn miette_label_for_reader_error_after_one_two_byte_char() {
    let yaml = "a: 1 # é\nb: xyz\n";
    let err = serde_saphyr::from_reader::<_, P>(std::io::Cursor::new(yaml.as_bytes())).unwrap_err();
    let report = serde_saphyr::miette::to_miette_report(&err, yaml, "t.yaml");
    assert_eq!(labelled_text(&report, yaml).as_deref(), Some("xyz"));
}

#[test]
fn miette_label_for_reader_error_after_cjk_comment_is_not_lost() {
    let yaml = "a: 1 # 日本\nb: xyz\n";
    let err = serde_saphyr::from_reader::<_, P>(std::io::Cursor::new(yaml.as_bytes())).unwrap_err();
    let report = serde_saphyr::miette::to_miette_report(&err, yaml, "t.yaml");
    assert_eq!(labelled_text(&report, yaml).as_deref(), Some("xyz"));
}

/// Control: the string entry point (byte offsets available) is right.
#[test]
fn control_miette_label_for_str_error_after_multibyte() {
    let yaml = "a: 1 # 日本\nb: xyz\n";
    let err = serde_saphyr::from_str::<P>(yaml).unwrap_err();
    let report = serde_saphyr::miette::to_miette_report(&err, yaml, "t.yaml");
    assert_eq!(labelled_text(&report, yaml).as_deref(), Some("xyz"));
}
