// C12 defect 3: a byte array that is not valid UTF-8 does not read back when its field sits in a
// `#[serde(flatten)]`-ed struct or in an internally tagged / untagged enum.
//
// Violated clause: "Every ... byte array, serialized in any position (... mapping value ...
// enum payload) ... deserializes back into the same type as the identical value"; the README
// ("Binary scalars") says `!!binary` values "are base64-decoded when deserializing into
// `Vec<u8>`".
//
// Minimal input (default options):
//     struct Inner { #[serde(with = "serde_bytes")] data: Vec<u8> }
//     struct Outer { id: u32, #[serde(flatten)] inner: Inner }
//     Outer { id: 1, inner: Inner { data: vec![0xFF] } }
// is written (correctly) as
//     id: 1
//     data: !!binary /w==
// but `from_str::<Outer>` fails with "!!binary scalar is not valid UTF-8 so cannot be stored
// into string". Bytes that happen to be valid UTF-8 (e.g. [1, 2, 3]) do read back, so the
// failure depends on the data. Same for `#[serde(tag = "t")] enum E { A { data: ByteBuf } }`
// and for `#[serde(untagged)] enum U { B(ByteBuf), .. }`.
//
// Expected: the bytes read back; `deserialize_any` should hand a `!!binary` scalar to the
// visitor as bytes (`visit_byte_buf`), which serde's buffered `Content` carries to the byte
// visitor of the real field type.
//
// Cause: src/de.rs, `deserialize_any`, scalar branch: `if *tag == SfTag::Binary &&
// !self.cfg.ignore_binary_tag_for_string { return visitor.visit_string(self.take_string_scalar()?); }`
// - the decoded payload is forced into a `String` (error when it is not UTF-8) although the
// typeless caller (serde's flatten / tagged-enum buffering) wants the bytes.
//
// Run: cargo test --offline --test defect_3

use serde::{Deserialize, Serialize};
use serde_bytes::ByteBuf;

#[derive(Serialize, Deserialize, Debug, PartialEq)]
struct Inner {
    #[serde(with = "serde_bytes")]
    data: Vec<u8>,
}

#[derive(Serialize, Deserialize, Debug, PartialEq)]
struct Outer {
    id: u32,
    #[serde(flatten)]
    inner: Inner,
}

#[derive(Serialize, Deserialize, Debug, PartialEq)]
#[serde(tag = "t")]
enum Tagged {
    A { data: ByteBuf },
}

#[test]
fn bytes_in_a_flattened_struct_read_back() {
    for data in [vec![1u8, 2, 3], vec![0xFF], vec![0x9e, 0xe9, 0x65]] {
        let v = Outer {
            id: 1,
            inner: Inner { data },
        };
        let yaml = serde_saphyr::to_string(&v).unwrap();
        let back: Outer = serde_saphyr::from_str(&yaml)
            .unwrap_or_else(|e| panic!("{v:?} does not read back: {e}\nyaml:\n{yaml}"));
        assert_eq!(back, v, "yaml:\n{yaml}");
    }
}

#[test]
fn bytes_in_an_internally_tagged_enum_read_back() {
    let v = Tagged::A {
        data: ByteBuf::from(vec![0xC0u8, 0x80]),
    };
    let yaml = serde_saphyr::to_string(&v).unwrap();
    let back: Tagged = serde_saphyr::from_str(&yaml)
        .unwrap_or_else(|e| panic!("{v:?} does not read back: {e}\nyaml:\n{yaml}"));
    assert_eq!(back, v, "yaml:\n{yaml}");
}
