// Defect 1 (C15): the miette rendering of a `validator` failure depends on the hash seed.
//
// Needs optional features: run with
//   cargo test --offline --features garde,validator,miette,robotics --test defect_1
//
// Violated clause: "The result of any serialization or deserialization call is the same whether
// it is the first call on a fresh thread or follows ... any sequence of other ... calls on the
// same thread. No anchor table, error-location fallback, budget counter or HASH SEED survives a
// call in a way that can be observed."
//
// Minimal input: a struct with several `#[validate(..)]` fields that all fail,
//   alpha: a / beta: b / gamma: 1 / delta: d / eps: e / zeta: z
// parsed with `from_str_validate`, the error then handed to
// `serde_saphyr::miette::to_miette_report` (the crate's own miette integration).
//
// What the crate does: every call produces the related diagnostics in a different order
// (beta, alpha, delta, gamma / beta, alpha, gamma, delta / ...), and the parameters inside one
// message change order as well (`[{"min": .., "max": .., "value": ..}]` vs
// `[{"min": .., "value": .., "max": ..}]`).  20 identical calls on one thread give ~20 different
// reports; the same call on a fresh thread differs again.  `Display` / `render()` of the very
// same error ARE stable (the earlier fix sorted fields, list items and parameters in
// `de_error.rs::collect_validator_issues`), so the two renderings of one error even disagree on
// which issue comes first.
//
// What it should do: the same input must give the same report - the miette path should walk the
// `validator` maps in the same fixed order as `collect_validator_issues`.
//
// Cause: src/miette.rs, `collect_validator_entries_inner` - a second, private walker over
// `validator::ValidationErrors` that iterates `errors.errors()` (a `HashMap`) and each `List`
// unsorted, and formats an entry with `entry.to_string()` (validator's `Display`, which prints
// the `params` `HashMap` in hash order).  The fix for the known hash-seed defect was applied to
// `src/de_error.rs::collect_validator_issues_inner` only; this sibling was missed.
#![cfg(all(feature = "validator", feature = "miette"))]

use serde::Deserialize;
use std::collections::BTreeSet;
use validator::Validate;

#[derive(Debug, Deserialize, Validate)]
struct Cfg {
    #[validate(length(min = 3))]
    alpha: String,
    #[validate(length(min = 3))]
    beta: String,
    #[validate(range(min = 10, max = 20))]
    gamma: i32,
    #[validate(length(min = 3))]
    delta: String,
    #[validate(length(min = 3))]
    eps: String,
    #[validate(range(min = 10, max = 20))]
    zeta: i32,
}

const YAML: &str = "alpha: a\nbeta: b\ngamma: 1\ndelta: d\neps: e\nzeta: 2\n";

fn render_once() -> (String, String) {
    let err = serde_saphyr::from_str_validate::<Cfg>(YAML).expect_err("validation must fail");
    let display = err.to_string();
    let report = serde_saphyr::miette::to_miette_report(&err, YAML, "cfg.yaml");
    let handler = miette::GraphicalReportHandler::new_themed(miette::GraphicalTheme::none());
    let mut out = String::new();
    handler
        .render_report(&mut out, report.as_ref())
        .expect("report renders");
    (display, out)
}

#[test]
fn miette_report_of_validator_failure_is_the_same_for_every_call() {
    // Reference: the call on a fresh thread.
    let (ref_display, ref_report) = std::thread::spawn(render_once).join().unwrap();

    let mut displays = BTreeSet::new();
    let mut reports = BTreeSet::new();
    displays.insert(ref_display);
    reports.insert(ref_report);
    // The same call, repeated on this thread after other calls.
    for _ in 0..40 {
        let (d, r) = render_once();
        displays.insert(d);
        reports.insert(r);
    }

    // The plain rendering is stable (this part passes) ...
    assert_eq!(displays.len(), 1, "Display of the error changed between calls");
    // ... the miette rendering of the same error is not.
    assert_eq!(
        reports.len(),
        1,
        "the same call produced {} different miette reports, e.g.\n{}\n-----\n{}",
        reports.len(),
        reports.iter().next().unwrap(),
        reports.iter().nth(1).unwrap()
    );
}
