// DEFECT 4 - a cycle between two nodes that are both owned elsewhere (doubly linked list,
// sibling links) is written in a form the reader rejects: an RcRecursion / ArcRecursion that is
// met BEFORE the RcRecursive / ArcRecursive that owns its target
//
// Property clause violated:
//   "self-referential structures built from the recursive wrappers are restored" and
//   "weak references resolve to their strong target" (quantified over "cycles through the
//   recursive wrappers", every "definition order").
// The module documentation of src/anchors.rs states an ordering restriction only for the
// standard anchors ("the strong anchor must be fully parsed before any of its aliases (weak
// anchors) are encountered"); the recursive family is described as "specifically designed for
// circular or recursive graphs". The rustdoc of RcRecursive says it "must be placed where the
// original value is defined" - here it is the crate's own serializer that puts the definition
// somewhere else, so text written by `to_string` cannot be read by `from_str`.
//
// Minimal input: a two element doubly linked list, nodes owned by a Vec:
//   struct N { name, prev: Option<RcRecursion<N>>, next: Option<RcRecursion<N>> }
//   struct List { nodes: Vec<RcRecursive<N>> }          a.next -> b, b.prev -> a
//
// The serializer writes
//   nodes:
//     - &a1
//       name: a
//       prev: null
//       next: &a2            <- the weak link carries the DEFINITION of b
//         name: b
//         prev: *a1
//         next: null
//     - *a2                  <- the owning RcRecursive is written as the alias
//
// What the crate does: reading this text fails with
//   "RcRecursion refers to unknown recursive anchor id"
// so a list / ring / sibling-linked tree built from the recursive wrappers cannot be restored.
//
// What it should do: restore both nodes with a.next -> b and b.prev -> a.
//
// Cause: src/ser.rs TupleSer, TupleKind::AnchorWeak: a weak wrapper that is the first sight of
// a pointer takes the "definition path" (`pending_anchor_id = Some(id)` + the full value), and
// the strong wrapper met later becomes `*aN`. On the reading side src/anchors.rs
// RcRecursionVisitor::visit_newtype_struct (same for ArcRecursion) throws the node away with
// `IgnoredAny` and then only looks the id up in the table (`get_rc_recursive`), which is still
// empty: nothing creates the allocation from a definition that arrives through the weak side.
//
// Run: cargo test --offline --test defect_4

use serde::{Deserialize, Serialize};
use serde_saphyr::{RcRecursion, RcRecursive};

#[derive(Serialize, Deserialize)]
struct N {
    name: String,
    prev: Option<RcRecursion<N>>,
    next: Option<RcRecursion<N>>,
}

#[derive(Serialize, Deserialize)]
struct List {
    nodes: Vec<RcRecursive<N>>,
}

#[test]
fn doubly_linked_list_round_trips() {
    let a = RcRecursive::wrapping(N { name: "a".into(), prev: None, next: None });
    let b = RcRecursive::wrapping(N {
        name: "b".into(),
        prev: Some(RcRecursion::from(&a)),
        next: None,
    });
    a.0.borrow_mut().as_mut().unwrap().next = Some(RcRecursion::from(&b));

    let yaml = serde_saphyr::to_string(&List { nodes: vec![a, b] }).expect("serialize");
    let back: List = serde_saphyr::from_str(&yaml)
        .unwrap_or_else(|e| panic!("the serializer's own output is rejected: {e}\n{yaml}"));

    assert_eq!(back.nodes.len(), 2);
    let a = &back.nodes[0];
    let b = &back.nodes[1];
    assert_eq!(a.borrow().name, "a");
    assert_eq!(b.borrow().name, "b");
    assert!(a.borrow().next.as_ref().is_some_and(|l| l.upgrade().is_some_and(|t| t == *b)));
    assert!(b.borrow().prev.as_ref().is_some_and(|l| l.upgrade().is_some_and(|t| t == *a)));
}
