// Defect 6 (property C13): a map with a composite (non-scalar) key cannot be serialized at all
// once it is inside a flow collection - FlowMap(map) itself, or the map anywhere below a
// FlowSeq / FlowMap: the serializer returns Err("non-scalar key") instead of emitting a document.
//
// Violated clause: "For every value composed of the Serde data-model shapes - ... maps with
//   string, non-string and composite keys ..., nested arbitrarily - ... the emitted text is a
//   single well-formed YAML document that deserializes back into an equal value of the same
//   type."  Composite keys are supported in block style (`? key` / `: value`); FlowSeq / FlowMap
//   are the crate's documented style controls and document no restriction on key types.  YAML
//   flow mappings can carry such keys: `{[1, 2]: 3}` or `{? [1, 2] : 3}` - and this crate's own
//   reader accepts both and returns the equal map (checked below).
//
// Minimal input: FlowMap(BTreeMap<(i32, i32), i32> { (1, 2): 3 })      (default options)
//   the crate: to_string(..) == Err(Unexpected { msg: "non-scalar key" })
//   expected:  "{[1, 2]: 3}\n" (or the explicit form), reading back as the same map.
// Same error for FlowSeq(vec![map]) - the map is only *nested* in a flow collection.
//
// Cause: src/ser.rs MapSer::serialize_key, `if self.flow { ... let text =
//   scalar_key_to_string(key, ..)?; ...}` - the flow branch propagates the "non-scalar key"
//   error of the scalar-only key sink, whereas the block branch catches exactly that error and
//   falls back to serializing the key as a node.
use serde_saphyr::{FlowMap, FlowSeq};
use std::collections::BTreeMap;

type M = BTreeMap<(i32, i32), i32>;

fn sample() -> M {
    let mut m = BTreeMap::new();
    m.insert((1, 2), 3);
    m
}

#[test]
fn reader_accepts_composite_keys_in_flow_mappings() {
    // Not the defect: shows what the writer could emit.
    assert_eq!(serde_saphyr::from_str::<M>("{[1, 2]: 3}\n").unwrap(), sample());
    assert_eq!(serde_saphyr::from_str::<M>("{? [1, 2] : 3}\n").unwrap(), sample());
}

#[test]
fn flow_map_with_tuple_key() {
    let yaml = serde_saphyr::to_string(&FlowMap(sample()))
        .unwrap_or_else(|e| panic!("a map with a tuple key cannot be written in flow style: {e:?}"));
    assert_eq!(serde_saphyr::from_str::<M>(&yaml).unwrap(), sample(), "emitted:\n{yaml}");
}

#[test]
fn map_with_tuple_key_nested_in_flow_seq() {
    let yaml = serde_saphyr::to_string(&FlowSeq(vec![sample()]))
        .unwrap_or_else(|e| panic!("a map with a tuple key cannot be written below a FlowSeq: {e:?}"));
    assert_eq!(serde_saphyr::from_str::<Vec<M>>(&yaml).unwrap(), vec![sample()], "emitted:\n{yaml}");
}
