// DEFECT 4 (C06): for untyped targets (serde_json::Value, #[serde(flatten)] maps, untagged
// enums - everything that goes through `deserialize_any`) a plain scalar is replaced by a
// DIFFERENT STRING that does not occur in the input whenever Rust's `f64::from_str` turns it
// into a non-finite value: the words `inf`, `Inf`, `infinity`, `Infinity`, `nan`, `NaN`, `Nan`
// (with optional sign) and overflowing decimals such as `1e999`.
//
// Property clauses violated:
//   "A scalar is interpreted from its text, style, tag, the requested Rust type and the
//    options only ... strings ... follow the documented tables" and the documented untyped
//   inference order "(null, bool, int, float, string)": the outcome here is neither the float
//   nor the string that was written.  (This is not the already-judged "lenient float
//   spellings" point: an f64 target accepting `inf` is one thing; here a *string* result is
//   produced whose text was never in the document.)
//
// Minimal inputs (target serde_json::Value):
//   `name: Nan`   -> {"name": ".nan"}     should be {"name": "Nan"}   (a perfectly good name)
//   `Infinity`    -> String(".inf")       should be String("Infinity")
//   `-infinity`   -> String("-.inf")      should be String("-infinity")
//   `1e999`       -> String(".inf")       the text 1e999 is lost (should stay "1e999", or be
//                                          an error / a float, never another string)
//   For comparison `.inf` -> String(".inf") and `infinit` -> String("infinit") are fine.
//
// Cause: src/de.rs, `deserialize_any`, float step: `parse_yaml12_float::<f64>` falls back to
// `str::parse::<f64>()`, which accepts "inf"/"infinity"/"nan" in any case and saturates
// overflowing literals to infinity; for every non-finite result the code then calls
// `visitor.visit_string(".nan" | ".inf" | "-.inf")` (canonicalisation meant for the YAML
// literals `.inf`/`.nan` only) instead of handing over the original text.
//
// Run: cargo test --offline --test defect_4

use serde_json::{Value, json};

#[test]
fn yaml_special_floats_keep_their_documented_canonical_string() {
    // documented behaviour, holds
    assert_eq!(serde_saphyr::from_str::<Value>(".inf").unwrap(), json!(".inf"));
    assert_eq!(serde_saphyr::from_str::<Value>("-.INF").unwrap(), json!("-.inf"));
    assert_eq!(serde_saphyr::from_str::<Value>(".NaN").unwrap(), json!(".nan"));
}

#[test]
fn plain_words_are_not_rewritten() {
    let v: Value = serde_saphyr::from_str("name: Nan").unwrap();
    assert_eq!(v, json!({"name": "Nan"}));

    for word in ["inf", "Infinity", "-infinity", "nan", "NaN", "+inf"] {
        let v: Value = serde_saphyr::from_str(word).unwrap();
        assert_eq!(v, Value::String(word.to_owned()), "plain scalar {word:?}");
    }
}

#[test]
fn overflowing_decimal_is_not_turned_into_the_string_dot_inf() {
    let v: Value = serde_saphyr::from_str("1e999").unwrap();
    assert_ne!(
        v,
        Value::String(".inf".into()),
        "`1e999` came back as a string whose text is not in the document"
    );
}
