// C04 defect 1: the duplicate-key policy is not applied to a mapping that is read as an
// externally tagged enum (`Variant: payload`).
//
// Violated clause: "FirstWins gives the result of the document with every later entry (its key
// and its whole value) deleted" and "the Error policy fails with a duplicate-key error located
// at the repeated key" - stated for every mapping / option combination.
//
// Minimal input:   A: 1
//                  A: 2          (target: enum E { A(i32) }, also {A: 1, A: 2}, also as a
//                                 sequence item or a struct field)
//
// What the crate does: under all three policies the same error
//   "expected end of mapping after enum variant value at line 2, column 1".
// What it should do: FirstWins -> the document with the later entry deleted is `A: 1`, i.e.
//   Ok(E::A(1)) (this is what every other target gets: BTreeMap<String, i32> yields {"A": 1});
//   Error -> Error::DuplicateMappingKey (the message that tells the user about
//   DuplicateKeyPolicy), located at the second `A`.
//
// Cause: src/de.rs, YamlDeserializer::deserialize_enum, `Some(Ev::MapStart { .. })` arm
// (Mode::Map) + VA::expect_map_end: the mapping is consumed by hand (first key, payload,
// MapEnd) and never goes through MA::next_key_seed, so `self.cfg.dup_policy` is never looked at.
// A repeated variant key should be skipped (FirstWins: skip key + one node) or reported as a
// duplicate key (Error) before `ExpectedMappingEndAfterEnumVariantValue` is raised.

use serde::Deserialize;
use serde_saphyr::options::DuplicateKeyPolicy;
use std::collections::BTreeMap;

#[derive(Debug, Deserialize, PartialEq)]
enum E {
    A(i32),
    S { x: i32 },
}

#[test]
fn first_wins_deletes_the_repeated_variant_entry() {
    for yaml in ["A: 1\nA: 2\n", "{A: 1, A: [2, {deep: 3}]}\n"] {
        // Reference: a map target sees the de-duplicated document.
        let opts = serde_saphyr::options! { duplicate_keys: DuplicateKeyPolicy::FirstWins };
        let m: BTreeMap<String, serde::de::IgnoredAny> =
            serde_saphyr::from_str_with_options(yaml, opts).unwrap();
        assert_eq!(m.len(), 1);

        let opts = serde_saphyr::options! { duplicate_keys: DuplicateKeyPolicy::FirstWins };
        let e: Result<E, _> = serde_saphyr::from_str_with_options(yaml, opts);
        assert_eq!(
            e.as_ref().ok(),
            Some(&E::A(1)),
            "FirstWins must read {yaml:?} like `A: 1`, got {:?}",
            e.as_ref().map_err(|e| e.to_string())
        );
    }
}

#[test]
fn first_wins_struct_variant() {
    let yaml = "S: {x: 1}\nS: {x: 2}\n";
    let opts = serde_saphyr::options! { duplicate_keys: DuplicateKeyPolicy::FirstWins };
    let e: Result<E, _> = serde_saphyr::from_str_with_options(yaml, opts);
    assert_eq!(e.as_ref().ok(), Some(&E::S { x: 1 }), "{:?}", e.as_ref().map_err(|e| e.to_string()));
}

#[test]
fn error_policy_reports_a_duplicate_key() {
    let yaml = "A: 1\nA: 2\n";
    let opts = serde_saphyr::options! { duplicate_keys: DuplicateKeyPolicy::Error, with_snippet: false };
    let err = serde_saphyr::from_str_with_options::<E>(yaml, opts).unwrap_err();
    let msg = err.to_string();
    assert!(
        msg.contains("duplicate mapping key"),
        "Error policy must report the repeated key `A` as a duplicate key, got: {msg}"
    );
}
