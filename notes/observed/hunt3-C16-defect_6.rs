// Defect 6 (C16): a type error at the ROOT node of a document that is raised through one of
// serde's generic error constructors carries no location at all (Error::location() == None,
// Error::locations() == None, message without "line .. column ..", no snippet) - although the
// same error one level down (as a sequence element / mapping value) is located, and although a
// span-carrying root value (`Spanned<T>`) knows the position of the root node (1:1).
//
// Violated clause: "a type error at a node is reported at the position a span-carrying value
// would give for that node" - quantified over every leaf "replaced by a mismatching scalar"; the
// root of a scalar / flow document is such a node.
//
// Minimal inputs:
//     from_str::<(i32, i32)>("[1]\n")              -> "invalid length 1, expected a tuple of size 2"
//     from_str::<NonZeroU8>("0\n")                 -> "invalid value: integer `0`, expected a nonzero u8"
//     from_str::<T>("t: A\na: bad\n")  (#[serde(tag = "t")] enum T { A { a: i32 } })
//                                                  -> "invalid type: string "bad", expected i32"
// What the crate does: all three errors have no location.
// What it should do: report the root node (1:1) at least - `from_str::<Vec<(i32,i32)>>("- [1]\n")`
// reports 1:3, `from_str::<Vec<NonZeroU8>>("- 0\n")` reports 1:3, and
// `from_str::<Spanned<..>>` of these documents gives 1:1 for the root node.
//
// Cause: locations of such errors are attached after the fact by the *parent* container
// (src/de.rs SA::next_element_seed / MA::next_value_seed -> attach_alias_locations_if_missing,
// or the MISSING_FIELD_FALLBACK thread-local set by a parent, src/de_error.rs
// maybe_attach_fallback_location). The root node has no parent: src/lib.rs
// from_str_with_options_impl() hands `T::deserialize(YamlDeserializer::new(..))` errors through
// unchanged, and `de::Error::custom` / `invalid_length` (not overridden) never get a location.
//
// Run: cargo test --offline --test defect_6

use serde::Deserialize;
use serde_saphyr::Spanned;

#[test]
fn control_nested_errors_are_located() {
    let err = serde_saphyr::from_str::<Vec<(i32, i32)>>("- [1]\n").unwrap_err();
    let loc = err.location().expect("nested error is located");
    assert_eq!((loc.line(), loc.column()), (1, 3));
    let err = serde_saphyr::from_str::<Vec<std::num::NonZeroU8>>("- 0\n").unwrap_err();
    let loc = err.location().expect("nested error is located");
    assert_eq!((loc.line(), loc.column()), (1, 3));
    // and a span-carrying root value knows where the root node is
    let v: Spanned<Vec<i32>> = serde_saphyr::from_str("[1]\n").unwrap();
    assert_eq!((v.referenced.line(), v.referenced.column()), (1, 1));
}

#[test]
fn root_tuple_of_wrong_length_is_located() {
    let err = serde_saphyr::from_str::<(i32, i32)>("[1]\n").unwrap_err();
    let loc = err
        .location()
        .unwrap_or_else(|| panic!("no location for a type error at the root node: {err}"));
    assert_eq!((loc.line(), loc.column()), (1, 1));
}

#[test]
fn root_scalar_rejected_by_the_visitor_is_located() {
    let err = serde_saphyr::from_str::<std::num::NonZeroU8>("0\n").unwrap_err();
    let loc = err
        .location()
        .unwrap_or_else(|| panic!("no location for a type error at the root node: {err}"));
    assert_eq!((loc.line(), loc.column()), (1, 1));
}

#[test]
fn root_internally_tagged_enum_error_is_located() {
    #[derive(Debug, Deserialize)]
    #[allow(dead_code)]
    #[serde(tag = "t")]
    enum T {
        A { a: i32 },
        B { b: String },
    }
    let err = serde_saphyr::from_str::<T>("t: A\na: bad\n").unwrap_err();
    assert!(
        err.location().is_some(),
        "no location for a type error inside the root node: {err}"
    );
}
