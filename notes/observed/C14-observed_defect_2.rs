//! Observed on the UNCHANGED crate (property C14, serializer side).
//!
//! Same leak as observed_defect_1 through another path: a shared `RcAnchor<String>` whose text is
//! written as a block scalar (`|`, chosen automatically for multi-line text). The block-scalar
//! branch of `serialize_str` in src/ser.rs does not emit the pending anchor, so the anchor lands
//! on the next node:
//!     a: |
//!       line1
//!       line2
//!     b: &a1 5
//!     c: *a1
//! After the round trip `c` is the string "5" instead of the shared text.
use serde::{Deserialize, Serialize};
use serde_saphyr::RcAnchor;
use std::rc::Rc;

#[derive(Serialize, Deserialize, Debug)]
struct Doc {
    a: RcAnchor<String>,
    b: i32,
    c: RcAnchor<String>,
}

#[test]
fn shared_multiline_string_round_trips() {
    let s = Rc::new("line1\nline2\n".to_string());
    let doc = Doc { a: RcAnchor(s.clone()), b: 5, c: RcAnchor(s) };
    let yaml = serde_saphyr::to_string(&doc).unwrap();
    let back: Doc = serde_saphyr::from_str(&yaml).unwrap_or_else(|e| panic!("{e}\nyaml:\n{yaml}"));
    assert_eq!(*back.a.0, "line1\nline2\n");
    assert_eq!(*back.c.0, "line1\nline2\n", "alias resolved to an unrelated node; yaml:\n{yaml}");
    assert!(Rc::ptr_eq(&back.a.0, &back.c.0), "sharing lost; yaml:\n{yaml}");
}
