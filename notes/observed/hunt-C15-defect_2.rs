// Defect 2 (property C15) - no optional features needed:
//   cargo test --offline --test defect_2
//
// Violated clause: "The result of any serialization ... call is the same whether it is the first
// call ... or follows ... any sequence of other successful, failed or panicking-visitor calls"
// / "A call's result depends only on its arguments, not on earlier ... calls". The anchored
// mechanism "every entry point constructs fresh ... state" does not hold for the public
// serializer constructor: the first call leaves a mark behind that changes the second.
//
// Minimal input: one `SerializerOptions` value with `anchor_generator: Some(..)`, used to build
// two serializers with the public `serde_saphyr::Serializer::with_options(&mut out, &mut opts)`
// (the way tests/transcode_from_json.rs of the crate itself drives the serializer), each
// serializing the same `Vec<RcAnchor<String>>` holding one shared value.
//
// What the crate does: the first serialization names the anchor with the custom generator
// ("- &id1 v\n- *id1\n"), the second one - same options variable, same value - silently falls back
// to the built-in names ("- &a1 v\n- *a1\n"): `with_options` *removes* the generator from the
// caller's options (`options.anchor_generator.take()`), so the outcome of a serialization
// depends on whether the options have been used before.
//
// What it should do: leave the caller's options alone (`SerializerOptions` is `Copy`, the `fn`
// pointer can simply be copied) so that both calls give the same text. Nothing in the
// documentation of `Serializer::with_options` or of `SerializerOptions::anchor_generator` says
// that the generator works only once.
//
// Cause: src/ser.rs `YamlSerializer::with_options`: `s.anchor_gen = options.anchor_generator.take();`

use serde::Serialize;
use serde_saphyr::{RcAnchor, SerializerOptions};
use std::rc::Rc;

fn emit(opts: &mut SerializerOptions) -> String {
    let rc = Rc::new(String::from("v"));
    let value = vec![RcAnchor(rc.clone()), RcAnchor(rc)];
    let mut out = String::new();
    {
        let mut ser = serde_saphyr::Serializer::with_options(&mut out, opts);
        value.serialize(&mut ser).unwrap();
    }
    out
}

#[test]
fn second_serializer_built_from_the_same_options_gives_the_same_text() {
    let mut opts: SerializerOptions = serde_saphyr::ser_options! {
        anchor_generator: Some(|id| format!("id{id}")),
    };
    let first = emit(&mut opts);
    assert_eq!(first, "- &id1 v\n- *id1\n");
    let second = emit(&mut opts);
    assert_eq!(
        second, first,
        "the same serialization, repeated with the same options, gives another document"
    );
}

#[test]
fn options_are_not_changed_by_building_a_serializer() {
    let mut opts: SerializerOptions = serde_saphyr::ser_options! {
        anchor_generator: Some(|id| format!("id{id}")),
    };
    let _ = emit(&mut opts);
    assert!(
        opts.anchor_generator.is_some(),
        "Serializer::with_options removed the anchor generator from the caller's options"
    );
}
