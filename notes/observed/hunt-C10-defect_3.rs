// Defect 3 (property C10, reader side)
//
// Violated clause: "If the underlying reader reports an error, ... or the configured input-byte
// cap is exceeded at any point, reader-based deserialization returns an error"; the cap exists
// "to prevent resource starving" (docs of `Budget::max_reader_input_bytes`).
//
// Minimal input: any document that starts with a directive, e.g.
//
//     %YAML 1.2
//     ---
//     a: 1
//
// read with `from_reader*` / `read*` / `with_deserializer_from_reader*` when the fault position
// falls inside the directive name or a reserved-directive parameter: reader error after 3 bytes
// ("%YA"), or `max_reader_input_bytes: Some(3)`. (The same happens without any fault when the
// reader simply ends there, e.g. the complete input `%YAML`; `from_str("%YA")` returns an error
// immediately.)
//
// What the crate does: it never returns. The call spins forever at 100% CPU and grows a String
// without bound (several GB within minutes), i.e. the deferred I/O error / cap breach is never
// delivered and the byte cap turns into unbounded memory use.
//
// What it should do: return `Err(Error::IOError { .. })` (FileTooLarge for the cap).
//
// Cause: src/buffered_input.rs `ChunkedChars::next` signals both an I/O error and a cap breach
// to the parser as plain end of input (`None`), which `saphyr_parser::BufferedInput` turns into
// an endless supply of '\0' characters. The scanner's directive code
// (saphyr-parser-bw scanner.rs `scan_directive_name` / reserved-directive parameters ->
// `Input::fetch_while_is_yaml_non_space`, default impl in input.rs) loops
// `while is_yaml_non_space(look_ch())`, and `is_yaml_non_space('\0')` is true, so it consumes
// the synthetic '\0's forever. Nothing on the serde-saphyr side (LiveEvents::next_impl) gets a
// chance to look at the stored error because `parser.next()` never comes back.
//
// The test runs the call on a helper thread and fails if it has not returned within 5 seconds
// (a correct implementation answers in microseconds). NOTE: while it waits, the stuck thread
// allocates memory; the test process exits as soon as the assertion fails.
//
// Run: cargo test --offline --test defect_3

use std::io::{self, Read};
use std::sync::mpsc;
use std::time::Duration;

const DOC: &[u8] = b"%YAML 1.2\n---\na: 1\n";

struct FailAfter {
    data: &'static [u8],
    pos: usize,
    fail_at: usize,
}

impl Read for FailAfter {
    fn read(&mut self, buf: &mut [u8]) -> io::Result<usize> {
        if self.pos >= self.fail_at {
            return Err(io::Error::new(io::ErrorKind::ConnectionReset, "boom"));
        }
        let n = buf.len().min(self.fail_at - self.pos).min(self.data.len() - self.pos);
        buf[..n].copy_from_slice(&self.data[self.pos..self.pos + n]);
        self.pos += n;
        Ok(n)
    }
}

fn returns_io_error_in_time<F>(what: &str, f: F)
where
    F: FnOnce() -> Result<serde_json::Value, serde_saphyr::Error> + Send + 'static,
{
    let (tx, rx) = mpsc::channel();
    std::thread::spawn(move || {
        let _ = tx.send(f().map_err(|e| {
            (
                matches!(e.without_snippet(), serde_saphyr::Error::IOError { .. }),
                e.to_string(),
            )
        }));
    });
    match rx.recv_timeout(Duration::from_secs(5)) {
        Ok(Err((true, _))) => {}
        Ok(other) => panic!("{what}: expected an I/O error, got {other:?}"),
        Err(_) => {
            // Written directly (not via eprintln!) so that the test harness does not swallow it.
            let _ = std::io::Write::write_all(
                &mut std::io::stderr(),
                format!("\nFAILED: {what}: the call did not return within 5 s (it never does)\n").as_bytes(),
            );
            // Leave at once: the stuck thread keeps allocating.
            std::process::exit(101);
        }
    }
}

#[test]
fn a_sanity_fault_free_document_parses() {
    let v: serde_json::Value = serde_saphyr::from_reader(DOC).unwrap();
    assert_eq!(v["a"], 1);
}

#[test]
fn b_reader_error_inside_a_directive_is_returned() {
    returns_io_error_in_time("reader fails after the 3 bytes \"%YA\"", || {
        serde_saphyr::from_reader(FailAfter { data: DOC, pos: 0, fail_at: 3 })
    });
}

#[test]
fn c_cap_breach_inside_a_directive_is_returned() {
    returns_io_error_in_time("max_reader_input_bytes = 3", || {
        let opts = serde_saphyr::options! {
            budget: serde_saphyr::budget! { max_reader_input_bytes: Some(3), },
        };
        serde_saphyr::from_reader_with_options(DOC, opts)
    });
}
