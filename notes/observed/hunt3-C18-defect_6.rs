// C18 defect 6: a value supplied through an INLINE merge (`<<: {..}`) is reported as coming
// "from the anchor at ..." although the document has no anchor, and its use position is the
// `{` of the merged mapping instead of the value
//
// Run with: cargo test --offline --features garde,validator --test defect_6
//
// Violated clause: "every reported field path is mapped to the position where that field's value
// is used in the YAML and, if the value came through an anchor, also to where it was defined"
// (values supplied ... through merges). Here the value did not come through an anchor, it is
// written exactly once, at line 2 column 19.
//
// Minimal input:
//
//   main:
//     <<: {firstName: a}
//     ageYears: 3
//
// What the crate does (garde and validator alike):
//
//   error: line 2 column 7: invalid here, validation error: length is lower than 2 for `main.firstName`
//    --> the value is used here:2:7
//   2 |   <<: {firstName: a}
//     |       ^ invalid here, ...
//     | This value comes indirectly from the anchor at line 2 column 19:
//   2 |   <<: {firstName: a}
//     |                   ^ defined here
//
// i.e. Error::location() is 2:7 (the `{`), and the report talks about an anchor that does not
// exist. (For `<<: *base` the same two-window report is right: used at `*base`, defined in the
// anchored mapping.) The same happens for the inline element of `<<: [*base, {ageYears: 0}]`.
//
// What it should do: one position, line 2 column 19, no mention of an anchor - the same as for
// `main: {firstName: a, ageYears: 3}`.
//
// Cause: src/de.rs MA::next_key_seed takes `merge_ref_loc = self.ev.reference_location()` before
// pending_entries_from_live_events and stores it as PendingEntry::reference_location of every
// merged entry. For an alias that is the alias token; for an inline mapping it is just the start of
// that mapping, which differs from the location of each value inside it. MA::next_value_seed records
// `Locations { reference_location, defined_location }` with these two different positions, and
// the renderers (src/de_error.rs fmt_validation_error_with_snippets_offset /
// fmt_validator_error_with_snippets_offset, last match arm; src/miette.rs build_validation_labels)
// take "reference != defined" to mean "came through an anchor".
#![cfg(all(feature = "garde", feature = "validator"))]

mod g {
    use garde::Validate;
    use serde::Deserialize;

    #[derive(Debug, Deserialize, Validate)]
    #[serde(rename_all = "camelCase")]
    pub struct Inner {
        #[garde(length(min = 2))]
        pub first_name: String,
        #[garde(range(min = 1))]
        pub age_years: i32,
    }

    #[derive(Debug, Deserialize, Validate)]
    pub struct Root {
        #[garde(dive)]
        pub main: Inner,
    }
}

mod v {
    use serde::Deserialize;
    use validator::Validate;

    #[derive(Debug, Deserialize, Validate)]
    #[serde(rename_all = "camelCase")]
    pub struct Inner {
        #[validate(length(min = 2))]
        pub first_name: String,
        #[validate(range(min = 1))]
        pub age_years: i32,
    }

    #[derive(Debug, Deserialize, Validate)]
    pub struct Root {
        #[validate(nested)]
        pub main: Inner,
    }
}

const YAML: &str = "main:\n  <<: {firstName: a}\n  ageYears: 3\n";

fn check(err: serde_saphyr::Error) {
    let rendered = err.to_string();
    assert!(rendered.contains("main.firstName"), "{rendered}");
    assert!(
        !rendered.contains("anchor"),
        "the document has no anchor, but the report says the value comes from one:\n{rendered}"
    );
    let loc = err.location().expect("validation error must have a location");
    assert_eq!(
        (loc.line(), loc.column()),
        (2, 19),
        "the invalid value `a` is written (and used) at line 2 column 19"
    );
}

#[test]
fn garde_inline_merge_value_is_not_reported_as_anchored() {
    check(serde_saphyr::from_str_valid::<g::Root>(YAML).expect_err("validation must fail"));
}

#[test]
fn validator_inline_merge_value_is_not_reported_as_anchored() {
    check(serde_saphyr::from_str_validate::<v::Root>(YAML).expect_err("validation must fail"));
}

#[test]
fn control_alias_merge_is_reported_with_use_and_definition() {
    let yaml = "base: &b {firstName: a}\nmain:\n  <<: *b\n  ageYears: 3\n";
    let err = serde_saphyr::from_str_valid::<g::Root>(yaml).expect_err("validation must fail");
    let rendered = err.to_string();
    assert!(rendered.contains("anchor at line 1 column 22"), "{rendered}");
    let loc = err.location().expect("location");
    assert_eq!((loc.line(), loc.column()), (3, 7));
}
