//! Observed on the UNCHANGED crate (property C20): a `SpaceAfter` wrapper around a string that
//! is written as a literal block scalar with keep chomping (`|+`, i.e. the string ends in two
//! or more line breaks) changes the data. The blank line that `SpaceAfter` appends is a
//! trailing empty line of the block scalar, and keep chomping makes it part of the content:
//! `SpaceAfter(LitStr("a\n\n"))` is written as "|+\n  a\n  \n\n" and reads back as "a\n\n\n".
//! Happens at top level, as a mapping value and as a sequence item; with the explicit LitStr /
//! LitString wrappers as well as with a plain `&str` that the serializer auto-selects `|+` for.
//! (Clip `|` and strip `|-` are not affected.)

use serde::Serialize;
use serde_json::Value;
use serde_saphyr::{LitStr, SpaceAfter, to_string};

fn tree<T: Serialize>(v: &T) -> Value {
    let yaml = to_string(v).unwrap();
    serde_saphyr::from_str::<Value>(&yaml).unwrap_or_else(|e| panic!("{e}\n{yaml}"))
}

#[derive(Serialize)]
struct Doc<A: Serialize> {
    text: A,
    next: i32,
}

#[test]
fn space_after_explicit_literal_keep_top_level() {
    assert_eq!(tree(&SpaceAfter(LitStr("a\n\n"))), tree(&LitStr("a\n\n")));
}

#[test]
fn space_after_explicit_literal_keep_mapping_value() {
    let with = Doc { text: SpaceAfter(LitStr("a\n\n")), next: 1 };
    let without = Doc { text: LitStr("a\n\n"), next: 1 };
    assert_eq!(tree(&with), tree(&without));
}

#[test]
fn space_after_auto_literal_keep_sequence_item() {
    // no block-string wrapper at all: prefer_block_scalars (default) picks `|+`
    let with = vec![SpaceAfter("x\ny\n\n"), SpaceAfter("z")];
    let without = vec!["x\ny\n\n", "z"];
    assert_eq!(tree(&with), tree(&without));
}
