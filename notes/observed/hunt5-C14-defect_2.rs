// Defect 2 (C14): a small DAG in which shared nodes contain shared nodes ("diamond chain")
// does not survive the round trip: reading is exponential in the depth of the sharing and
// hits the node budget at 16 allocations / 724 bytes of YAML.
//
// Violated clause: "deserializing that text rebuilds a graph with the same sharing relation:
// two fields point to one allocation afterwards exactly if they did before" - for all DAGs
// over Rc / Arc anchors ("shared nodes in ... nested structs").
//
// Minimal input: struct D { l: Option<RcAnchor<D>>, r: Option<RcAnchor<D>> }; level 0 is a
// leaf, level k+1 has l and r both pointing to THE SAME level-k node. Depth 15 = 16
// allocations. `to_string` writes 16 anchors and 15 aliases (724 bytes) - correct and linear.
//
// What the crate does: `from_str::<RcAnchor<D>>` of that text fails with
//   "budget breached: Nodes { nodes: 250001 }"
// (depth 10 still works but already takes 2^10 times the work of one level; every further level
// doubles it; from depth ~14 on the default budget is exceeded, and with the budget raised the
// `max_total_replayed_events` limit of 1_000_000 is next).
//
// What it should do: read the 16 nodes back with l and r of every level pointing to one
// allocation. An alias that arrives at an RcAnchor field whose anchor id is already in the
// store needs no expansion at all.
//
// Cause: src/live_events.rs (Event::Alias branch: every alias is answered by replaying the
// recorded events of the anchor, and those recorded buffers contain the *expanded* events of
// the aliases inside them, so the buffer of level k holds 2^k leaf copies) together with
// src/anchors.rs, `RcAnchor`/`ArcAnchor` `visit_newtype_struct`: for an id that is already
// stored the visitor still runs `T::deserialize(deserializer)` over the whole replayed
// expansion and then drops the value (`drop(value); return Ok(RcAnchor(rc))`). Every replayed
// node is charged to `Budget::max_nodes` / `AliasLimits::max_total_replayed_events`.
//
// Run: cargo test --offline --test defect_2     (no optional features needed)

use serde::{Deserialize, Serialize};
use serde_saphyr::{from_str, to_string, RcAnchor};
use std::rc::Rc;

#[derive(Serialize, Deserialize)]
struct D {
    l: Option<RcAnchor<D>>,
    r: Option<RcAnchor<D>>,
}

#[test]
fn diamond_chain_of_16_nodes_reads_back() {
    let depth = 15;
    let mut cur = Rc::new(D { l: None, r: None });
    for _ in 0..depth {
        cur = Rc::new(D {
            l: Some(RcAnchor(cur.clone())),
            r: Some(RcAnchor(cur.clone())),
        });
    }
    let yaml = to_string(&RcAnchor(cur)).expect("serialize");
    assert_eq!(yaml.matches('&').count(), depth + 1, "{yaml}");
    assert_eq!(yaml.matches('*').count(), depth, "{yaml}");
    assert!(yaml.len() < 1000);

    let back: RcAnchor<D> = match from_str(&yaml) {
        Ok(v) => v,
        Err(e) => panic!(
            "the crate's own {}-byte output for a 16-node DAG does not read back: {e}",
            yaml.len()
        ),
    };
    let mut node = back.0.clone();
    let mut levels = 0;
    loop {
        let next = match (&node.l, &node.r) {
            (Some(l), Some(r)) => {
                assert!(Rc::ptr_eq(&l.0, &r.0), "l and r must share one allocation");
                l.0.clone()
            }
            (None, None) => break,
            _ => panic!("shape changed"),
        };
        node = next;
        levels += 1;
    }
    assert_eq!(levels, depth);
}
