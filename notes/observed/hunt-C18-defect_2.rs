// DEFECT 2 (C18): when the FIRST issue of a validation report has no position in the YAML
// (for example `#[garde(required)]` on a key that is absent), the snippets of ALL issues are
// dropped - also of the issues whose value position is known.
//
// Needs: cargo test --offline --features garde,validator,miette,robotics --test defect_2
//        (only `garde` is really required)
//
// Violated clause: "whenever it fails they return a validation error in which every reported
// field path is mapped to the position where that field's value is used in the YAML" / mechanism
// "rendering picks the snippet region covering each issue". Crate documentation of
// from_str_valid: "The error message will contain a snippet with exact location information";
// README: "serde-saphyr error will print the snippet, providing location information."
//
// Minimal input, for
//     struct S { #[garde(required)] a: Option<String>, #[garde(length(min = 1))] b: String }
//
//     b: ""
//
// What the crate does: renders
//     validation error at a: not set
//     validation error at b: length is lower than 1 at line 1, column 4
// (no snippet at all; the returned error is not even wrapped in Error::WithSnippet).
//
// What it should do: `a` has no position (it is absent), but `b` has one and must be rendered
// with its snippet exactly as it is when `a` is present (`a: ~\nb: ""` renders both with
// snippets).
//
// Cause: maybe_with_snippet (src/lib.rs) attaches the snippet only if `err.location()` is Some;
// Error::location() for Error::ValidationError / Error::ValidatorError (src/de_error.rs) looks
// only at the FIRST issue of the report (`report.iter().next()` /
// `collect_validator_issues(errors).first()`), so one unlocated first issue disables the
// snippets of the whole report. With `validator` the order of issues comes from a HashMap, so
// whether the snippets appear is random from run to run.

use garde::Validate;
use serde::Deserialize;

#[derive(Debug, Deserialize, Validate)]
#[allow(dead_code)]
struct AbsentFirst {
    #[garde(required)]
    a: Option<String>,
    #[garde(length(min = 1))]
    b: String,
}

const CARET_FOR_B: &str = "  |    ^ validation error: length is lower than 1 for `b`";

#[test]
fn located_issue_keeps_snippet_when_an_unlocated_issue_comes_first() {
    let yaml = "b: \"\"\n";

    // Control: the same two issues; `a` is present (as a null), so it has a position.
    let err = serde_saphyr::from_str_valid::<AbsentFirst>("a: ~\nb: \"\"\n")
        .expect_err("must fail validation");
    let rendered = err.to_string();
    assert!(rendered.contains("not set"), "control: {rendered}");
    assert!(
        rendered.contains("2 | b: \"\"\n") && rendered.contains(CARET_FOR_B),
        "control: {rendered}"
    );

    let err = serde_saphyr::from_str_valid::<AbsentFirst>(yaml).expect_err("must fail validation");
    let rendered = err.to_string();
    assert!(rendered.contains("not set"), "{rendered}");
    assert!(
        rendered.contains("1 | b: \"\"\n") && rendered.contains(CARET_FOR_B),
        "issue `b` is located at line 1 column 4 and must be rendered with its snippet, got:\n{rendered}"
    );
}
