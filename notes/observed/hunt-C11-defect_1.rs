// Defect 1 (property C11): a root document that is the bare name of a newtype enum variant
// reads into the NEXT document.
//
// Violated clauses:
//   "A stream of documents deserializes as the list obtained by deserializing each document
//    separately" and "The streaming iterator ... continues with the following document after a
//    type-level error".
//
// Minimal input (T = enum E { A, B(i32), O(Option<i32>) }):
//   (a) "B\n---\nA\n---\nA\n"  via serde_saphyr::read::<_, E>
//       crate: [Err(invalid type: unit value, expected i32 -- located at line 3, i.e. in document 2),
//               Ok(A)]                      -- document 2 is silently lost
//       should: [Err(..), Ok(A), Ok(A)]     -- one item per document
//   (b) "O\n---\n[1, 2\n"  via serde_saphyr::read::<_, E>
//       crate: [Err(unclosed bracket '[' at line 3)]   -- the valid document 1 is never delivered,
//               it is reported with the syntax error of document 2
//       should: [Ok(O(None)), Err(unclosed bracket)]   ("O\n" alone deserializes to O(None))
//
// Cause: src/de.rs, deserialize_enum -> VA::newtype_variant_seed calls `self.ev.peek()?` (to get a
// location) BEFORE the `!self.map_mode` early return. For a bare root scalar there is no payload
// node, so the peek crosses the document boundary (LiveEvents skips DocumentEnd/DocumentStart
// transparently) and parks the first event of the next document in the lookahead slot; a syntax
// error in the next document is propagated by the `?` as the error of the current one. When the
// payload type then rejects the absent value, ReadIter::next (src/lib.rs read_with_options) calls
// LiveEvents::skip_to_next_document (src/live_events.rs), which unconditionally drops the lookahead
// (`self.look = None`) - i.e. the already started next document - and skips to the one after it.

use serde::Deserialize;

#[derive(Debug, Deserialize, PartialEq)]
enum E {
    A,
    B(i32),
    O(Option<i32>),
}

fn items(input: &str) -> Vec<Result<E, String>> {
    let mut reader = std::io::Cursor::new(input.as_bytes());
    serde_saphyr::read::<_, E>(&mut reader)
        .take(20)
        .map(|r| r.map_err(|e| e.to_string()))
        .collect()
}

#[test]
fn document_after_bare_newtype_variant_type_error_is_not_lost() {
    // every document on its own
    assert!(serde_saphyr::from_str::<E>("B\n").is_err());
    assert_eq!(serde_saphyr::from_str::<E>("A\n").unwrap(), E::A);

    let got = items("B\n---\nA\n---\nA\n");
    assert_eq!(got.len(), 3, "one item per document expected, got {got:?}");
    assert!(got[0].is_err());
    assert_eq!(got[1], Ok(E::A));
    assert_eq!(got[2], Ok(E::A));
}

#[test]
fn valid_bare_newtype_variant_document_is_delivered_before_a_broken_next_document() {
    assert_eq!(serde_saphyr::from_str::<E>("O\n").unwrap(), E::O(None));

    let got = items("O\n---\n[1, 2\n");
    assert_eq!(
        got.first(),
        Some(&Ok(E::O(None))),
        "document 1 is valid and must be yielded before the syntax error of document 2: {got:?}"
    );
}
