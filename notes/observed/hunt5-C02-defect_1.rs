// C02 defect 1: an alias to a not-yet-closed anchor silently becomes `null` (a default value)
// when it is read by anything other than `RcRecursion` / `ArcRecursion`, and that `null`
// is recorded into the anchor's buffer, so later aliases replay a node that differs from the
// anchored node.
//
// Property clause violated:
//   "an alias with no earlier anchor of that name in the same document is always an error,
//    never a default or stale value"  (mechanism list: "unknown / not-yet-closed anchors are
//    rejected ... RecursiveReferencesRequireWeakTypes"), and
//   "Deserializing a document that uses anchors and aliases yields exactly the value obtained
//    from the document in which every alias is replaced by a copy of the node ..."
// README ("Recursive YAML"): "any reference that points to it must be RcRecursion<T>".
//
// Minimal inputs:
//   (a) target RcRecursive<Vec<Y>> (Y = untyped value):   &a [1, *a]
//         crate: Ok([1, null])            expected: error (as without RcRecursive:
//         "recursive references require weak recursion types")
//   (b) struct King { name, coronator: RcRecursion<King>, heirs: Vec<String> } with
//         king: &root {name: A, coronator: *root, heirs: *root}
//         crate: Ok, heirs == []          expected: error (heirs is no RcRecursion)
//   (c) struct Doc { a: RcRecursive<Vec<Y>>, b: Vec<Y> } with   "a: &a [1, *a]\nb: *a\n"
//         crate: b == [1, null] - `b` is outside every recursive wrapper and receives a node
//         that is not a copy of the anchored node (the anchored sequence's 2nd item is the
//         sequence itself, not null).  expected: error.
//
// Cause: src/live_events.rs, next_impl, Event::Alias arm: when the alias names an open
// recording frame and `anchor_store::recursive_anchor_in_progress(anchor_id)` holds, a
// synthetic `Ev::Scalar { value: "", tag: SfTag::Null, anchor: anchor_id }` is emitted and
// recorded into every open frame - whoever consumes it. Only `RcRecursion`/`ArcRecursion`
// (de.rs `__yaml_rc_recursion`) treat it as a link; `deserialize_any`, `deserialize_seq`,
// `deserialize_unit`, `Option` ... read it as a plain null.
//
// Run: cargo test --offline --test defect_1

use serde::Deserialize;
use serde_saphyr::{RcRecursion, RcRecursive};

#[derive(Debug, Deserialize, PartialEq)]
#[serde(untagged)]
enum Y {
    Null(()),
    Int(i64),
    Seq(Vec<Y>),
}

#[test]
fn alias_to_open_anchor_is_not_a_null_for_untyped_items() {
    // Without the wrapper the same document is rejected, as the property demands.
    assert!(serde_saphyr::from_str::<Vec<Y>>("&a [1, *a]").is_err());

    let r = serde_saphyr::from_str::<RcRecursive<Vec<Y>>>("&a [1, *a]");
    if let Ok(v) = &r {
        panic!(
            "alias to the still open anchor `a` was read as a default value: {:?}",
            v.0.borrow()
        );
    }
}

#[derive(Deserialize)]
#[allow(dead_code)]
struct King {
    name: String,
    coronator: RcRecursion<King>,
    #[serde(default)]
    heirs: Vec<String>,
}

#[derive(Deserialize)]
struct Kingdom {
    king: RcRecursive<King>,
}

#[test]
fn alias_to_open_anchor_is_not_an_empty_vec() {
    let yaml = "king: &root\n  name: A\n  coronator: *root\n  heirs: *root\n";
    let r = serde_saphyr::from_str::<Kingdom>(yaml);
    if let Ok(k) = &r {
        let b = k.king.0.borrow();
        panic!(
            "`heirs: *root` (not an RcRecursion) was accepted and read as {:?}",
            b.as_ref().unwrap().heirs
        );
    }
}

#[derive(Debug, Deserialize)]
struct Doc {
    #[allow(dead_code)]
    a: RcRecursive<Vec<Y>>,
    b: Vec<Y>,
}

#[test]
fn placeholder_null_does_not_leak_into_later_aliases() {
    // `b: *a` is outside the recursive wrapper. The node anchored as `a` is a sequence whose
    // second item is that sequence itself; no finite copy exists, so this must be an error.
    // The crate yields b == [1, null].
    let r = serde_saphyr::from_str::<Doc>("a: &a [1, *a]\nb: *a\n");
    if let Ok(d) = &r {
        panic!("`b: *a` replayed a node that is not the anchored node: {:?}", d.b);
    }
}
