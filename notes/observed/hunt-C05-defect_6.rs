// DEFECT 6 (property C05, lower confidence than 1-5: scalar KIND rather than container shape):
// the typed scalar readers for integers, floats, booleans and chars ignore an explicit core-schema
// tag that contradicts the target, although the string reader enforces exactly this rule.
//
// Violated clause: "unknown variants and kind mismatches are reported as errors, never silently
// re-synchronised."
//
// Minimal input:   !!str 5        target: i32
//
// What the crate does:
//   from_str::<i32>("!!str 5")     -> Ok(5)       from_str::<i32>("!!bool 5")   -> Ok(5)
//   from_str::<i32>("!!binary 5")  -> Ok(5)       from_str::<i32>("!!seq 5")    -> Ok(5)
//   from_str::<bool>("!!int true") -> Ok(true)    from_str::<f64>("!!bool 1.5") -> Ok(1.5)
//   from_str::<char>("!!int 5")    -> Ok('5')
// while the mirror case is rejected:
//   from_str::<String>("!!int 5")  -> Err("cannot deserialize tagged scalar into string")
//   from_str::<String>("!!bool true") -> Err(same)
//
// What it should do: a node explicitly typed `!!str` / `!!bool` / `!!binary` / `!!seq` ... is not an
// integer; reading it into i32 is a kind mismatch and must fail, symmetrically to
// Error::TaggedScalarCannotDeserializeIntoString.
//
// Cause: src/de.rs deserialize_i8 ..= deserialize_u128, deserialize_f32/f64, deserialize_bool,
// deserialize_char: `let (s, _tag, location) = self.take_scalar_cow_with_location()?;` - the tag
// is bound to `_tag` and never inspected (only parse_yaml12_float receives it, for the angle tags).
//
// Run: cargo test --offline --test defect_6      (no optional features needed)

fn describe<T: std::fmt::Debug>(r: &Result<T, serde_saphyr::Error>) -> String {
    match r {
        Ok(v) => format!("Ok({v:?})"),
        Err(e) => format!("Err({})", e.to_string().lines().next().unwrap_or("")),
    }
}

#[test]
fn control_string_reader_enforces_the_tag() {
    assert!(serde_saphyr::from_str::<String>("!!int 5").is_err());
    assert!(serde_saphyr::from_str::<String>("!!bool true").is_err());
    assert_eq!(serde_saphyr::from_str::<i32>("!!int 5").unwrap(), 5);
}

#[test]
fn explicit_string_is_not_an_integer() {
    let r = serde_saphyr::from_str::<i32>("!!str 5");
    assert!(r.is_err(), "`!!str 5` into i32 must fail, got {}", describe(&r));
}

#[test]
fn explicit_bool_or_binary_or_seq_is_not_an_integer() {
    for doc in ["!!bool 5", "!!binary 5", "!!seq 5", "!!map 5"] {
        let r = serde_saphyr::from_str::<i32>(doc);
        assert!(r.is_err(), "`{doc}` into i32 must fail, got {}", describe(&r));
    }
}

#[test]
fn explicit_int_is_not_a_bool_and_explicit_bool_is_not_a_float() {
    let r = serde_saphyr::from_str::<bool>("!!int true");
    assert!(r.is_err(), "`!!int true` into bool must fail, got {}", describe(&r));
    let r = serde_saphyr::from_str::<f64>("!!bool 1.5");
    assert!(r.is_err(), "`!!bool 1.5` into f64 must fail, got {}", describe(&r));
}
