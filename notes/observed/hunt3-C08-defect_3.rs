// C08 defect 3: every alias replay deep-copies the text of an owned scalar, and the copies are
// kept - in the recording buffer of an enclosing anchored container, or in the pending entries of
// a merge - so peak heap grows as (number of aliases) x (scalar size).
//
// Violated clause: "peak heap use stays within a fixed multiple of input size plus
// budget-counted events" (family: aliases inside anchored containers).
//
// Minimal input (S = 100 000 characters of text, n = 600 aliases):
//
//     a: &a "xxxx...xxxx\n"          # any scalar the parser cannot borrow from the input: an
//     b: &b [*a, *a, *a, ..., *a]      # escape, a folded/multi-line scalar, or any reader input
//
// (plus a list of 61 dummy anchors so that the alias/anchor ratio heuristic stays quiet).
// Input: 103 KB, ~1300 counted events. The unchanged crate needs ~60 MB of heap while reading it
// into IgnoredAny; with a plain scalar that is borrowed from the input string it needs 0.4 MB.
// The only thing that stops the growth is max_total_scalar_bytes (64 MiB by default, unlimited
// with `budget: None`), i.e. the heap is bounded by what the input expands to, not by input size
// plus counted events: a ~50 KB document (S = 8 KB, n = 8000) is good for 64 MB, and each
// further level of anchored nesting around `b` multiplies it again.
//
// Expected: heap within 64 KiB + 16 x (input bytes + 96 B x counted events) (~3.7 MB here):
// replayed events can share the recorded text (Rc<str> / index into the anchor's buffer).
//
// Cause: src/live_events.rs. next_impl() serves a replayed event as `buf[*idx].clone()` (a deep
// copy of `value: Cow::Owned`), and record() pushes yet another `ev.clone()` into every open
// RecFrame.buf; bump_depth_on_end() then stores that buffer in `anchors` for the rest of the
// document. The same copies pile up in de.rs (MA.merge_stack / PendingEntry) for
// `<<: [*m, *m, ...]` where the mapping `m` holds a long scalar (measured: also ~60 MB for 600 x 100 KB).
//
// Heap is observed through /proc/self/status (VmHWM, reset via /proc/self/clear_refs) because the
// crate forbids unsafe code in its tests too (no counting allocator possible). Linux only.
// Run: cargo test --offline --test defect_3

use serde::de::IgnoredAny;
use std::cell::Cell;
use std::rc::Rc;

fn status(field: &str) -> usize {
    let s = std::fs::read_to_string("/proc/self/status").expect("needs Linux /proc");
    for l in s.lines() {
        if let Some(rest) = l.strip_prefix(field) {
            let kb: usize = rest
                .trim_start_matches(':')
                .trim()
                .trim_end_matches("kB")
                .trim()
                .parse()
                .unwrap();
            return kb * 1024;
        }
    }
    panic!("{field} not found");
}

/// Peak resident-set growth while `f` runs.
fn peak_growth<R>(f: impl FnOnce() -> R) -> (R, usize) {
    let _ = std::fs::write("/proc/self/clear_refs", "5"); // reset VmHWM
    let base = status("VmRSS");
    let r = f();
    (r, status("VmHWM").saturating_sub(base))
}

fn document(scalar_len: usize, aliases: usize) -> String {
    let mut y = String::from("d: [");
    for i in 0..(aliases / 10 + 1) {
        if i > 0 {
            y.push_str(", ");
        }
        y.push_str(&format!("&d{i} 0"));
    }
    y.push_str("]\n");
    y.push_str("a: &a \"");
    y.push_str(&"x".repeat(scalar_len));
    y.push_str("\\n\"\n"); // the two characters `\n` inside the quotes: an escape
    y.push_str("b: &b [");
    for i in 0..aliases {
        if i > 0 {
            y.push_str(", ");
        }
        y.push_str("*a");
    }
    y.push_str("]\n");
    y
}

/// Returns (peak heap growth, events counted by the budget, input length).
fn run(scalar_len: usize, aliases: usize) -> (usize, usize, usize) {
    let yaml = document(scalar_len, aliases);
    let events = Rc::new(Cell::new(0usize));
    let seen = events.clone();
    let options = serde_saphyr::Options::default().with_budget_report(move |r| seen.set(r.events));
    let (res, peak) =
        peak_growth(|| serde_saphyr::from_str_with_options::<IgnoredAny>(&yaml, options));
    res.expect("the document is within all default limits and must be accepted");
    (peak, events.get(), yaml.len())
}

#[test]
fn aliases_of_a_long_scalar_do_not_multiply_heap() {
    let (peak, events, len) = run(100_000, 600);
    println!("input {len} B, {events} counted events, peak heap growth {peak} B");
    let bound = 64 * 1024 + 16 * (len + 96 * events);
    assert!(
        peak <= bound,
        "peak heap {peak} B for a {len} B document with {events} counted events \
         exceeds 64 KiB + 16 x (input + 96 B x events) = {bound} B"
    );
}
