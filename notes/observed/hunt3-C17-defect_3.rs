// C17 defect 3 (needs --features miette): miette adapter, error obtained through a reader entry
// point (from_reader / read), document with non-ASCII text in a comment before the error: the
// label is placed to the right of the reported position (by the number of extra UTF-8 bytes in
// the comments).
//
// Violated clause: "... with the marker under the reported column ... This holds ... for snippets
// taken from the reader ... and for the miette adapter" (string x reader entry points are both
// quantified over).
//
// Minimal input: "# комментарий\na: [1, X]\n" read with from_reader::<_, HashMap<String, Vec<i32>>>,
// then serde_saphyr::miette::to_miette_report(&err, source, "f.yaml").
// Location is right (line 2, column 8 = the X), but Span::offset() is 32 instead of 21 characters
// (11 two-byte letters in the comment were counted as bytes), so the miette label is placed 11
// characters after the X - here that is past the end of the source and the report has no label at
// all; with more text after the error the label points at an unrelated place. Through from_str the
// same document gives the right label.
//
// Cause: reader inputs have no byte offsets, so src/miette.rs to_source_span() converts the
// character offset `location.span().offset()` to a byte offset. That character offset is wrong
// after a comment: the dependency saphyr-parser-bw (src/input.rs, default
// `Input::skip_while_non_breakz`, used for buffered/reader input) returns the number of BYTES
// skipped and the scanner adds it to `mark.offsets.chars`. The crate's adapter trusts
// that index although line/column (which are right) would give the position. So the root is in the
// parser dependency, the visible effect is in the crate's miette report.
//
// Run: cargo test --offline --features miette --test defect_3

use std::collections::HashMap;

type M = HashMap<String, Vec<i32>>;

fn first_label_offset(err: &serde_saphyr::Error, source: &str) -> Option<usize> {
    let report = serde_saphyr::miette::to_miette_report(err, source, "f.yaml");
    let labels: Vec<_> = report.labels()?.collect();
    labels.first().map(|l| l.offset())
}

const DOC: &str = "# комментарий\na: [1, X]\n";

#[test]
fn control_from_str() {
    let err = serde_saphyr::from_str::<M>(DOC).unwrap_err();
    assert_eq!(first_label_offset(&err, DOC), DOC.find('X'));
}

#[test]
fn control_reader_ascii_comment() {
    let doc = "# comment\na: [1, X]\n";
    let err = serde_saphyr::from_reader::<_, M>(std::io::Cursor::new(doc.as_bytes())).unwrap_err();
    assert_eq!(first_label_offset(&err, doc), doc.find('X'));
}

#[test]
fn reader_error_after_non_ascii_comment() {
    let err = serde_saphyr::from_reader::<_, M>(std::io::Cursor::new(DOC.as_bytes())).unwrap_err();
    let loc = err.location().unwrap();
    assert_eq!((loc.line(), loc.column()), (2, 8)); // the location is right
    assert_eq!(
        first_label_offset(&err, DOC),
        DOC.find('X'),
        "miette label is not at the reported position (span = {:?})",
        loc.span()
    );
}

#[test]
fn read_iterator_error_after_non_ascii_comment_label_on_wrong_text() {
    let doc = "# 中中中\na: [1, X]\nb: [1, 2, 3, 4]\n";
    let mut cur = std::io::Cursor::new(doc.as_bytes());
    let err = serde_saphyr::read::<_, M>(&mut cur)
        .find_map(|r| r.err())
        .expect("error expected");
    assert_eq!(first_label_offset(&err, doc), doc.find('X'));
}
