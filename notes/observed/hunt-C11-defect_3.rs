// Defect 3 (property C11): documents that are explicitly tagged as NON-null (`!!str null`,
// `!!str ~`, `!!str`) are skipped as if they were null documents.
//
// Violated clause: "A stream of documents deserializes as the list obtained by deserializing each
// document separately: empty and null documents are skipped". `--- !!str null` is neither empty
// nor null: on its own, from_str::<String>("--- !!str null\n") == "null" (and `!!str ~` == "~",
// `!!str` == "").
//
// Minimal input: "--- !!str null\n--- x\n" as Vec<String>
//   crate : from_multiple -> ["x"]; read -> [Ok("x")]
//   should: ["null", "x"]
// (The mirror image exists too: `--- !!null ''` IS a null document but is not skipped.)
//
// Cause: src/lib.rs from_multiple_with_options and ReadIter::next in read_with_options (and their
// *_valid / *_validate copies) decide "null document" with
// `scalar_is_nullish(value, style)` (src/parse_scalars.rs), which looks only at text and style and
// ignores the `tag` field of `Ev::Scalar`, whereas the deserializer proper honours `!!str`.

#[test]
fn str_tagged_documents_are_not_null_documents() {
    // each document on its own
    assert_eq!(serde_saphyr::from_str::<String>("--- !!str null\n").unwrap(), "null");
    assert_eq!(serde_saphyr::from_str::<String>("--- !!str ~\n").unwrap(), "~");
    assert_eq!(serde_saphyr::from_str::<String>("--- x\n").unwrap(), "x");

    let stream = "--- !!str null\n--- !!str ~\n--- x\n";
    let batch: Vec<String> = serde_saphyr::from_multiple(stream).unwrap();
    assert_eq!(batch, vec!["null".to_string(), "~".to_string(), "x".to_string()]);
}

#[test]
fn str_tagged_documents_are_not_skipped_by_the_iterator() {
    let stream = "--- !!str null\n--- x\n";
    let mut reader = std::io::Cursor::new(stream.as_bytes());
    let got: Vec<String> = serde_saphyr::read::<_, String>(&mut reader)
        .take(10)
        .map(|r| r.unwrap())
        .collect();
    assert_eq!(got, vec!["null".to_string(), "x".to_string()]);
}
