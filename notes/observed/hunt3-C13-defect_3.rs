// C13 defect 3: with indent_step != 2, a mapping that starts inline after an indicator
// ("- ", "? " or ": ") and contains composite keys (or another such inline mapping) loses the
// alignment of its entries.
//
// Violated clause: "... maps with ... composite keys ... nested arbitrarily - and every valid
// serializer option set, the emitted text is a single well-formed YAML document that
// deserializes back into an equal value" (quantified over "all combinations of indent step").
//
// (a) Minimal input: Vec<BTreeMap<En, i32>> [ { Id(1): 10, Id(2): 20 } ], indent_step: 4
//         - ? Id: 1
//           : 10
//             ? Id: 2        <- column 4; the first '?' and both ':' are in column 2
//           : 20
//     -> rejected: the over-indented "? Id: 2" line is taken as a continuation of the plain
//        scalar "10" ("invalid i32"; an untyped reader sees the single entry
//        {Id: 1}: "10 ? Id: 2" plus a stray ": 20").
//     Expected: the second "? " in column 2 like the first one.
// (b) Minimal input: BTreeMap<En, BTreeMap<En, BTreeMap<String, i32>>>
//         { Id(1): { Id(2): { a: 1, b: 2 } } }, indent_step: 3
//         ? Id: 1
//         : ? Id: 2
//           : a: 1
//              b: 2          <- column 5; "a" is in column 4
//     -> rejected ("invalid i32": "b: 2" continues the plain scalar "1").
//     Expected: "b" in column 4 under "a".
//
// Cause: src/ser.rs. A mapping that starts inline after an indicator has its keys two columns
// right of the indicator (not on a multiple of the step); MapSer remembers this as
// `align_after_dash` and writes scalar keys and the ':' of a complex entry at
// `indent_step * (depth - 1) + 2`.
//  (a) MapSer::serialize_key, non-scalar-key branch, ignores `align_after_dash` and calls
//      `write_indent(self.depth)` for "? " (= indent_step * depth).
//  (b) the formula `indent_step * (depth - 1) + 2` itself assumes that the parent sits on a
//      multiple of the step, which is not true for a mapping nested inline inside another
//      inline-after-indicator mapping (": ? ..." / ": a: 1").
// Both coincide with the right column only for indent_step == 2.
//
// Run: cargo test --offline --test defect_3
use serde::{Deserialize, Serialize};
use serde_saphyr::ser_options;
use std::collections::BTreeMap;

#[derive(Debug, Clone, PartialEq, Eq, PartialOrd, Ord, Serialize, Deserialize)]
enum En {
    Id(i32),
}

#[test]
fn composite_keys_in_mapping_that_is_a_sequence_item_step_4() {
    let mut m: BTreeMap<En, i32> = BTreeMap::new();
    m.insert(En::Id(1), 10);
    m.insert(En::Id(2), 20);
    let v = vec![m];
    let yaml = serde_saphyr::to_string_with_options(&v, ser_options! { indent_step: 4 }).unwrap();
    let back: Vec<BTreeMap<En, i32>> = serde_saphyr::from_str(&yaml)
        .unwrap_or_else(|e| panic!("emitted text does not read back: {e}\n{yaml}"));
    assert_eq!(back, v, "emitted:\n{yaml}");
}

#[test]
fn composite_keys_in_mapping_that_is_a_sequence_item_step_3() {
    let mut m: BTreeMap<En, i32> = BTreeMap::new();
    m.insert(En::Id(1), 10);
    m.insert(En::Id(2), 20);
    let v = vec![m];
    let yaml = serde_saphyr::to_string_with_options(&v, ser_options! { indent_step: 3 }).unwrap();
    let back: Vec<BTreeMap<En, i32>> = serde_saphyr::from_str(&yaml)
        .unwrap_or_else(|e| panic!("emitted text does not read back: {e}\n{yaml}"));
    assert_eq!(back, v, "emitted:\n{yaml}");
}

#[test]
fn mapping_nested_inline_twice_under_composite_keys_step_3() {
    let mut leaf: BTreeMap<String, i32> = BTreeMap::new();
    leaf.insert("a".into(), 1);
    leaf.insert("b".into(), 2);
    let mut mid: BTreeMap<En, BTreeMap<String, i32>> = BTreeMap::new();
    mid.insert(En::Id(2), leaf);
    let mut top: BTreeMap<En, BTreeMap<En, BTreeMap<String, i32>>> = BTreeMap::new();
    top.insert(En::Id(1), mid);
    let yaml =
        serde_saphyr::to_string_with_options(&top, ser_options! { indent_step: 3 }).unwrap();
    let back: BTreeMap<En, BTreeMap<En, BTreeMap<String, i32>>> = serde_saphyr::from_str(&yaml)
        .unwrap_or_else(|e| panic!("emitted text does not read back: {e}\n{yaml}"));
    assert_eq!(back, top, "emitted:\n{yaml}");
}
