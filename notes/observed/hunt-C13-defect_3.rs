// DEFECT 3 (property C13): indent_step other than 2 - composite keys inside a mapping that is a
// sequence item (the mapping whose first key is written inline after "- ") are placed at the
// wrong column.
//
// Violated clause: "... maps with ... composite keys ... nested arbitrarily - and every valid
// serializer option set [indent step ...], the emitted text is a single well-formed YAML
// document that deserializes back into an equal value of the same type."
//
// Minimal inputs, options  indent_step: 4  (3, 5, ... fail as well; 2 is fine):
//
//  (a) Vec<BTreeMap<Vec<i32>, i32>>  [ { [1]: 5, [2]: 6 } ]   emits
//        - ? - 1
//          : 5
//            ? - 2       <- the second '?' is at column 4, the mapping's entries are at column 2
//          : 6
//      -> "mapping values are not allowed in this context"-style parse error.
//
//  (b) Vec<BTreeMap<BTreeMap<String,i32>, i32>>  [ { {k: 1, m: 7}: 7 } ]   emits
//        - ? k: 1
//              m: 7      <- column 6; the first key of the key-mapping is at column 4
//          : 7
//      -> parse error.
//
// Expected: (a) "  ? - 2" at column 2 like the ':' lines; (b) "    m: 7" at column 4.
//
// Cause: src/ser.rs.
//  (a) MapSer::serialize_key, non-scalar key branch, uses `self.ser.write_indent(self.depth)`
//      and ignores `self.align_after_dash` (the scalar-key branch and serialize_value use
//      "indent_step * (depth - 1) + 2" for such mappings).
//  (b) the key mapping starts inline after "? " (pending_inline_map) and computes its
//      continuation column as `indent_step * (depth - 1) + 2`, assuming that the '?' sits on a
//      multiple of indent_step; in a mapping aligned after a dash the '?' sits at
//      `indent_step * d + 2`.

use std::collections::BTreeMap;

#[test]
fn second_composite_key_in_sequence_item_mapping_indent_4() {
    let mut m: BTreeMap<Vec<i32>, i32> = BTreeMap::new();
    m.insert(vec![1], 5);
    m.insert(vec![2], 6);
    let v = vec![m];
    let yaml =
        serde_saphyr::to_string_with_options(&v, serde_saphyr::ser_options! { indent_step: 4 })
            .unwrap();
    let back: Vec<BTreeMap<Vec<i32>, i32>> = serde_saphyr::from_str(&yaml)
        .unwrap_or_else(|e| panic!("emitted text does not parse back: {e}\n{yaml}"));
    assert_eq!(back, v, "emitted:\n{yaml}");
}

#[test]
fn mapping_as_composite_key_in_sequence_item_mapping_indent_4() {
    let mut key: BTreeMap<String, i32> = BTreeMap::new();
    key.insert("k".to_string(), 1);
    key.insert("m".to_string(), 7);
    let mut m: BTreeMap<BTreeMap<String, i32>, i32> = BTreeMap::new();
    m.insert(key, 7);
    let v = vec![m];
    let yaml =
        serde_saphyr::to_string_with_options(&v, serde_saphyr::ser_options! { indent_step: 4 })
            .unwrap();
    let back: Vec<BTreeMap<BTreeMap<String, i32>, i32>> = serde_saphyr::from_str(&yaml)
        .unwrap_or_else(|e| panic!("emitted text does not parse back: {e}\n{yaml}"));
    assert_eq!(back, v, "emitted:\n{yaml}");
}

#[test]
fn same_values_with_default_indent_are_fine() {
    let mut m: BTreeMap<Vec<i32>, i32> = BTreeMap::new();
    m.insert(vec![1], 5);
    m.insert(vec![2], 6);
    let v = vec![m];
    let yaml = serde_saphyr::to_string(&v).unwrap();
    let back: Vec<BTreeMap<Vec<i32>, i32>> = serde_saphyr::from_str(&yaml).unwrap();
    assert_eq!(back, v);
}
