// Defect 3 (C07): the budget report callback is not invoked when a hard limit is breached
//
// Violated: the crate's own documentation (and the property's mechanism "report callbacks and
// delayed breach surfaced at the end"):
//   Options::budget_report_cb: "Invoked both when parsing is successful and when budget was
//   breached."
//   Options::with_budget_report: "The callback is invoked with the final BudgetReport after
//   parsing completes, both on success and when the budget is breached."
//   BudgetReport::breached: "Some(..) if a limit was exceeded".
//
// Minimal input: `a: 1\n` with Budget { max_nodes: 1, .. } (the document has 3 nodes).
//
// What the crate does: from_str_with_options / from_multiple_with_options / from_reader_... return
// Err(Error::Budget { breach: Nodes { nodes: 2 } }) and the callback is never called, so no
// report (and in particular no report with `breached: Some(..)`) is ever handed out. The only
// breach for which the callback fires is the post-scan AliasAnchorRatio one. With the streaming
// iterator (`read_with_options`) a breached document likewise produces no report; if the last
// document of the stream fails, `finish()` is never reached and no report is delivered at all.
//
// In the one situation where the callback does run after a hard breach (streaming iterator, breach
// on the first event of a document: `[a]` with max_depth = 0 -> `finish()` is called from the
// iterator's error arm) the report says `breached: None` although Error::Budget{Depth} was just
// returned, because `observe` hands the breach out without recording it in the report.
//
// What it should do: call the callback once with the usage counted so far and
// `breached: Some(BudgetBreach::Nodes { .. })`.
//
// Cause: src/live_events.rs `next_impl` / `observe_budget_for_replay` turn the breach returned
// by `BudgetEnforcer::observe` straight into `Err(budget_error(breach))`; the callers in
// src/lib.rs (`from_str_with_options_impl`, `from_multiple_with_options`, ...) return that error
// before reaching `src.finish()`, which is the only place where the callbacks are invoked
// (`BudgetEnforcer::into_report`, meant "to be used after a breach", is never called from there).
//
// Run: cargo test --offline --test defect_3

use serde_saphyr::budget::{Budget, BudgetBreach, BudgetReport};
use serde_saphyr::{Error, Options};
use std::cell::RefCell;
use std::rc::Rc;

fn options(sink: Rc<RefCell<Vec<BudgetReport>>>) -> Options {
    let mut options = Options::default();
    options.budget = Some(Budget {
        max_nodes: 1,
        ..Budget::default()
    });
    options.with_budget_report(move |report| sink.borrow_mut().push(report))
}

#[test]
fn callback_runs_on_success() {
    // Sanity check of the harness: on success exactly one report arrives.
    let sink = Rc::new(RefCell::new(Vec::new()));
    let cb_sink = sink.clone();
    let options = Options::default().with_budget_report(move |r| cb_sink.borrow_mut().push(r));
    let v: serde_json::Value = serde_saphyr::from_str_with_options("a: 1\n", options).unwrap();
    assert_eq!(v["a"], 1);
    assert_eq!(sink.borrow().len(), 1);
    assert_eq!(sink.borrow()[0].nodes, 3);
}

#[test]
fn callback_runs_when_a_hard_limit_is_breached() {
    let sink = Rc::new(RefCell::new(Vec::new()));
    let r: Result<serde_json::Value, _> =
        serde_saphyr::from_str_with_options("a: 1\n", options(sink.clone()));
    let err = r.expect_err("3 nodes with max_nodes = 1 must fail");
    assert!(matches!(
        err.without_snippet(),
        Error::Budget {
            breach: BudgetBreach::Nodes { .. },
            ..
        }
    ));
    let reports = sink.borrow();
    assert_eq!(
        reports.len(),
        1,
        "documentation: the callback is invoked both on success and when the budget is breached"
    );
    assert!(matches!(reports[0].breached, Some(BudgetBreach::Nodes { .. })));
}

#[test]
fn callback_runs_when_a_hard_limit_is_breached_multi_document() {
    let sink = Rc::new(RefCell::new(Vec::new()));
    let r: Result<Vec<serde_json::Value>, _> =
        serde_saphyr::from_multiple_with_options("a: 1\n---\nb: 2\n", options(sink.clone()));
    assert!(r.is_err());
    assert_eq!(sink.borrow().len(), 1, "no report delivered on breach");
}

#[test]
fn report_after_a_breach_in_the_streaming_iterator_names_the_breach() {
    let sink: Rc<RefCell<Vec<BudgetReport>>> = Rc::new(RefCell::new(Vec::new()));
    let cb_sink = sink.clone();
    let mut options = Options::default();
    options.budget = Some(Budget {
        max_depth: 0,
        ..Budget::default()
    });
    let options = options.with_budget_report(move |r| cb_sink.borrow_mut().push(r));
    let mut reader = std::io::Cursor::new(b"[a]\n".to_vec());
    let items: Vec<Result<serde_json::Value, Error>> =
        serde_saphyr::read_with_options(&mut reader, options).collect();
    assert_eq!(items.len(), 1);
    assert!(matches!(
        items[0].as_ref().unwrap_err().without_snippet(),
        Error::Budget {
            breach: BudgetBreach::Depth { .. },
            ..
        }
    ));
    let reports = sink.borrow();
    assert_eq!(reports.len(), 1);
    assert!(
        matches!(reports[0].breached, Some(BudgetBreach::Depth { .. })),
        "Error::Budget(Depth) was returned but the report says breached = {:?}",
        reports[0].breached
    );
}
