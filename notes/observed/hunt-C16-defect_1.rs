// DEFECT 1 - an error at a node *inside* an aliased collection loses the node's definition
// site: the "defined" location is overwritten with the start of the anchored collection.
//
// Property clause violated:
//   "a type error at a node is reported at the position a span-carrying value would give for
//    that node. For a value reached through an alias or a merge the use-site location is that
//    of the alias / merge entry and the definition-site location that of the anchored node,
//    and an error caused by such a value reports both."
//
// Minimal input:
//     a: &x [1, zz, 3]
//     b: *x
//   target: struct { a: Vec<String>, b: Vec<i32> }      (the failing node is `zz`, 1:11)
//
// What the crate does: Error::locations() = { reference 2:4 (`*x`), defined 1:7 (the `[`) } and
//   the message is nested: "invalid i32 at line 1, column 11 (defined at line 1, column 11) at
//   line 2, column 4".  `Spanned<String>` for the very same node gives
//   { referenced 2:4, defined 1:11 }.
// What it should do: report defined = 1:11 (the node `zz`), like Spanned does (and like it does
//   when the aliased node is the failing scalar itself).
//
// Cause: src/de.rs attach_alias_locations_if_missing(). The element level (SeqAccess /
//   MapAccess::next_value_seed inside the replayed collection) correctly builds
//   AliasError{ref=*x, defined=zz}. The enclosing level (`b:` value in the outer MapAccess)
//   calls attach_alias_locations_if_missing() again with defined_location = location of the
//   collection start; since reference != defined it *re-wraps* the existing AliasError into a
//   new one (msg = err.to_string(), i.e. the already formatted text) and replaces the
//   definition site by the container's. The same happens for mappings (`&x {k: 1, l: zz}`)
//   and for merge-derived values inside an aliased mapping.

use serde::Deserialize;
use serde_saphyr::Spanned;

#[derive(Debug, Deserialize)]
#[allow(dead_code)]
struct Typed {
    a: Vec<String>,
    b: Vec<i32>,
}

#[derive(Debug, Deserialize)]
#[allow(dead_code)]
struct Span {
    a: Vec<String>,
    b: Vec<Spanned<String>>,
}

#[test]
fn error_inside_aliased_sequence_keeps_the_nodes_definition_site() {
    let yaml = "a: &x [1, zz, 3]\nb: *x\n";

    // What a span-carrying value reports for the node `zz` reached through `*x`.
    let spanned: Span = serde_saphyr::from_str(yaml).unwrap();
    let node = &spanned.b[1];
    assert_eq!((node.referenced.line(), node.referenced.column()), (2, 4));
    assert_eq!((node.defined.line(), node.defined.column()), (1, 11));

    // The type error provoked at the same node.
    let err = serde_saphyr::from_str::<Typed>(yaml).unwrap_err();
    let locs = err.locations().expect("error must carry locations");
    assert_eq!(
        locs.reference_location, node.referenced,
        "use-site of the error differs from Spanned::referenced"
    );
    assert_eq!(
        locs.defined_location, node.defined,
        "definition site of the error ({}:{}) differs from Spanned::defined ({}:{}); error: {}",
        locs.defined_location.line(),
        locs.defined_location.column(),
        node.defined.line(),
        node.defined.column(),
        err.to_string().lines().next().unwrap_or("")
    );
}

#[test]
fn error_inside_aliased_mapping_keeps_the_nodes_definition_site() {
    use std::collections::BTreeMap;
    #[derive(Debug, Deserialize)]
    #[allow(dead_code)]
    struct T {
        a: BTreeMap<String, String>,
        b: BTreeMap<String, i32>,
    }
    let yaml = "a: &x {k: 1, l: zz}\nb: *x\n";
    let err = serde_saphyr::from_str::<T>(yaml).unwrap_err();
    let locs = err.locations().expect("error must carry locations");
    assert_eq!((locs.reference_location.line(), locs.reference_location.column()), (2, 4));
    // `zz` is at line 1, column 17
    assert_eq!(
        (locs.defined_location.line(), locs.defined_location.column()),
        (1, 17),
        "error: {}",
        err.to_string().lines().next().unwrap_or("")
    );
}
