// Defect 3 (property C10): for UTF-16 input the input-byte cap is applied to the bytes of the
// UTF-8 *transcoding*, not to the bytes of the input.  Both directions of the cap clause break.
//
// Violated clauses:
//  (A) "inputs no larger than the cap are unaffected by it":
//      a 50-byte UTF-16 document read with max_reader_input_bytes = 50 (.. 63) is rejected with
//      "input size limit of 50 bytes exceeded".
//  (B) "if ... the configured input-byte cap is exceeded at any point, reader-based
//      deserialization returns an error ... and it never pulls more than the cap plus a fixed
//      buffering allowance from the reader":
//      a 400 KB UTF-16 (ASCII-only) document read with a cap of 250 000 bytes is accepted -
//      400 KB are pulled from the reader, 150 KB more than the cap; the excess grows linearly
//      with the cap (2 x cap), it is no fixed allowance.
//
//  (C) the BOM is not counted at all: an 8-byte input (UTF-8 BOM + "a: 1\n") passes under a cap
//      of 5 bytes (3 bytes of slack only - listed for completeness, same root cause).
//
// Budget::max_reader_input_bytes is documented as "Hard cap on the size of the input in bytes ...
// to prevent resource starving by reading large malicious input".
//
// Minimal inputs:
//  (A) UTF-16BE with BOM: "a: " + 20 x U+4E2D + "\n"  = 2 + 2*24 = 50 bytes (64 bytes as UTF-8)
//  (B) UTF-16LE with BOM: "k: v\n" repeated (ASCII), 400 002 bytes (200 000 bytes as UTF-8)
//
// Cause: src/buffered_input.rs.  buffered_input_from_reader_with_limit() puts the
// encoding_rs_io transcoder (and a BufReader) between the user's reader and ChunkedChars, and
// ChunkedChars::next counts `total_bytes += needed`, the UTF-8 length of every decoded
// character ("Running count of decoded bytes").  For UTF-16 that is 1 counted byte per 2 input
// bytes for ASCII and 3 counted bytes per 2 input bytes for U+0800..U+FFFF.
//
// Run: copy to tests/ and `cargo test --offline --test defect_3`

use std::io::{self, Read};

use serde_json::Value;

fn utf16(s: &str, little_endian: bool) -> Vec<u8> {
    let mut v = if little_endian { vec![0xFF, 0xFE] } else { vec![0xFE, 0xFF] };
    for u in s.encode_utf16() {
        v.extend_from_slice(&if little_endian { u.to_le_bytes() } else { u.to_be_bytes() });
    }
    v
}

fn capped(cap: usize) -> serde_saphyr::Options {
    serde_saphyr::options! {
        budget: serde_saphyr::budget! { max_reader_input_bytes: Some(cap) },
    }
}

struct Counting<'a> {
    data: &'a [u8],
    pos: usize,
    pulled: usize,
}

impl Read for Counting<'_> {
    fn read(&mut self, buf: &mut [u8]) -> io::Result<usize> {
        let n = buf.len().min(self.data.len() - self.pos);
        buf[..n].copy_from_slice(&self.data[self.pos..self.pos + n]);
        self.pos += n;
        self.pulled += n;
        Ok(n)
    }
}

#[test]
fn input_not_larger_than_the_cap_is_unaffected() {
    let text = format!("a: {}\n", "\u{4e2d}".repeat(20));
    let input = utf16(&text, false);
    assert_eq!(input.len(), 50);

    // without a cap the document is fine
    let v: Value = serde_saphyr::from_reader_with_options(
        &input[..],
        serde_saphyr::options! { budget: serde_saphyr::budget! { max_reader_input_bytes: None } },
    )
    .unwrap();
    assert_eq!(v["a"], "\u{4e2d}".repeat(20));

    for cap in [input.len(), input.len() + 1, input.len() + 10] {
        let r: Result<Value, _> = serde_saphyr::from_reader_with_options(&input[..], capped(cap));
        assert!(
            r.is_ok(),
            "input of {} bytes, cap {cap}: the cap must not affect it, got {:?}",
            input.len(),
            r.map_err(|e| e.to_string())
        );
        let mut rd = &input[..];
        let items: Vec<Result<Value, serde_saphyr::Error>> =
            serde_saphyr::read_with_options(&mut rd, capped(cap)).collect();
        assert!(
            items.len() == 1 && items[0].is_ok(),
            "iterator: input of {} bytes, cap {cap}: the cap must not affect it, got {items:?}",
            input.len()
        );
    }
}

#[test]
fn input_larger_than_the_cap_is_rejected_and_not_pulled() {
    let text = "k: v\n".repeat(40_000); // 200 000 characters, all ASCII
    let input = utf16(&text, true);
    assert_eq!(input.len(), 400_002);
    let cap = 250_000;
    // generous fixed allowance: BufReader 8 KiB + transcoder 8 KiB + snippet read-ahead 1 KiB
    let allowance = 64 * 1024;

    let mut reader = Counting { data: &input, pos: 0, pulled: 0 };
    let r: Result<Value, _> = serde_saphyr::from_reader_with_options(
        &mut reader,
        serde_saphyr::options! {
            budget: serde_saphyr::budget! {
                max_reader_input_bytes: Some(cap),
            },
            duplicate_keys: serde_saphyr::DuplicateKeyPolicy::LastWins,
        },
    );
    assert!(
        reader.pulled <= cap + allowance,
        "cap {cap}: {} bytes were pulled from the reader",
        reader.pulled
    );
    assert!(
        r.is_err(),
        "an input of {} bytes was accepted under max_reader_input_bytes = {cap}",
        input.len()
    );
}

// (C) Same root cause, smallest instance: the byte-order mark is stripped before the bytes are
// counted, so an 8-byte UTF-8 input (BOM + "a: 1\n") passes under a cap of 5 bytes.
#[test]
fn bom_bytes_are_input_bytes() {
    let input = b"\xEF\xBB\xBFa: 1\n";
    assert_eq!(input.len(), 8);
    let r: Result<Value, _> = serde_saphyr::from_reader_with_options(&input[..], capped(5));
    assert!(
        r.is_err(),
        "an input of 8 bytes was accepted under max_reader_input_bytes = 5: {r:?}"
    );
}
