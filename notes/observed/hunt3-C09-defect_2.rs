// C09 defect 2: the validating reader entry points (from_reader_valid / from_reader_validate and
// their _with_options forms) validate the first document BEFORE they look at what follows it; the
// validating in-memory entry points (from_str_valid / from_slice_valid / from_str_validate ...)
// validate AFTER that look. For an input whose first document fails validation and which also
// has a second document (or a syntax error after the first document) the two families return
// errors of different kinds at different places.
//
// NEEDS FEATURES: cargo test --offline --features garde,validator,miette,robotics --test defect_2
//
// Violated clause: "For the same UTF-8 text, options and owned target type, from_str, from_slice,
// ... and from_reader ... return the same value, or an error of the same kind at the same line
// and column" ("All entry points agree: str, slice, reader").
//
// Minimal input:  "name: a\n---\nname: abc\n"   with   #[garde(length(min = 2))] name: String
//
// What the crate does:
//   from_str_valid / from_slice_valid   -> Error::MultipleDocuments at line 3, column 1
//   from_reader_valid                   -> Error::ValidationError (for `name`, line 1)
//   (same with the `validator` feature: from_str_validate -> MultipleDocuments,
//    from_reader_validate -> ValidatorError; and with a syntax error instead of a second
//    document, "name: a\n---\n]": from_str_valid -> parser error at 3:1, from_reader_valid ->
//    ValidationError.)
// What it should do: one order in both families (the plain entry points, from_str and
// from_reader, both report MultipleDocuments / the syntax error for this input).
//
// Cause: src/lib.rs
//   from_str_with_options_valid / from_str_with_options_validate call
//   from_str_with_options_and_path_recorder (deserialize, `src.peek()` for a further document or
//   a scan error, `src.finish()`) and only then `Validate::validate`;
//   from_reader_with_options_valid / from_reader_with_options_validate call
//   `Validate::validate(&value)` and return its error right after `T::deserialize`, before their
//   own `src.peek()` / `src.finish()`. (A side effect of the early return: the budget report
//   callback of Options is never invoked on that path.)

use serde::Deserialize;

#[derive(Debug, Deserialize, garde::Validate)]
struct G {
    #[garde(length(min = 2))]
    name: String,
}

#[derive(Debug, Deserialize, validator::Validate)]
struct V {
    #[validate(length(min = 2))]
    name: String,
}

fn describe<T: std::fmt::Debug>(r: Result<T, serde_saphyr::Error>) -> String {
    match r {
        Ok(v) => format!("Ok({v:?})"),
        Err(e) => {
            let e = e.without_snippet();
            let kind = format!("{e:?}");
            let kind = kind
                .split(|c: char| !c.is_alphanumeric())
                .next()
                .unwrap_or("")
                .to_string();
            format!(
                "Err({kind} at {:?})",
                e.location().map(|l| (l.line(), l.column()))
            )
        }
    }
}

const TWO_DOCS: &str = "name: a\n---\nname: abc\n";
const TRAILING_SYNTAX_ERROR: &str = "name: a\n---\n]";

#[test]
fn garde_second_document_after_an_invalid_first_one() {
    let s = describe(serde_saphyr::from_str_valid::<G>(TWO_DOCS));
    let sl = describe(serde_saphyr::from_slice_valid::<G>(TWO_DOCS.as_bytes()));
    let r = describe(serde_saphyr::from_reader_valid::<_, G>(TWO_DOCS.as_bytes()));
    assert_eq!(s, sl);
    assert_eq!(s, r, "from_str_valid vs from_reader_valid on {TWO_DOCS:?}");
}

#[test]
fn garde_syntax_error_after_an_invalid_first_document() {
    let s = describe(serde_saphyr::from_str_valid::<G>(TRAILING_SYNTAX_ERROR));
    let r = describe(serde_saphyr::from_reader_valid::<_, G>(
        TRAILING_SYNTAX_ERROR.as_bytes(),
    ));
    assert_eq!(s, r, "from_str_valid vs from_reader_valid on {TRAILING_SYNTAX_ERROR:?}");
}

#[test]
fn validator_second_document_after_an_invalid_first_one() {
    let s = describe(serde_saphyr::from_str_validate::<V>(TWO_DOCS));
    let r = describe(serde_saphyr::from_reader_validate::<_, V>(TWO_DOCS.as_bytes()));
    assert_eq!(s, r, "from_str_validate vs from_reader_validate on {TWO_DOCS:?}");
}

// Control: without validation the two families agree on these inputs.
#[test]
fn control_plain_entry_points_agree() {
    #[derive(Debug, Deserialize)]
    #[allow(dead_code)]
    struct P {
        name: String,
    }
    for doc in [TWO_DOCS, TRAILING_SYNTAX_ERROR] {
        let s = describe(serde_saphyr::from_str::<P>(doc));
        let r = describe(serde_saphyr::from_reader::<_, P>(doc.as_bytes()));
        assert_eq!(s, r, "{doc:?}");
    }
}
