// Defect 1 (property C10): UTF-16 input that ends inside a multi-byte character is accepted;
// the truncated character is turned into U+FFFD and a value is built from the truncated prefix.
//
// Violated clause: "If the underlying reader ... ends inside a multi-byte character ...,
// reader-based deserialization returns an error - never a value built from the truncated
// prefix" (error kinds quantified over: "early EOF inside a code point"; both the
// single-document and the iterator entry points).
//
// Minimal input: the UTF-16LE text  FF FE | 'a' 00 | ':' 00 | ' ' 00 | 'h' 00 | 'i' 00 | 21
// i.e. a BOM, "a: hi" and then ONE byte of the next two-byte code unit (the stream was cut
// in the middle of a UTF-16 code unit).  Second input: the same text cut between the two
// surrogates of U+1F600 (high surrogate present, low surrogate missing).
//
// What the crate does: from_reader / read / with_deserializer_from_reader return
//     Ok({"a": "hi\u{FFFD}"})
// What it should do: return an error, exactly as it does for UTF-8 input that ends inside a
// code point ("unexpected EOF in middle of UTF-8 codepoint").  (The earlier fix made the
// UTF-8 path strict with `utf8_passthru(true)`; the UTF-16 path is still lossy.)
//
// Cause: src/buffered_input.rs, buffered_input_from_reader_with_limit(): the reader is wrapped
// in encoding_rs_io::DecodeReaderBytes, which transcodes BOM-detected UTF-16 to UTF-8 *lossily*:
// at EOF it flushes the decoder with last=true and an incomplete code unit / unpaired
// surrogate becomes U+FFFD instead of an error.  ChunkedChars::next only validates the already
// transcoded UTF-8, so nothing is stored in the shared error cell and LiveEvents::finish()
// has nothing to report.
//
// Run: copy to tests/ and `cargo test --offline --test defect_1`

use serde_json::Value;

fn utf16le(s: &str) -> Vec<u8> {
    let mut v = vec![0xFF, 0xFE];
    for u in s.encode_utf16() {
        v.extend_from_slice(&u.to_le_bytes());
    }
    v
}

fn utf16be(s: &str) -> Vec<u8> {
    let mut v = vec![0xFE, 0xFF];
    for u in s.encode_utf16() {
        v.extend_from_slice(&u.to_be_bytes());
    }
    v
}

/// Inputs that end inside a character: (description, bytes).
fn truncated_inputs() -> Vec<(&'static str, Vec<u8>)> {
    let mut v = Vec::new();

    // "a: hi!" cut after the first byte of the code unit of '!'
    let full = utf16le("a: hi!");
    v.push(("utf-16le, odd number of bytes", full[..full.len() - 1].to_vec()));

    let full = utf16be("a: hi!");
    v.push(("utf-16be, odd number of bytes", full[..full.len() - 1].to_vec()));

    // "a: hi\u{1F600}" cut between the high and the low surrogate
    let full = utf16le("a: hi\u{1F600}");
    v.push(("utf-16le, cut between surrogates", full[..full.len() - 2].to_vec()));

    // ... and inside the low surrogate
    let full = utf16le("a: hi\u{1F600}");
    v.push(("utf-16le, cut inside the low surrogate", full[..full.len() - 1].to_vec()));

    v
}

#[test]
fn sanity_complete_utf16_is_read() {
    let v: Value = serde_saphyr::from_reader(&utf16le("a: hi\u{1F600}")[..]).unwrap();
    assert_eq!(v["a"], "hi\u{1F600}");
    // and the UTF-8 counterpart of the fault is an error already
    let utf8 = "a: hi\u{1F600}".as_bytes();
    let r: Result<Value, _> = serde_saphyr::from_reader(&utf8[..utf8.len() - 1]);
    assert!(r.is_err());
}

#[test]
fn from_reader_rejects_utf16_that_ends_inside_a_character() {
    for (what, bytes) in truncated_inputs() {
        let r: Result<Value, _> = serde_saphyr::from_reader(&bytes[..]);
        assert!(
            r.is_err(),
            "{what}: input ends inside a character but from_reader returned {r:?}"
        );
    }
}

#[test]
fn read_iterator_rejects_utf16_that_ends_inside_a_character() {
    for (what, bytes) in truncated_inputs() {
        let mut rd = &bytes[..];
        let items: Vec<Result<Value, serde_saphyr::Error>> = serde_saphyr::read(&mut rd).collect();
        assert!(
            items.iter().any(|r| r.is_err()),
            "{what}: input ends inside a character but the iterator yielded only {items:?}"
        );
    }
}

#[test]
fn with_deserializer_rejects_utf16_that_ends_inside_a_character() {
    use serde::Deserialize;
    for (what, bytes) in truncated_inputs() {
        let r: Result<Value, _> =
            serde_saphyr::with_deserializer_from_reader(&bytes[..], |de| Value::deserialize(de));
        assert!(
            r.is_err(),
            "{what}: input ends inside a character but with_deserializer_from_reader returned {r:?}"
        );
    }
}
