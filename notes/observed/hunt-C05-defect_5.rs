// DEFECT 5 (property C05): a `!!binary` scalar whose base64 text happens to spell `null`
// (any letter case) is read as an EMPTY sequence instead of its three payload bytes.
//
// Violated clause: "deserialization either fails or returns the value in which every Rust
// position is filled from the YAML node at the corresponding position ... option/null handling
// ... honoured."
//
// Minimal input:   !!binary null        target: Vec<u8>
//                  (base64 `null` = bytes 0x9E 0xE9 0x65; `NULL` = 0x35 0x42 0xCB; `nulL` = 0x9E 0xE9 0x4B)
//
// What the crate does: returns Ok([]) for all of `!!binary null`, `!!binary NULL`,
// `!!binary nulL`; Option<Vec<u8>> gives Some([]) (deserialize_option already knows that a
// `!!binary` scalar "is a payload, never a null: the base64 text of some byte strings spells
// `null`", but the sequence reader behind it does not). Into (u8, u8, u8) the same document fails
// with "invalid length 0".
//
// What it should do: decode the payload: [158, 233, 101] (as it does for every other base64 text,
// e.g. `!!binary nulm` -> [158, 233, 102]).
//
// Cause: src/de.rs deserialize_seq(): the check
//   `if tag == &SfTag::Null || scalar_is_nullish(s, style) { ... return visitor.visit_seq(EmptySeq) }`
// runs BEFORE the `if tag == &SfTag::Binary` branch and does not look at the tag.
//
// Run: cargo test --offline --test defect_5      (no optional features needed)

#[test]
fn control_neighbouring_base64_text_is_decoded() {
    assert_eq!(serde_saphyr::from_str::<Vec<u8>>("!!binary nulm").unwrap(), vec![158, 233, 102]);
}

#[test]
fn binary_payload_spelling_null() {
    let r = serde_saphyr::from_str::<Vec<u8>>("!!binary null").unwrap();
    assert_eq!(r, vec![0x9E, 0xE9, 0x65], "`!!binary null` into Vec<u8>");
}

#[test]
fn binary_payload_spelling_null_in_other_case() {
    let r = serde_saphyr::from_str::<Vec<u8>>("!!binary NULL").unwrap();
    assert_eq!(r, vec![0x35, 0x42, 0xCB], "`!!binary NULL` into Vec<u8>");
}

#[test]
fn binary_payload_spelling_null_into_tuple_and_option() {
    let r = serde_saphyr::from_str::<(u8, u8, u8)>("!!binary null")
        .map_err(|e| e.to_string().lines().next().unwrap_or("").to_string());
    assert_eq!(r, Ok((0x9E, 0xE9, 0x65)), "`!!binary null` into (u8, u8, u8)");

    let r = serde_saphyr::from_str::<Option<Vec<u8>>>("!!binary null").unwrap();
    assert_eq!(r, Some(vec![0x9E, 0xE9, 0x65]), "`!!binary null` into Option<Vec<u8>>");
}
