// C07 defect 2: replaying an alias to an anchored EMPTY node is charged one scalar byte that
// the input does not contain (false rejection on `max_total_scalar_bytes`, inaccurate
// `BudgetReport::total_scalar_bytes`).
//
// Violated clauses:
//   "never rejects an input all of whose quantities are within the limits"
//   "the usage report handed to the callback equals an independent count of the parser's event
//    stream plus replayed events"
//   (and the crate's own documentation: `max_total_scalar_bytes` / `total_scalar_bytes` are the
//    "sum of `Scalar.value.len()`").
//
// Minimal input: "- &x\n- *x\n" with `max_total_scalar_bytes: 0`.
//
// What the crate does: the parser reports the anchored omitted node as `Scalar("", Plain, id)`
// (0 bytes - `check_yaml_budget` agrees: total_scalar_bytes = 0). `LiveEvents` rewrites the value
// of that event to "~" before recording it for the anchor, and the replay of `*x` feeds the
// rewritten text to the budget: 1 byte. The document, whose scalars are all empty, is rejected
// with `Budget { breach: ScalarBytes { total_scalar_bytes: 1 } }`; with an unlimited budget the
// report says total_scalar_bytes = 1 per alias. The equivalent `- &x ''\n- *x\n` costs 0 bytes.
//
// What it should do: the replayed event is the same scalar the parser produced (0 bytes); the
// document must be accepted with max_total_scalar_bytes = 0 and reported with 0 bytes.
//
// Cause: src/live_events.rs `next_impl`, `Event::Scalar` arm: `val` is replaced by
// `Cow::Borrowed("~")` for an empty plain untagged scalar AFTER `budget.observe(&raw)` saw the
// raw (empty) value; the rewritten `Ev` is what gets stored in `self.anchors[..]` / the recording
// frames, and `observe_budget_for_replay` counts `value.len()` of that rewritten event.

use serde_saphyr::budget::{Budget, BudgetReport, EnforcingPolicy, check_yaml_budget};
use serde_saphyr::Options;
use std::cell::RefCell;
use std::rc::Rc;

fn budget(max_total_scalar_bytes: usize) -> Budget {
    Budget {
        max_total_scalar_bytes,
        enforce_alias_anchor_ratio: false,
        ..Budget::default()
    }
}

const YAML: &str = "- &x\n- *x\n";

#[test]
fn all_scalars_are_empty_so_zero_bytes_are_enough() {
    // The parser's own view of the document: two nodes of which one is an alias, no scalar text.
    let raw = check_yaml_budget(YAML, budget(usize::MAX), EnforcingPolicy::AllContent).unwrap();
    assert_eq!(raw.total_scalar_bytes, 0);

    let mut options = Options::default();
    options.budget = Some(budget(0));
    let res: Result<Vec<Option<String>>, _> = serde_saphyr::from_str_with_options(YAML, options);
    match res {
        Ok(v) => assert_eq!(v, vec![None, None]),
        Err(e) => panic!("document without any scalar text rejected: {:?}", e.without_snippet()),
    }
}

#[test]
fn report_counts_only_bytes_that_exist() {
    let seen: Rc<RefCell<Option<BudgetReport>>> = Rc::new(RefCell::new(None));
    let sink = seen.clone();
    let mut options = Options::default();
    options.budget = Some(budget(usize::MAX));
    let options = options.with_budget_report(move |r| *sink.borrow_mut() = Some(r));
    let v: Vec<Option<String>> = serde_saphyr::from_str_with_options(YAML, options).unwrap();
    assert_eq!(v, vec![None, None]);
    let report = seen.borrow().clone().expect("report delivered");
    // raw events: Scalar("") ; replayed event: the same Scalar("")
    assert_eq!(report.total_scalar_bytes, 0, "{report:?}");
}
