// DEFECT 5 (property C13): a mapping whose string key is longer than 1024 characters is emitted
// as an implicit ("simple") key; YAML limits implicit keys to 1024 characters, so the emitted
// text is not a well-formed document and the crate's own reader rejects it.
//
// Violated clause: "... maps with string, non-string and composite keys ... the emitted text is a
// single well-formed YAML document that deserializes back into an equal value of the same type."
//
// Minimal input (default options):  BTreeMap<String, i32> { "k" * 1025 : 1 }
// The crate emits   kkkk...kkkk: 1   (one line, 1025 k's before the colon)
// and from_str fails with "unexpected event: expected mapping start" (the scanner gives up the
// simple-key candidate after 1024 characters, the document is then a plain scalar followed by
// garbage).  A key of 1023 characters round-trips.  Quoted keys ("k k k ...") fail the same way
// from 1024 characters on, also inside a sequence item.
// Expected: the explicit form for such keys:  "? kkkk...kkkk\n: 1\n"  (which the reader accepts).
//
// Cause: src/ser.rs MapSer::serialize_key - every key that scalar_key_to_string can render is
// written as "text:" regardless of its length; the explicit "? " form is only used for
// non-scalar keys.

use std::collections::BTreeMap;

fn roundtrip(key: String) {
    let mut m: BTreeMap<String, i32> = BTreeMap::new();
    m.insert(key, 1);
    let yaml = serde_saphyr::to_string(&m).unwrap();
    let back: BTreeMap<String, i32> = serde_saphyr::from_str(&yaml).unwrap_or_else(|e| {
        panic!(
            "emitted text does not parse back: {}",
            e.to_string().lines().next().unwrap_or("")
        )
    });
    assert_eq!(back, m);
}

#[test]
fn key_of_1023_chars_is_fine() {
    roundtrip("k".repeat(1023));
}

#[test]
fn key_of_1025_chars() {
    roundtrip("k".repeat(1025));
}

#[test]
fn quoted_key_of_1100_chars() {
    roundtrip("k ".repeat(550));
}

#[test]
fn explicit_form_is_understood_by_the_reader() {
    // shows that a well-formed alternative exists and reads back
    let key = "k".repeat(1025);
    let yaml = format!("? {key}\n: 1\n");
    let back: BTreeMap<String, i32> = serde_saphyr::from_str(&yaml).unwrap();
    assert_eq!(back.get(&key), Some(&1));
}
