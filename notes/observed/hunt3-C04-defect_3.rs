// C04 defect 3: an EMPTY key with a string tag (`? !!str`, the empty string) is fingerprinted as
// the text "~": it collides with the different key `!!str ~` (the one-character string "~") and
// is no longer recognised as a repetition of the same key written `!!str ""`
//
// Violated clauses:
//  (a) "Mappings without repeated keys deserialize identically under all three policies."
//  (b) "When the same key node (same structure, scalar text and tag ...) occurs more than once ...
//      the Error policy fails with a duplicate-key error located at the repeated key, FirstWins
//      gives the result of the document with every later entry ... deleted".
//
// Minimal inputs:
//  (a)   ? !!str          <- key: the string ""   (the crate itself delivers "" for it)
//        : 1
//        !!str ~: 2       <- key: the string "~"  (the crate itself delivers "~" for it)
//      crate: Error -> "duplicate mapping key: ~" at line 3; FirstWins -> {"": 1};
//             LastWins -> {"": 1, "~": 2}.   Should be {"": 1, "~": 2} under all three policies.
//
//  (b)   ? !!str          <- key: the string ""
//        : 1
//        ? !!str ""       <- key: the string "" again (same tag, same text)
//        : 2
//      crate: Error -> Ok({"": 2}) (silently overwritten); FirstWins -> {"": 2}.
//      Should be: Error -> duplicate-key error at line 3; FirstWins -> {"": 1}.
//
// Cause: src/de.rs `KeyNode::fingerprint` replaces the value of EVERY empty plain scalar by "~"
// ("The parser reports an omitted node as the plain scalar `~`, but as an empty plain scalar when
// it carries an anchor") without looking at the tag. That is right for an untagged omitted node
// (null), but an empty plain scalar that carries `!!str` / `!` is the empty string, not null: its
// text is "" and must stay distinct from "~" and equal to a quoted "".
//
// Run: cargo test --offline --test defect_3

use serde_saphyr::options::DuplicateKeyPolicy;
use std::collections::BTreeMap;

fn parse(yaml: &str, policy: DuplicateKeyPolicy) -> Result<BTreeMap<String, i32>, serde_saphyr::Error> {
    let opts = serde_saphyr::options! { duplicate_keys: policy, };
    serde_saphyr::from_str_with_options(yaml, opts)
}

fn map(pairs: &[(&str, i32)]) -> BTreeMap<String, i32> {
    pairs.iter().map(|(k, v)| ((*k).to_owned(), *v)).collect()
}

const POLICIES: [DuplicateKeyPolicy; 3] = [
    DuplicateKeyPolicy::Error,
    DuplicateKeyPolicy::FirstWins,
    DuplicateKeyPolicy::LastWins,
];

#[test]
fn control_each_key_alone_is_a_different_string() {
    for p in POLICIES {
        assert_eq!(parse("? !!str\n: 1\n", p).unwrap(), map(&[("", 1)]), "{p:?}");
        assert_eq!(parse("!!str ~: 2\n", p).unwrap(), map(&[("~", 2)]), "{p:?}");
        assert_eq!(parse("? !!str \"\"\n: 2\n", p).unwrap(), map(&[("", 2)]), "{p:?}");
    }
}

#[test]
fn empty_string_key_and_tilde_string_key_are_not_duplicates() {
    let yaml = "? !!str\n: 1\n!!str ~: 2\n";
    for p in POLICIES {
        let got = parse(yaml, p)
            .unwrap_or_else(|e| panic!("{p:?}: the keys \"\" and \"~\" differ, yet: {e}"));
        assert_eq!(got, map(&[("", 1), ("~", 2)]), "{p:?}");
    }
}

#[test]
fn empty_string_key_repeated_as_quoted_empty_string_error_policy() {
    let yaml = "? !!str\n: 1\n? !!str \"\"\n: 2\n";
    match parse(yaml, DuplicateKeyPolicy::Error) {
        Ok(v) => panic!("Error policy accepted the repeated key `!!str \"\"` and produced {v:?}"),
        Err(e) => {
            assert!(e.to_string().contains("duplicate mapping key"), "{e}");
            assert_eq!(e.location().expect("location").line(), 3);
        }
    }
}

#[test]
fn empty_string_key_repeated_as_quoted_empty_string_first_wins() {
    let yaml = "? !!str\n: 1\n? !!str \"\"\n: 2\n";
    assert_eq!(parse(yaml, DuplicateKeyPolicy::FirstWins).unwrap(), map(&[("", 1)]));
}
