// C19 defect 2: unit functions ignore the unit their argument already carries: nested deg()/rad()
// convert twice or silently reinterpret a radian / time quantity as degrees.
// Needs: cargo test --offline --features robotics --test defect_2
//
// Violated clause: "degree quantities converted to radians exactly once and mixed units rejected".
//
// Minimal inputs (angle_conversions on, target f64):
//   deg(deg(180))          -> crate: 0.05483113556160755  (180 * DEG2RAD * DEG2RAD: converted TWICE)
//   deg(rad(1))            -> crate: 0.017453292519943295 (1 radian re-read as 1 degree)
//   !!timestamp deg(1:30)  -> crate: 94.2477796076938     (5400 SECONDS multiplied by DEG2RAD)
// What it should do: the argument of deg()/rad() that is itself unitized (deg(..), rad(..), or a
//   sexagesimal forced to time by the timestamp tag) is a unit mix; it has to be rejected (like
//   `!degrees deg(90) + 90` is) or at least not converted a second time: deg(deg(180)) = pi,
//   deg(rad(1)) = 1.
// Cause: src/robotics.rs Parser::parse_ident_or_special:
//       let (v, _used_inner, _plain_inner) = r?;
//   the `used_unit` flag of the inner expression is discarded, and deg() multiplies by DEG2RAD
//   unconditionally. (The TimeStamp branch of try_parse_sexagesimal returns seconds with
//   used_unit = true, which is dropped the same way.)

use serde_saphyr::{from_str_with_options, Options};

fn on() -> Options {
    serde_saphyr::options! { angle_conversions: true }
}

fn eval(y: &str) -> Result<f64, String> {
    from_str_with_options::<f64>(y, on()).map_err(|e| e.to_string())
}

#[test]
fn degrees_are_converted_exactly_once() {
    // sanity: one level converts once
    assert_eq!(eval("deg(180)").unwrap(), core::f64::consts::PI);
    match eval("deg(deg(180))") {
        Err(_) => {}
        Ok(v) => assert_eq!(
            v,
            core::f64::consts::PI,
            "deg(deg(180)) converted degrees to radians twice: {v}"
        ),
    }
}

#[test]
fn radians_are_not_reinterpreted_as_degrees() {
    assert_eq!(eval("rad(1)").unwrap(), 1.0);
    match eval("deg(rad(1))") {
        Err(_) => {}
        Ok(v) => assert_eq!(v, 1.0, "deg(rad(1)) treated one radian as one degree: {v}"),
    }
}

#[test]
fn seconds_are_not_reinterpreted_as_degrees() {
    // Under the timestamp tag the sexagesimal is forced to time: 1:30 = 5400 s.
    assert_eq!(eval("!!timestamp 1:30").unwrap(), 5400.0);
    let as_angle = 1.5f64 * (core::f64::consts::PI / 180.0);
    match eval("!!timestamp deg(1:30)") {
        Err(_) => {}
        Ok(v) => assert!(
            v == as_angle || v == 5400.0,
            "`!!timestamp deg(1:30)` converted 5400 seconds as if they were degrees: {v}"
        ),
    }
}
