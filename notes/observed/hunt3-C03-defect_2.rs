// Defect 2 (C03): a mapping whose entries arrive through a merge key is not expanded when the
// target is an externally tagged enum (`{Variant: payload}` form): the `<<` key itself is taken
// for the variant name.
//
// Violated clause: "A mapping that contains merge keys (an untagged plain `<<`) deserializes
// exactly like the mapping written out in full ... a quoted or tagged `<<` is an ordinary key"
// (hence an untagged plain `<<` is never an ordinary key - here it is handed to Serde as the
// variant identifier).
// NOTE: the property's sampling clause lists "map, struct and untyped targets"; the statement
// itself is unconditional. The enum is reached here as the value of a struct field.
//
// Minimal input:
//     defaults: &d
//       Circle: {r: 1}
//     shape:
//       <<: *d
// Written in full: `shape: {Circle: {r: 1}}` -> Ok(Shape::Circle { r: 1 })
// The crate:       Err("unknown variant `<<`, expected `Circle` or `Square`")
// Also:            `shape: {Circle: {r: 1}, <<: ~}` (written in full: `{Circle: {r: 1}}`) ->
//                  Err("expected end of mapping after enum variant value")
// Expected:        the same value as for the written-out mapping.
//
// Cause: src/de.rs, `YamlDeserializer::deserialize_enum`, arm `Some(Ev::MapStart { .. })`: it
// reads the first raw key scalar of the mapping as `Mode::Map(variant, ..)` and
// `VA::expect_map_end` requires the raw `MapEnd` right after the payload. Neither uses the
// merge expansion (`is_merge_key` / `pending_entries_from_live_events`) that `deserialize_map`
// applies to every other mapping.
//
// Run: cargo test --offline --test defect_2   (no optional features needed)

use serde::Deserialize;

#[derive(Debug, Deserialize, PartialEq)]
enum Shape {
    Circle { r: i32 },
    Square(i32),
}

#[derive(Debug, Deserialize, PartialEq)]
struct Doc {
    #[serde(default)]
    defaults: Option<serde_json::Value>,
    shape: Shape,
}

#[test]
fn enum_mapping_given_through_merge_key() {
    let full = "shape:\n  Circle: {r: 1}\n";
    let expected: Doc = serde_saphyr::from_str(full).expect("written-out mapping");
    assert_eq!(expected.shape, Shape::Circle { r: 1 });

    let merged = "defaults: &d\n  Circle: {r: 1}\nshape:\n  <<: *d\n";
    let got: Result<Doc, _> = serde_saphyr::from_str(merged);
    match got {
        Ok(doc) => assert_eq!(doc.shape, expected.shape),
        Err(e) => panic!("`shape: {{<<: *d}}` must equal `shape: {{Circle: {{r: 1}}}}`: {e}"),
    }
}

#[test]
fn enum_mapping_with_additional_empty_merge() {
    let full = "shape: {Square: 2}\n";
    let expected: Doc = serde_saphyr::from_str(full).expect("written-out mapping");

    // `<<: ~` contributes nothing: the mapping written out in full is `{Square: 2}`.
    let merged = "shape: {Square: 2, <<: ~}\n";
    let got: Result<Doc, _> = serde_saphyr::from_str(merged);
    match got {
        Ok(doc) => assert_eq!(doc.shape, expected.shape),
        Err(e) => panic!("`{{Square: 2, <<: ~}}` must equal `{{Square: 2}}`: {e}"),
    }
}
