// C09 defect 1: a directive line that ends at the end of the input makes every reader entry
// point spin forever (and allocate without bound); the in-memory entry points return an error.
//
// Violated clause: "For the same UTF-8 text, options and owned target type, from_str, from_slice,
// the closure-based deserializer helpers and from_reader - under every partition of the bytes into
// read calls ... - return the same value, or an error of the same kind at the same line and
// column".
//
// Minimal input: the single byte `%` (also `%YAML`, `%FOO bar`, `a: b\n%x` - any input whose last
// line is a `%` directive whose name / last parameter is not followed by a blank or a line break).
//
// What the crate does:
//   from_str / from_slice / with_deserializer_from_str -> Err, e.g. for "%YAML":
//       "while scanning a YAML directive, did not find expected version number" at 1:1,
//       for "a: b\n%x": "missing explicit document end marker before directive" at 2:1.
//   from_reader / with_deserializer_from_reader / read  -> never return. The call polls the
//       exhausted reader again and again and grows a String by one NUL per poll (the process was
//       seen at 11 GB after a few minutes).
// What it should do: return the same error as from_str.
//
// Cause: saphyr-parser `Input::fetch_while_is_yaml_non_space` (default method, the one the
// streaming `BufferedInput` uses; called from `Scanner::scan_directive_name` and for the parameters
// of a reserved directive in `Scanner::scan_directive`) loops `while is_yaml_non_space(look_ch())`.
// At end of input `BufferedInput::lookahead` pads with '\0' (src/buffered_input.rs
// `ChunkedChars::next` returns `None`), and `is_yaml_non_space('\0')` is true, so the loop pushes
// NULs forever. `StrInput` overrides the method with a `chars().take_while(..)` over the real text
// and stops at the end. On the serde-saphyr side the reader path is
// src/live_events.rs `LiveEvents::from_reader` -> src/buffered_input.rs
// `buffered_input_from_reader_with_limit`.
//
// Run: cargo test --offline --test defect_1
//
// The reader below panics once it has been polled 10_000 times after it reported end of input,
// so the test fails quickly instead of hanging.

use std::io::Read;

struct Guarded {
    data: &'static [u8],
    pos: usize,
    chunk: usize,
    polls_after_eof: usize,
}

impl Read for Guarded {
    fn read(&mut self, buf: &mut [u8]) -> std::io::Result<usize> {
        let n = self.chunk.min(buf.len()).min(self.data.len() - self.pos);
        if n == 0 && !buf.is_empty() {
            self.polls_after_eof += 1;
            assert!(
                self.polls_after_eof < 10_000,
                "the reader entry point keeps polling an exhausted reader: it does not terminate \
                 on input {:?}",
                std::str::from_utf8(self.data).unwrap()
            );
        }
        buf[..n].copy_from_slice(&self.data[self.pos..self.pos + n]);
        self.pos += n;
        Ok(n)
    }
}

fn describe<T: std::fmt::Debug>(r: Result<T, serde_saphyr::Error>) -> String {
    match r {
        Ok(v) => format!("Ok({v:?})"),
        Err(e) => {
            let e = e.without_snippet();
            format!(
                "Err({:?} at {:?})",
                std::mem::discriminant(e),
                e.location().map(|l| (l.line(), l.column()))
            )
        }
    }
}

fn check(doc: &'static str) {
    let from_str = describe(serde_saphyr::from_str::<serde_json::Value>(doc));
    for chunk in [1usize, 4096] {
        let from_reader = describe(serde_saphyr::from_reader::<_, serde_json::Value>(Guarded {
            data: doc.as_bytes(),
            pos: 0,
            chunk,
            polls_after_eof: 0,
        }));
        assert_eq!(
            from_str, from_reader,
            "from_str and from_reader (chunk size {chunk}) disagree on {doc:?}"
        );
    }
}

#[test]
fn lone_percent_sign() {
    check("%");
}

#[test]
fn yaml_directive_without_version_at_end_of_input() {
    check("%YAML");
}

#[test]
fn reserved_directive_parameter_at_end_of_input() {
    check("%FOO bar");
}

#[test]
fn directive_after_a_document_without_final_line_break() {
    check("a: b\n%x");
}
