// C20 defect 4: any `indent_step` other than 2 changes the data of a mapping whose KEY is a block
// sequence (complex key, `? - a`).
//
// Violated clause: "all serializer options affect only the layout of the emitted document: it
// deserializes to the same data as without them".
//
// Minimal input: BTreeMap<Vec<String>, i32> { ["a", "c"]: 1 }.
// Default options (indent_step 2) emit
//     ? - a
//       - c
//     : 1
// which reads back as {["a", "c"]: 1}. With `ser_options! { indent_step: 4 }` the crate emits
//     ? - a
//         - c
//     : 1
// The first item starts two columns after the `?`, the following items are indented by
// indent_step, so `- c` is a continuation line of the plain scalar `a`: the document reads back as
// {["a - c"]: 1}. With block scalar items (multi-line strings) the document is rejected
// ("did not find expected '-' indicator").
//
// Expected: all items of the key sequence in one column (column 2).
//
// Cause: src/ser.rs, MapSer::serialize_key, complex-key branch: it writes "? " (two columns),
// sets `pending_inline_map = true` and `self.ser.depth = self.depth`, so SeqSer::serialize_element
// writes the first dash inline, but every later item with `write_indent(self.depth)` of a sequence
// whose depth was computed as `base + 1` levels of `indent_step` columns.
//
// Run: cargo test --offline --test defect_4

use serde_saphyr::ser_options;
use std::collections::BTreeMap;

fn check(step: usize) {
    let mut value: BTreeMap<Vec<String>, i32> = BTreeMap::new();
    value.insert(vec!["a".to_string(), "c".to_string()], 1);

    let reference = serde_saphyr::to_string(&value).unwrap();
    let back_ref: BTreeMap<Vec<String>, i32> = serde_saphyr::from_str(&reference).unwrap();
    assert_eq!(back_ref, value, "reference document:\n{reference}");

    let yaml = serde_saphyr::to_string_with_options(&value, ser_options! { indent_step: step }).unwrap();
    let back: BTreeMap<Vec<String>, i32> = serde_saphyr::from_str(&yaml)
        .unwrap_or_else(|e| panic!("indent_step {step}: does not parse: {e}\n{yaml}"));
    assert_eq!(back, value, "indent_step {step} changed the data, document:\n{yaml}");
}

#[test]
fn indent_step_3_sequence_key() {
    check(3);
}

#[test]
fn indent_step_4_sequence_key() {
    check(4);
}

#[test]
fn indent_step_4_sequence_key_with_multiline_items() {
    let mut value: BTreeMap<Vec<String>, i32> = BTreeMap::new();
    value.insert(vec!["a\nb".to_string(), "c\nd".to_string()], 1);
    let reference = serde_saphyr::to_string(&value).unwrap();
    let back_ref: BTreeMap<Vec<String>, i32> = serde_saphyr::from_str(&reference).unwrap();
    assert_eq!(back_ref, value, "reference document:\n{reference}");
    let yaml = serde_saphyr::to_string_with_options(&value, ser_options! { indent_step: 4 }).unwrap();
    let back: BTreeMap<Vec<String>, i32> = serde_saphyr::from_str(&yaml)
        .unwrap_or_else(|e| panic!("indent_step 4: does not parse: {e}\n{yaml}"));
    assert_eq!(back, value, "document:\n{yaml}");
}
