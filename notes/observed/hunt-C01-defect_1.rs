// DEFECT 1 (property C01): rendering a returned error panics
// ("Formatting argument out of range") for a legal option configuration.
//
// Violated clause: "Every deserialization entry point, given any byte sequence ..., any option
// configuration and any target type, returns either a value or an error value ... Turning any
// returned error into text is equally total."
//
// Minimal input: a document in which an anchored scalar is defined at a character column
// beyond 65 536 of its line, and is used through an alias at least three lines further down by
// a field whose type does not accept it, e.g.
//
//     {a: x,<70000 spaces>c: &A notnum,\n\n\n\n\n b: *A}\n      -> struct { a: String, b: u32 }
//
// deserialized with `Options { crop_radius: 100_000, .. }` (`crop_radius` is a public `usize`
// field; its documentation only gives 0 a special meaning, any other value is a legal radius).
//
// What the crate does: `from_str_with_options` returns Err(WithSnippet { AliasError .. }) as it
// should, but `err.to_string()` / `format!("{err}")` / `err.render()` panic:
//     thread panicked at src/de/snippet.rs:554: Formatting argument out of range
//
// What it should do: produce text (with or without the secondary "defined here" window).
//
// Cause: src/de/snippet.rs, fmt_snippet_window_with_mapping_or_fallback (the hand-written renderer
// of the secondary "defined here" window of dual-location errors) pads the caret line with
// `{space:>caret_chars$}` where `caret_chars` = number of characters in front of the reported
// column. A run-time width argument above u16::MAX makes `core::fmt` panic
// (fmt::rt::Argument::from_usize, Rust >= 1.87). With the default crop_radius (64) the window is
// cropped to at most 64 columns on the left of the error column, so the width stays small; with a
// crop radius above 65 535 the line keeps its prefix (crop_source_window deliberately never cuts
// the error line on the left) and the width is `column - 1`.
// Same pattern at lines 549, 585, 592 of that function.
//
// No optional feature needed:  cargo test --offline --test defect_1

use serde::Deserialize;

#[derive(Debug, Deserialize)]
struct S {
    #[allow(dead_code)]
    a: String,
    #[allow(dead_code)]
    b: u32,
}

#[test]
fn rendering_dual_location_error_with_large_crop_radius_is_total() {
    let pad = " ".repeat(70_000);
    let yaml = format!("{{a: x,{pad}c: &A notnum,\n\n\n\n\n b: *A}}\n");

    let mut options = serde_saphyr::Options::default();
    options.crop_radius = 100_000;

    let err = serde_saphyr::from_str_with_options::<S>(&yaml, options)
        .expect_err("`notnum` is no u32");

    let rendered = std::panic::catch_unwind(std::panic::AssertUnwindSafe(|| err.to_string()));
    assert!(
        rendered.is_ok(),
        "turning the returned error into text panicked (crop_radius = 100_000, anchor defined at column 70013)"
    );
}
