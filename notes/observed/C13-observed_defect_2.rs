//! Observed on the UNCHANGED crate (default options): a STRUCT VARIANT used as a composite map
//! key is emitted with its fields at the same column as the variant label:
//!
//!     ? S:
//!       a: 1
//!       b: 2
//!     : 1
//!
//! so the key reads as the mapping {S: null, a: 1, b: 2} and deserialization fails with
//! "missing field `a`".  serialize_struct_variant (not after a dash, not in value position) uses
//! `self.depth + 1` for the fields, but the label after "? " already sits two columns to the right
//! of that depth.  Newtype variant keys (`? N: 5`) are fine.
use serde::{Deserialize, Serialize};
use std::collections::BTreeMap;

#[derive(Serialize, Deserialize, PartialEq, Eq, PartialOrd, Ord, Debug, Clone)]
enum Key {
    S { a: i32, b: i32 },
}

#[test]
fn struct_variant_as_map_key_round_trips() {
    let mut m: BTreeMap<Key, i32> = BTreeMap::new();
    m.insert(Key::S { a: 1, b: 2 }, 1);
    let text = serde_saphyr::to_string(&m).unwrap();
    let back: BTreeMap<Key, i32> = serde_saphyr::from_str(&text)
        .unwrap_or_else(|e| panic!("emitted text does not parse back:\n{text}\nerror: {e}"));
    assert_eq!(back, m, "emitted text:\n{text}");
}
