// Defect 5 (property C06): non-ASCII (Unicode) white space around a scalar is silently
// stripped before number / boolean recognition, so text that is not in any documented
// notation is read as a number or a boolean - also by the untyped entry point, where the
// string is replaced by a number, and by no_schema, which then demands quotes.
//
// Violated clause: "integers accept exactly the documented notations (sign, decimal,
// 0x/0o/0b, `_` separators, optional legacy octal)"; "A scalar is interpreted from its
// text".  U+00A0 NO-BREAK SPACE, U+2003 EM SPACE, U+3000 IDEOGRAPHIC SPACE ... are not
// YAML white space (YAML: s-white ::= space | tab), they are ordinary content characters
// of a plain scalar and the parser keeps them in the scalar value.
//
// Minimal inputs / behaviour ("\u{a0}12" = NBSP followed by `12`, as a plain scalar):
//   i64               <- "\u{a0}12"      => Ok(12)            expected Err(invalid i64)
//   u8                <- "12\u{3000}"    => Ok(12)            expected Err
//   f64               <- "\u{a0}1.5"     => Ok(1.5)           expected Err
//   bool              <- "\u{2003}true"  => Ok(true)          expected Err
//   serde_json::Value <- "\u{a0}12"      => Number(12)        expected String("\u{a0}12")
//   serde_json::Value <- "\u{2003}true"  => Bool(true)        expected String("\u{2003}true")
//   String+no_schema  <- "\u{a0}12"      => Err(must be quoted) expected Ok("\u{a0}12")
//   (String without no_schema correctly returns "\u{a0}12", i.e. the characters are part of
//   the value.)
//
// Cause: src/parse_scalars.rs `parse_int_signed`, `parse_int_unsigned`,
// `parse_yaml12_float`, `parse_yaml11_bool` and src/de.rs `deserialize_bool` /
// `deserialize_any` use `str::trim()`, which strips the whole Unicode White_Space class,
// where only the ASCII line break / blank of a block scalar (`|\n  12\n`) needs removing.
//
// Run: cargo test --offline --test defect_5   (no optional features needed)

use serde_json::Value;

#[test]
fn typed_numeric_targets_reject_unicode_space_padding() {
    let r = serde_saphyr::from_str::<i64>("\u{a0}12");
    assert!(r.is_err(), "NBSP+12 is not an integer notation, got {r:?}");
    let r = serde_saphyr::from_str::<u8>("12\u{3000}");
    assert!(r.is_err(), "12+IDEOGRAPHIC SPACE is not an integer notation, got {r:?}");
    let r = serde_saphyr::from_str::<f64>("\u{a0}1.5");
    assert!(r.is_err(), "NBSP+1.5 is not a float notation, got {r:?}");
    let r = serde_saphyr::from_str::<bool>("\u{2003}true");
    assert!(r.is_err(), "EM SPACE+true is not a boolean literal, got {r:?}");
}

#[test]
fn untyped_target_keeps_the_string() {
    // sanity: the characters are content for a String target
    let s: String = serde_saphyr::from_str("\u{a0}12").unwrap();
    assert_eq!(s, "\u{a0}12");

    let v: Value = serde_saphyr::from_str("\u{a0}12").unwrap();
    assert_eq!(v, Value::String("\u{a0}12".to_owned()));
    let v: Value = serde_saphyr::from_str("k: \u{2003}true\n").unwrap();
    assert_eq!(v, serde_json::json!({"k": "\u{2003}true"}));
}

#[test]
fn no_schema_accepts_the_string() {
    let opts = serde_saphyr::options! { no_schema: true };
    let r: Result<String, _> = serde_saphyr::from_str_with_options("\u{a0}12", opts);
    assert_eq!(r.ok().as_deref(), Some("\u{a0}12"));
}
