// DEFECT 2 (C17): reader entry points - the caret is one column to the right of the reported
// column when the text fragment taken from the recent-bytes ring happens to BEGIN with U+FEFF.
//
// (No optional features needed: cargo test --offline --test defect_2)
//
// Violated clause: "includes the line the location refers to with the marker under the
// reported column ... This holds ... for snippets taken from the reader's recent-bytes window"
// (quantified over "multi-byte text around the error column", "string and reader entry points").
//
// Minimal input (reader, default options), mapping String -> i32:
//
//     # xxxx ... (4000 x)          <- long first line: the ring (3 KiB) starts inside it
//     <U+FEFF>k: zz                <- U+FEFF is an ordinary character of the key here
//     t: 1
//
// The parser (and `from_str` on the same text) reports `invalid i32` at line 2, column 5: column
// 1 is U+FEFF, column 2 `k`, column 5 the first `z`. `from_str` draws the caret under the
// first `z`. `from_reader` renders
//
//     2 | k: zz
//       |     ^ invalid i32          <- under the SECOND `z`
//
// i.e. the marker is under column 6 of the line, not under the reported column 5.
//
// Expected: the same picture as for the string entry point (caret under the first `z`).
//
// Cause: src/de_error.rs `Error::with_snippet_offset` starts with
// `let text = text.strip_prefix('\u{FEFF}').unwrap_or(text);` ("keep snippet coordinates
// aligned with parsers that ignore a leading BOM"). That is right only for the beginning of the
// STREAM (the decoder strips that mark and the parser never sees it). Here `text` is a
// fragment of the ring: src/lib.rs `from_reader_with_options::attach_snippet` passes
// `&text[i + 1..]` (the ring started mid-line, so it starts at the next full line, line 2) -
// the U+FEFF at its beginning is a character the parser has counted as column 1, and removing
// it shifts every column of that line by one. (`with_snippet`, the string counterpart, only
// ever sees the whole input, so it is not affected.)

use std::collections::HashMap;
use std::io::Cursor;

/// Display offset (in characters; the line is ASCII apart from the zero-width U+FEFF) of the
/// caret relative to the beginning of the source text of line `line_no`, plus that text.
fn caret_offset(rendered: &str, line_no: u64) -> (usize, String) {
    let lines: Vec<&str> = rendered.lines().collect();
    let prefix = format!("{line_no} | ");
    let idx = lines
        .iter()
        .position(|l| l.trim_start().starts_with(&prefix))
        .unwrap_or_else(|| panic!("line {line_no} is not shown:\n{rendered}"));
    let text_start = lines[idx].find("| ").unwrap() + 2;
    let text: String = lines[idx][text_start..].to_string();
    let marker = lines[idx + 1];
    let caret = marker.find('^').unwrap_or_else(|| panic!("no marker:\n{rendered}"));
    (marker[text_start..caret].chars().count(), text)
}

#[test]
fn reader_fragment_starting_with_feff_keeps_the_caret_under_the_reported_column() {
    let yaml = format!("# {}\n\u{FEFF}k: zz\nt: 1\n", "x".repeat(4000));

    // Reference: the string entry point.
    let err = serde_saphyr::from_str::<HashMap<String, i32>>(&yaml).unwrap_err();
    let loc = err.location().expect("location");
    assert_eq!((loc.line(), loc.column()), (2, 5));
    let (off, text) = caret_offset(&err.to_string(), 2);
    // visible characters left of the caret (U+FEFF has no width)
    let visible: String = text.chars().filter(|c| *c != '\u{FEFF}').take(off).collect();
    assert_eq!(visible, "k: ", "string entry point: caret under the first `z`");

    // Reader entry point: same location, must give the same picture.
    let err =
        serde_saphyr::from_reader::<_, HashMap<String, i32>>(Cursor::new(yaml.as_bytes()))
            .unwrap_err();
    let loc = err.location().expect("location");
    assert_eq!((loc.line(), loc.column()), (2, 5));
    let rendered = err.to_string();
    let (off, text) = caret_offset(&rendered, 2);
    let visible: String = text.chars().filter(|c| *c != '\u{FEFF}').take(off).collect();
    assert_eq!(
        visible, "k: ",
        "reader entry point: the caret is not under the reported column 5 (the first `z`):\n{rendered}"
    );
}
