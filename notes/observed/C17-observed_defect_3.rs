//! OBSERVED DEFECT 3 (unchanged crate) - NEEDS FEATURE `miette`
//!   cargo test --features garde,validator,miette,robotics --test observed_defect_3
//!
//! miette adapter, source text starting with a UTF-8 byte order mark. The parser ignores the BOM,
//! so the offsets in `Location::span()` do not count it, but `to_miette_report` is given (and
//! keeps) the source *with* the BOM and uses the offsets as they are. The label lands 3 bytes
//! (string entry point, byte offsets) resp. 1 character (reader entry point, char path) too early:
//!
//!      2 │ b: xyz
//!        · ─┬─            <- should be under `xyz`
//!        ·  ╰── invalid i32
//!
//! (`Error::render()` strips the BOM before mapping and is right.)
#![cfg(feature = "miette")]
use serde::Deserialize;

#[derive(Debug, Deserialize)]
#[allow(dead_code)]
struct P {
    a: i32,
    b: i32,
}

fn labelled_text(report: &miette::Report, source: &str) -> String {
    let labels: Vec<_> = report.labels().expect("a label").collect();
    assert_eq!(labels.len(), 1);
    let l = &labels[0];
    source[l.offset()..l.offset() + l.len()].to_owned()
}

#[test]
fn miette_label_with_bom_from_str() {
    let yaml = "\u{FEFF}a: 1\nb: xyz\n";
    let err = serde_saphyr::from_str::<P>(yaml).unwrap_err();
    let report = serde_saphyr::miette::to_miette_report(&err, yaml, "t.yaml");
    assert_eq!(labelled_text(&report, yaml), "xyz");
}

#[test]
fn miette_label_with_bom_from_reader() {
    let yaml = "\u{FEFF}a: 1\nb: xyz\n";
    let err = serde_saphyr::from_reader::<_, P>(std::io::Cursor::new(yaml.as_bytes())).unwrap_err();
    let report = serde_saphyr::miette::to_miette_report(&err, yaml, "t.yaml");
    assert_eq!(labelled_text(&report, yaml), "xyz");
}
