// C16 defect 6: the value of an "explicit empty key" entry (`? : value`, which the crate reads
// as key = null, value = `value`) gets the position of the NEXT, unrelated node as its use
// site, and errors inside it are reported there as if an alias were involved.
//
// Violated clauses: "a type error at a node is reported at the position a span-carrying value
//   would give for that node"; "For plain values: [defined] equals referenced" (Spanned docs);
//   "names the right node".
//
// Minimal input:   "? : [1, é]\nb: [2]\n"   (target HashMap<Option<String>, Vec<i32>>)
// What the crate does: error "invalid i32 at line 1, column 9 (defined at ...)" whose primary
//   location is line 2 column 1 - the key `b` of the following entry, which has nothing to do
//   with the error; Error::locations() = (reference 2:1, defined 1:9) although the document has
//   no anchor or alias. With Spanned values: `[1, 2]` and each of its elements have
//   referenced = 2:1 and defined = their own position.
// What it should do: report the `é` (1:9) as the single location; referenced == defined.
//
// Cause: src/de.rs MA::next_key_seed(), branch `kemn_one_entry_nullish`: the key node
//   `{null: V}` is captured together with the OUTER (omitted) value; the PendingEntry's
//   reference_location is `self.ev.reference_location()` of that outer value (an implicit null
//   that the parser places at the next token). In the pending branch the inner value V's
//   events are then swapped in (`value_events = events.drain(vs..ve)`) but paired with that
//   foreign reference_location, which MA::next_value_seed() installs as the replay's
//   ref_override for V and all nodes nested in it.

use serde::Deserialize;
use serde_saphyr::Spanned;
use std::collections::HashMap;

#[test]
fn type_error_in_value_of_explicit_empty_key_is_located_at_the_value() {
    let yaml = "? : [1, é]\nb: [2]\n";
    let err = serde_saphyr::from_str::<HashMap<Option<String>, Vec<i32>>>(yaml)
        .expect_err("é is no i32");
    let loc = err.location().expect("location");
    assert_eq!(
        (loc.line(), loc.column()),
        (1, 9),
        "the error must be located at the `é`, not at the following entry: {err}"
    );
    let locs = err.locations().unwrap();
    assert_eq!(
        locs.reference_location, locs.defined_location,
        "no alias is involved: {err}"
    );
}

#[derive(Debug)]
struct Pairs(Vec<(Option<String>, Vec<Spanned<i32>>)>);
impl<'de> Deserialize<'de> for Pairs {
    fn deserialize<D: serde::Deserializer<'de>>(d: D) -> Result<Self, D::Error> {
        struct Vis;
        impl<'de> serde::de::Visitor<'de> for Vis {
            type Value = Pairs;
            fn expecting(&self, f: &mut std::fmt::Formatter) -> std::fmt::Result {
                f.write_str("a mapping")
            }
            fn visit_map<A: serde::de::MapAccess<'de>>(self, mut m: A) -> Result<Pairs, A::Error> {
                let mut v = Vec::new();
                while let Some(k) = m.next_key()? {
                    v.push((k, m.next_value()?));
                }
                Ok(Pairs(v))
            }
        }
        d.deserialize_map(Vis)
    }
}

#[test]
fn spanned_in_value_of_explicit_empty_key_is_a_plain_value() {
    let yaml = "? : [1, 2]\nb: [3]\n";
    let p: Pairs = serde_saphyr::from_str(yaml).unwrap();
    let (key, vals) = &p.0[0];
    assert_eq!(key, &None);
    assert_eq!(vals.len(), 2);
    for (s, col) in vals.iter().zip([6u64, 9u64]) {
        assert_eq!((s.defined.line(), s.defined.column()), (1, col));
        assert_eq!(s.referenced, s.defined, "plain value {}: referenced must equal defined", s.value);
    }
}
