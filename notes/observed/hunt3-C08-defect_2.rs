// C08 defect 2: nested tag-selected sequence variants - every level buffers the whole remaining
// subtree, so peak heap grows as (nesting depth) x (nodes).
//
// Violated clause: "peak heap use stays within a fixed multiple of input size plus
// budget-counted events ... deeply nested ... containers are therefore rejected or processed
// after bounded work".
//
// Target type and minimal input (d <= 255 levels of `!Add [` around n leaves, no alias/anchor):
//
//     enum Expr { Add(Vec<Expr>), Num(i64) }
//     !Add [!Add [!Add [ ... [!Num 1, !Num 1, ..., !Num 1] ... ]]]
//
// For d = 200, n = 4000 the input is ~33 KB and the budget counts ~4400 events; the unchanged
// crate needs ~80 MB of heap (the d = 1 document with the same leaves: ~2.5 MB). The result value
// itself is tiny (4000 x 32 B). Scaling n towards max_nodes gives gigabytes from a document of
// about 2 MB that is within every default limit.
//
// Expected: heap within 64 KiB + 16 x (input bytes + 96 B x counted events) (~7.5 MB here) and
// within a small multiple of the d = 1 cost.
//
// Cause: src/de.rs, YamlDeserializer::deserialize_enum, arm `Some(Ev::SeqStart { .. })`: for a
// sequence whose tag names a variant, all events up to the matching SeqEnd are drained into
// `replay_events` and served from a boxed ReplayEvents (TaggedEA/TaggedVA). An element that is
// again a tag-selected sequence variant repeats this from that replay, while the outer
// ReplayEvents (one slot per event, `Ev::Taken` after the move) stays alive in the caller:
// d live buffers of ~n slots each.
//
// Heap is observed through /proc/self/status (VmHWM, reset via /proc/self/clear_refs) because the
// crate forbids unsafe code in its tests too (no counting allocator possible). Linux only.
// Run: cargo test --offline --test defect_2

use serde::Deserialize;
use std::cell::Cell;
use std::rc::Rc;

fn status(field: &str) -> usize {
    let s = std::fs::read_to_string("/proc/self/status").expect("needs Linux /proc");
    for l in s.lines() {
        if let Some(rest) = l.strip_prefix(field) {
            let kb: usize = rest
                .trim_start_matches(':')
                .trim()
                .trim_end_matches("kB")
                .trim()
                .parse()
                .unwrap();
            return kb * 1024;
        }
    }
    panic!("{field} not found");
}

/// Peak resident-set growth while `f` runs.
fn peak_growth<R>(f: impl FnOnce() -> R) -> (R, usize) {
    let _ = std::fs::write("/proc/self/clear_refs", "5"); // reset VmHWM
    let base = status("VmRSS");
    let r = f();
    (r, status("VmHWM").saturating_sub(base))
}

#[derive(Debug, Deserialize)]
#[allow(dead_code)]
enum Expr {
    Add(Vec<Expr>),
    Num(i64),
}

fn document(d: usize, n: usize) -> String {
    let mut y = String::new();
    for _ in 0..d {
        y.push_str("!Add [");
    }
    for i in 0..n {
        if i > 0 {
            y.push_str(", ");
        }
        y.push_str("!Num 1");
    }
    for _ in 0..d {
        y.push(']');
    }
    y.push('\n');
    y
}

/// Returns (peak heap growth, events counted by the budget, input length).
fn run(d: usize, n: usize) -> (usize, usize, usize) {
    let yaml = document(d, n);
    let events = Rc::new(Cell::new(0usize));
    let seen = events.clone();
    let options = serde_saphyr::Options::default().with_budget_report(move |r| seen.set(r.events));
    let (res, peak) = peak_growth(|| serde_saphyr::from_str_with_options::<Expr>(&yaml, options));
    let value = res.expect("the document is within all default limits and must be accepted");
    // sanity: the value has the expected shape
    let mut cur = &value;
    let mut depth = 0;
    while let Expr::Add(items) = cur {
        depth += 1;
        cur = &items[0];
    }
    assert_eq!(depth, d);
    (peak, events.get(), yaml.len())
}

#[test]
fn nested_tagged_sequence_variants_do_not_multiply_heap_by_depth() {
    // (roomy stack so that an unoptimised build measures heap instead of overflowing the stack)
    std::thread::Builder::new()
        .stack_size(256 << 20)
        .spawn(check)
        .unwrap()
        .join()
        .unwrap();
}

fn check() {
    let n = 4000;
    let (flat_peak, flat_events, flat_len) = run(1, n);
    let (deep_peak, deep_events, deep_len) = run(200, n);
    println!("d=1:   input {flat_len} B, {flat_events} events, peak heap growth {flat_peak} B");
    println!("d=200: input {deep_len} B, {deep_events} events, peak heap growth {deep_peak} B");

    let bound = 64 * 1024 + 16 * (deep_len + 96 * deep_events);
    assert!(
        deep_peak <= bound,
        "peak heap {deep_peak} B for a {deep_len} B document with {deep_events} counted events \
         exceeds 64 KiB + 16 x (input + 96 B x events) = {bound} B"
    );
    assert!(
        deep_peak <= 4 * flat_peak.max(bound / 4),
        "200 levels of `!Add [` around the same {n} leaves cost {deep_peak} B, one level {flat_peak} B"
    );
}
