// DEFECT 2 - wrappers reached through serde's buffered `Content` (`#[serde(flatten)]`, untagged /
// internally tagged enums) read the anchor context of the ENCLOSING wrapper node: sharing is lost,
// a recursive link is silently attached to the wrong node, or a valid document is rejected.
//
// Property clause violated:
//   "deserializing that text rebuilds a graph with the same sharing relation: two fields point to
//    one allocation afterwards exactly if they did before, weak references resolve to their strong
//    target ..., and self-referential structures built from the recursive wrappers are restored"
//   (quantified over "shared nodes in sequences / maps / nested structs").
// README, "Anchors": "this deserialization is identity-preserving. A field or structure that is
//   defined once and subsequently referenced will exist as a single instance in memory, with all
//   anchor fields pointing to it." (The README lists the Content limitation for `Spanned` only.)
//
// Minimal inputs (all text below is produced by the crate's own serializer):
//
//  (a) struct Kid { name, kids, #[serde(flatten)] extra: Option<Extra> },  Extra { up: RcRecursion<P> }
//        root: &a1
//          name: root
//          kids:
//            - &a2
//              name: kid
//              kids: []
//              up: *a1          <- link to ROOT
//      reads back without error, but kid.up now points to the KID ITSELF (a2), not to root.
//
//  (b) struct Outer { id, #[serde(flatten)] inner: Inner },  Inner { x: RcAnchor<i32> }, a shared
//      RcAnchor<Outer> in two fields:
//        a: &a1
//          id: 1
//          x: &a2 7
//        b: *a1
//      is rejected: "anchor id 1 reused with incompatible Rc type".
//
//  (c) struct Outer { id, #[serde(flatten)] inner: Inner { x: RcAnchor<Vec<i32>>, y: RcAnchor<Vec<i32>> }, z }
//      with x, y, z one allocation: `x: &a1 [..]`, `y: *a1`, `z: *a1` comes back as three
//      different allocations (same with the fields inside an untagged / internally tagged enum).
//
// What it should do: keep the sharing / link targets (or, at the very least, fail loudly instead
// of linking to the wrong node).
//
// Cause: the anchor id of a wrapper node is only published by src/de.rs
// `deserialize_newtype_struct` (`peek_anchor_id` + `anchor_store::with_anchor_context`). serde's
// ContentDeserializer / FlatMapDeserializer answer `deserialize_newtype_struct("__yaml_rc_anchor", ..)`
// by calling `visit_newtype_struct` directly, so no context entry is pushed, and
// src/anchors.rs `*Visitor::visit_newtype_struct` -> src/anchor_store.rs `current_anchor_id`
// finds the entry of whatever wrapper encloses it (the fix "an un-anchored wrapper inside an
// anchored wrapper does not inherit the outer anchor" only covers wrappers that go through
// de.rs). With no enclosing wrapper the id is simply lost and every occurrence gets a new Rc.
//
// Run: cargo test --offline --test defect_2

use serde::{Deserialize, Serialize};
use serde_saphyr::{RcAnchor, RcRecursion, RcRecursive};
use std::rc::Rc;

// ---------- (a) recursive link silently attached to the wrong node ----------

#[derive(Serialize, Deserialize)]
struct Extra {
    up: RcRecursion<P>,
}

#[derive(Serialize, Deserialize)]
struct P {
    name: String,
    kids: Vec<RcRecursive<P>>,
    #[serde(flatten)]
    extra: Option<Extra>,
}

#[derive(Serialize, Deserialize)]
struct Tree {
    root: RcRecursive<P>,
}

#[test]
fn flattened_parent_link_points_to_the_parent() {
    let root = RcRecursive::wrapping(P { name: "root".into(), kids: vec![], extra: None });
    let kid = RcRecursive::wrapping(P {
        name: "kid".into(),
        kids: vec![],
        extra: Some(Extra { up: RcRecursion::from(&root) }),
    });
    root.0.borrow_mut().as_mut().unwrap().kids.push(kid);

    let yaml = serde_saphyr::to_string(&Tree { root }).expect("serialize");
    let back: Tree = serde_saphyr::from_str(&yaml).unwrap_or_else(|e| panic!("{e}\n{yaml}"));

    let root = back.root.borrow();
    let kid = root.kids[0].borrow();
    let up = kid.extra.as_ref().expect("extra present").up.upgrade().expect("link is live");
    assert_eq!(
        up.borrow().name,
        "root",
        "kid.up pointed to root before the round trip; now it points to {:?}\n{yaml}",
        up.borrow().name
    );
    assert!(up == back.root);
}

// ---------- (b) valid document rejected ----------

#[derive(Serialize, Deserialize)]
struct Inner2 {
    x: RcAnchor<i32>,
}

#[derive(Serialize, Deserialize)]
struct Outer2 {
    id: i32,
    #[serde(flatten)]
    inner: Inner2,
}

#[derive(Serialize, Deserialize)]
struct Holder {
    a: RcAnchor<Outer2>,
    b: RcAnchor<Outer2>,
}

#[test]
fn shared_node_with_flattened_wrapper_field_reads_back() {
    let shared = Rc::new(Outer2 { id: 1, inner: Inner2 { x: RcAnchor::wrapping(7) } });
    let h = Holder { a: RcAnchor(shared.clone()), b: RcAnchor(shared) };
    let yaml = serde_saphyr::to_string(&h).expect("serialize");
    let back: Holder = serde_saphyr::from_str(&yaml)
        .unwrap_or_else(|e| panic!("the serializer's own output is rejected: {e}\n{yaml}"));
    assert!(Rc::ptr_eq(&back.a.0, &back.b.0));
    assert_eq!(*back.a.inner.x.0, 7);
}

// ---------- (c) sharing silently lost ----------

#[derive(Serialize, Deserialize)]
struct Inner {
    x: RcAnchor<Vec<i32>>,
    y: RcAnchor<Vec<i32>>,
}

#[derive(Serialize, Deserialize)]
struct Outer {
    id: i32,
    #[serde(flatten)]
    inner: Inner,
    z: RcAnchor<Vec<i32>>,
}

#[test]
fn sharing_survives_in_flattened_fields() {
    let shared = Rc::new(vec![1, 2]);
    let o = Outer {
        id: 1,
        inner: Inner { x: RcAnchor(shared.clone()), y: RcAnchor(shared.clone()) },
        z: RcAnchor(shared),
    };
    let yaml = serde_saphyr::to_string(&o).expect("serialize");
    let back: Outer = serde_saphyr::from_str(&yaml).unwrap_or_else(|e| panic!("{e}\n{yaml}"));
    assert!(Rc::ptr_eq(&back.inner.x.0, &back.inner.y.0), "x and y were one allocation\n{yaml}");
    assert!(Rc::ptr_eq(&back.inner.x.0, &back.z.0), "x and z were one allocation\n{yaml}");
}
