// C04 defect 2: the same tag written in two spellings (shorthand vs. verbatim / %TAG handle) is
// taken for two different tags, so a repeated key goes undetected
//
// Violated clause: "When the same key node (same structure, scalar text and tag ...) occurs more
// than once among a mapping's own entries, the Error policy fails with a duplicate-key error
// located at the repeated key, FirstWins gives the result of the document with every later entry
// (its key and its whole value) deleted".
//
// Minimal input (YAML 1.2.2 section 6.9.1: `!!str` IS the shorthand of the verbatim tag
// `!<tag:yaml.org,2002:str>`; both keys are the node  tag:yaml.org,2002:str "a"):
//
//     !!str a: 1
//     !<tag:yaml.org,2002:str> a: 2
//
// and with an application tag reached through a %TAG handle:
//
//     %TAG !e! tag:example.com,2000:
//     ---
//     !e!foo a: 1
//     !<tag:example.com,2000:foo> a: 2
//
// What the crate does: no duplicate-key error under Error (a BTreeMap target silently ends up as
// {"a": 2}), and FirstWins delivers the later entry too (BTreeMap: {"a": 2}, pairs: both).
// The same holds for sequence keys (`!e!foo [a]` / `!<tag:example.com,2000:foo> [a]`).
//
// What it should do: Error -> duplicate-key error at line 2 (resp. 4) column of the second key;
// FirstWins -> only the first entry.
//
// Cause: tag identity is the *printed* form of the parser's (handle, suffix) pair.
// src/tags.rs `SfTag::from_optional_cow` looks up `Tag::to_string()`, which prints
// "<handle>!<suffix>": the shorthand `!!str` prints as "tag:yaml.org,2002:!str" (-> SfTag::String)
// but the verbatim tag has an empty handle and prints as "!tag:yaml.org,2002:str", which is not in
// TAG_LOOKUP_MAP (-> SfTag::Other). For application tags src/de.rs `KeyFingerprint::with_custom_tag`
// stores that printed text (`raw_tag`), so "tag:example.com,2000:!foo" != "!tag:example.com,2000:foo".
//
// Run: cargo test --offline --test defect_2

use serde::de::{Deserialize, Deserializer, MapAccess, Visitor};
use serde_saphyr::options::DuplicateKeyPolicy;
use std::collections::BTreeMap;
use std::fmt;
use std::marker::PhantomData;

/// Order-preserving list of the pairs a mapping delivers.
#[derive(Debug, PartialEq)]
struct Pairs<K, V>(Vec<(K, V)>);

impl<'de, K: Deserialize<'de>, V: Deserialize<'de>> Deserialize<'de> for Pairs<K, V> {
    fn deserialize<D: Deserializer<'de>>(d: D) -> Result<Self, D::Error> {
        struct Vis<K, V>(PhantomData<(K, V)>);
        impl<'de, K: Deserialize<'de>, V: Deserialize<'de>> Visitor<'de> for Vis<K, V> {
            type Value = Pairs<K, V>;
            fn expecting(&self, f: &mut fmt::Formatter) -> fmt::Result {
                f.write_str("a mapping")
            }
            fn visit_map<A: MapAccess<'de>>(self, mut a: A) -> Result<Self::Value, A::Error> {
                let mut v = Vec::new();
                while let Some(e) = a.next_entry()? {
                    v.push(e);
                }
                Ok(Pairs(v))
            }
        }
        d.deserialize_map(Vis(PhantomData))
    }
}

fn parse<T: serde::de::DeserializeOwned>(
    yaml: &str,
    policy: DuplicateKeyPolicy,
) -> Result<T, serde_saphyr::Error> {
    let opts = serde_saphyr::options! { duplicate_keys: policy, };
    serde_saphyr::from_str_with_options::<T>(yaml, opts)
}

fn assert_duplicate_error<T: fmt::Debug>(r: Result<T, serde_saphyr::Error>, line: u64, what: &str) {
    match r {
        Ok(v) => panic!("{what}: Error policy accepted a repeated key and produced {v:?}"),
        Err(e) => {
            assert!(
                e.to_string().contains("duplicate mapping key"),
                "{what}: expected a duplicate-key error, got: {e}"
            );
            let loc = e.location().expect("location");
            assert_eq!(loc.line(), line, "{what}: error must be located at the repeated key");
        }
    }
}

const CORE: &str = "!!str a: 1\n!<tag:yaml.org,2002:str> a: 2\n";
const APP: &str = "%TAG !e! tag:example.com,2000:\n---\n!e!foo a: 1\n!<tag:example.com,2000:foo> a: 2\n";
const APP_SEQ: &str =
    "%TAG !e! tag:example.com,2000:\n---\n? !e!foo [a]\n: 1\n? !<tag:example.com,2000:foo> [a]\n: 2\n";

#[test]
fn control_same_spelling_is_detected() {
    // The very same keys, both written with the same spelling: detected as expected.
    assert_duplicate_error(
        parse::<BTreeMap<String, i32>>("!!str a: 1\n!!str a: 2\n", DuplicateKeyPolicy::Error),
        2,
        "control (shorthand twice)",
    );
    assert_duplicate_error(
        parse::<Pairs<String, i32>>(
            "%TAG !e! tag:example.com,2000:\n---\n!e!foo a: 1\n!e!foo a: 2\n",
            DuplicateKeyPolicy::Error,
        ),
        4,
        "control (%TAG shorthand twice)",
    );
}

#[test]
fn core_tag_shorthand_and_verbatim_error_policy() {
    assert_duplicate_error(
        parse::<BTreeMap<String, i32>>(CORE, DuplicateKeyPolicy::Error),
        2,
        "`!!str a` / `!<tag:yaml.org,2002:str> a`",
    );
}

#[test]
fn core_tag_shorthand_and_verbatim_first_wins() {
    let got: BTreeMap<String, i32> = parse(CORE, DuplicateKeyPolicy::FirstWins).unwrap();
    assert_eq!(got, BTreeMap::from([("a".to_owned(), 1)]), "FirstWins must keep the first entry");
    let got: Pairs<String, i32> = parse(CORE, DuplicateKeyPolicy::FirstWins).unwrap();
    assert_eq!(got, Pairs(vec![("a".to_owned(), 1)]));
}

#[test]
fn application_tag_through_handle_and_verbatim_error_policy() {
    assert_duplicate_error(
        parse::<Pairs<String, i32>>(APP, DuplicateKeyPolicy::Error),
        4,
        "`!e!foo a` / `!<tag:example.com,2000:foo> a`",
    );
    assert_duplicate_error(
        parse::<Pairs<Vec<String>, i32>>(APP_SEQ, DuplicateKeyPolicy::Error),
        5,
        "`!e!foo [a]` / `!<tag:example.com,2000:foo> [a]`",
    );
}

#[test]
fn application_tag_through_handle_and_verbatim_first_wins() {
    let got: Pairs<String, i32> = parse(APP, DuplicateKeyPolicy::FirstWins).unwrap();
    assert_eq!(got, Pairs(vec![("a".to_owned(), 1)]));
    let got: Pairs<Vec<String>, i32> = parse(APP_SEQ, DuplicateKeyPolicy::FirstWins).unwrap();
    assert_eq!(got, Pairs(vec![(vec!["a".to_owned()], 1)]));
}
