//! OBSERVED DEFECT 1 (unchanged crate, default features) - C17 "shows the right line".
//!
//! A lone CR is a YAML line break: the parser counts it and reports `line 2, column 4` for the
//! `xyz` below. The snippet code (src/de/snippet.rs `line_starts`, `crop_source_window`,
//! src/ring_reader.rs line counting) splits the source on '\n' only. The rendered report therefore
//! shows a different physical line under the number 2, with the marker under an unrelated
//! character:
//!
//!     error: line 2 column 4: invalid i32
//!      --> <input>:2:4
//!     1 | a: 1?b: xyz?c: 3
//!     2 | d: 4
//!       |    ^ invalid i32
//!
//! Same output from `from_str` and `from_reader`. Expected: either the line holding `b: xyz`
//! with the marker under `x`, or the plain fallback without a snippet.
use serde::Deserialize;

#[derive(Debug, Deserialize)]
#[allow(dead_code)]
struct P {
    a: i32,
    b: i32,
}

fn check(rendered: &str) {
    assert!(rendered.contains("line 2") && rendered.contains("column 4"), "{rendered}");
    // Find the marker line; the source line printed just above it must be the one with `xyz`,
    // and the marker must be under the `x`.
    let lines: Vec<&str> = rendered.lines().collect();
    if let Some(i) = lines.iter().position(|l| l.contains("^ invalid i32")) {
        let marked = lines[i - 1];
        assert!(
            marked.contains("xyz"),
            "marker is placed under a line that is not the error line:\n{rendered}"
        );
        let caret = lines[i].chars().position(|c| c == '^').unwrap();
        let x = marked.chars().position(|c| c == 'x').unwrap();
        assert_eq!(caret, x, "marker not under the reported column:\n{rendered}");
    }
}

#[test]
fn lone_cr_line_breaks_from_str() {
    let yaml = "a: 1\rb: xyz\rc: 3\nd: 4\ne: 5\nf: 6\n";
    let err = serde_saphyr::from_str::<P>(yaml).unwrap_err();
    check(&err.to_string());
}

#[test]
fn lone_cr_line_breaks_from_reader() {
    let yaml = "a: 1\rb: xyz\rc: 3\nd: 4\ne: 5\nf: 6\n";
    let err = serde_saphyr::from_reader::<_, P>(std::io::Cursor::new(yaml.as_bytes())).unwrap_err();
    check(&err.to_string());
}
