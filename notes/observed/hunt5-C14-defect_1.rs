// Defect 1 (C14): a node shared by more than 100 fields does not survive the round trip
// with the default options.
//
// Violated clause: "Serializing a graph whose nodes are shared through the anchor wrapper
// types emits each shared node once and references to it elsewhere, and deserializing that
// text rebuilds a graph with the same sharing relation" - quantified over all object graphs
// ("DAGs over Rc and Arc anchors with random sharing ... shared nodes in sequences").
//
// Minimal input: a `Vec<RcAnchor<i32>>` of 101 elements that all point to ONE allocation
// (one strong node, 100 further references - e.g. 101 records sharing one settings block).
// `to_string` writes `- &a1 7` followed by 100 lines `- *a1` (correct, 505 bytes).
//
// What the crate does: `from_str::<Vec<RcAnchor<i32>>>` of that very text fails with
//   "budget breached: AliasAnchorRatio { aliases: 100, anchors: 1 }".
// 100 elements (99 aliases) still read back; 101 and more never do.
//
// What it should do: read its own output back into 101 fields pointing to one allocation.
// A star-shaped sharing pattern is exactly what the wrappers are for, and it is the pattern in
// which the serializer necessarily writes many aliases per anchor. Nothing in the documentation
// of RcAnchor / ArcAnchor / the serializer says that more than ~100 references to a node
// (or more than 10 per anchor on average) are unsupported.
//
// Cause: src/budget.rs, `Budget::default()` (enforce_alias_anchor_ratio: true,
// alias_anchor_min_aliases: 100, alias_anchor_ratio_multiplier: 10) and
// `alias_anchor_ratio_breach`, applied by the default `Options` of every `from_*` entry point.
// The heuristic is meant against alias bombs, but an alias that is read into an RcAnchor /
// RcWeakAnchor field is not an expansion at all (the target is looked up by anchor id), and the
// text is what the crate's own serializer produces for a plain star graph. (Same outcome for
// ArcAnchor and for weak references - 1 strong + 101 RcWeakAnchor; both were run.)
//
// Run: cargo test --offline --test defect_1     (no optional features needed)

use serde_saphyr::{from_str, to_string, RcAnchor};
use std::rc::Rc;

#[test]
fn star_of_101_references_to_one_node_reads_back() {
    let shared = Rc::new(7i32);
    let graph: Vec<RcAnchor<i32>> = (0..101).map(|_| RcAnchor(shared.clone())).collect();
    let yaml = to_string(&graph).expect("serialize");
    // each shared node once, references elsewhere
    assert_eq!(yaml.matches("&a1").count(), 1, "{yaml}");
    assert_eq!(yaml.matches("*a1").count(), 100, "{yaml}");

    let back: Vec<RcAnchor<i32>> = match from_str(&yaml) {
        Ok(v) => v,
        Err(e) => panic!("the crate's own output for a star graph does not read back: {e}"),
    };
    assert_eq!(back.len(), 101);
    assert!(back.iter().all(|x| Rc::ptr_eq(&x.0, &back[0].0)));
    assert_eq!(*back[0].0, 7);
}
