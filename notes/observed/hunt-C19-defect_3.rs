// C19 defect 3: the angle tags are not recognised when written in verbatim form, so the value is
// silently left unconverted.
// Needs: cargo test --offline --features robotics --test defect_3
//
// Violated clause: "every accepted arithmetic / angle expression yields the IEEE-754 result ...
// with degree quantities converted to radians exactly once" (the property quantifies over
// "angle tags"). In YAML `!<!degrees>` IS the tag `!degrees` and `!<tag:yaml.org,2002:degrees>` IS
// the tag `!!degrees` (spec 6.9.1: a verbatim tag is the tag without shorthand); src/tags.rs
// itself lists "tag:yaml.org,2002:degrees" / "tag:yaml.org,2002:radians" as spellings of
// SfTag::Degrees / SfTag::Radians.
//
// Minimal input (angle_conversions on, target f64):   !<!degrees> 180
// What the crate does: Ok(180.0) - no conversion, no error. Likewise
//   `!<tag:yaml.org,2002:degrees> 180` -> 180.0, and `!<!radians> 1:30` -> 5400.0 (time seconds)
//   although `!radians 1:30` -> 0.0261799... . The shorthand spellings `!degrees 180`,
//   `!!degrees 180` give pi.
// What it should do: the same as the shorthand spelling of the same tag (pi; 0.0261799...).
// Cause: src/tags.rs SfTag::from_optional_cow looks up `Tag::to_string()` in TAG_LOOKUP_MAP.
//   saphyr's Display prints a verbatim tag (empty handle) as "!" + suffix, i.e. "!!degrees" and
//   "!tag:yaml.org,2002:degrees"; neither key is in the map for degrees / radians (for int, str, ...
//   the key "!!int" happens to exist, which is why `!<!int>` works by accident), and the keys
//   "tag:yaml.org,2002:degrees" / "...:radians" that are in the map can never be produced.

use serde_saphyr::{from_str_with_options, Options};

fn on() -> Options {
    serde_saphyr::options! { angle_conversions: true }
}

fn eval(y: &str) -> f64 {
    from_str_with_options::<f64>(y, on()).unwrap()
}

#[test]
fn verbatim_local_degrees_tag_converts() {
    assert_eq!(eval("!degrees 180"), core::f64::consts::PI);
    assert_eq!(eval("!<!degrees> 180"), core::f64::consts::PI);
}

#[test]
fn verbatim_global_degrees_tag_converts() {
    assert_eq!(eval("!!degrees 180"), core::f64::consts::PI);
    assert_eq!(eval("!<tag:yaml.org,2002:degrees> 180"), core::f64::consts::PI);
}

#[test]
fn verbatim_radians_tag_selects_angle_semantics() {
    let expected = 1.5f64 * (core::f64::consts::PI / 180.0);
    assert_eq!(eval("!radians 1:30"), expected);
    assert_eq!(eval("!<!radians> 1:30"), expected);
}
