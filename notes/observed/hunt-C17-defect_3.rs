// C17 defect 3: two-window report, very long lines: the "defined here" window is cut out of
// the snippet region that was cropped around the *other* location's column - it shows
// unrelated text and puts the marker under a character that is not the anchor's value
//
// Violated: "includes the line the location refers to with the marker under the reported
//   column" (quantified over "very long lines").
//
// Minimal input (2 lines, both longer than 4 KiB, default crop_radius 64):
//     {"count": &val 42, "pad": "AAAA…(6000 x A)…",
//     "pad2": "BBBB…(5000 x B)…", "flag": *val}
//   into `struct D { count: u64, pad: String, pad2: String, flag: bool }`.
//   The alias (line 2, column 5021) fails with `invalid boolean`; the value it replays was
//   defined at line 1, column 16 (`42`).
//
// What the crate does: the secondary window is
//       | This value comes indirectly from the anchor at line 1 column 16:
//       |
//     1 | …AAAAAAAAAAAAAAAAAAAAAAAAAAAAAAAAAAAAAAAAAAAAAAAAAAAAAAAAAAAAAAAAAAAAAAAAAAAAAAA…
//       |                ^ defined here
//   The marker sits under an `A` of the padding (really column ~4972 of line 1); `&val 42`
//   is not shown at all.
//
// What it should do: show `{"count": &val 42, "pad": "AAAA…` with the marker under the `4` of
//   `42` (this is what happens when the lines are shorter than 4 KiB).
//
// Cause: src/de_error.rs `with_snippet` stores one `CroppedRegion` per location;
//   `crop_source_window` (src/de/snippet.rs) crops the *context* lines of a region horizontally
//   to `[col - radius, col + radius]` of that region's own location once a line exceeds 4 KiB.
//   `pick_cropped_region` then selects a region by *line number only*: for the definition
//   location (line 1) it returns the first region, which was built for the reference location
//   (line 2, column 5021) and in which line 1 survives only as `…` + columns 4957..5085 + `…`.
//   `fmt_snippet_window_offset_or_fallback` maps column 16 into that fragment.
//   (Same root cause: several validation issues on neighbouring / the same very long line.)
//
// Run: cargo test --offline --test defect_3

use serde::Deserialize;

#[derive(Debug, Deserialize)]
#[allow(dead_code)]
struct D {
    count: u64,
    pad: String,
    pad2: String,
    flag: bool,
}

#[test]
fn defined_here_window_shows_the_anchor_on_very_long_lines() {
    let yaml = format!(
        "{{\"count\": &val 42, \"pad\": \"{}\",\n\"pad2\": \"{}\", \"flag\": *val}}\n",
        "A".repeat(6000),
        "B".repeat(5000)
    );
    let err = serde_saphyr::from_str::<D>(&yaml).unwrap_err();
    let rendered = err.to_string();

    // Sanity: this is the two-window report and the definition is at line 1 column 16.
    assert!(rendered.contains("the value is used here"), "{rendered}");
    let idx = rendered
        .find("line 1 column 16:")
        .unwrap_or_else(|| panic!("expected the anchor at line 1 column 16:\n{rendered}"));
    let secondary: Vec<&str> = rendered[idx..].lines().collect();

    let m = secondary
        .iter()
        .position(|l| l.contains("^ defined here"))
        .unwrap_or_else(|| panic!("no `defined here` marker:\n{rendered}"));
    let src = secondary[m - 1];
    let marker = secondary[m];
    assert!(
        src.trim_start().starts_with("1 |"),
        "marker is not below line 1:\n{rendered}"
    );

    let caret_chars = marker[..marker.find('^').unwrap()].chars().count();
    let under = src.chars().nth(caret_chars);
    assert!(
        src.contains("&val 42"),
        "the `defined here` window does not show the anchor `&val 42` of line 1 column 16:\n{}",
        secondary[..(m + 2).min(secondary.len())].join("\n")
    );
    assert_eq!(
        under,
        Some('4'),
        "marker of the `defined here` window is not under the `4` of `&val 42`:\n{}",
        secondary[..(m + 2).min(secondary.len())].join("\n")
    );
}
