// Property C11, clause violated:
//   "A stream of documents deserializes as the list obtained by deserializing each document
//    separately" (and: the same items with / without `...` end markers).
//
// Minimal input: the document `a: |` followed by one blank line (an empty literal block scalar;
// the same with `>` and with the scalar as a sequence item `- |`).
//
//   from_str("a: |\n\n")                      -> {"a": "\n"}
//   from_multiple("a: |\n\n---\na: |\n\n")    -> [{"a": ""}, {"a": "\n"}]   (same text, two values)
//   from_multiple("a: |\n\n...\n")            -> [{"a": ""}]
//   read(...) behaves like from_multiple.
//
// What the crate does: the value of an empty block scalar depends on what follows the document.
// When the document is the last thing in the input the scalar is "\n"; when a `---`, a `...`, a
// comment or another mapping entry follows it is "" (which is what YAML 1.2 section 8.1.1.2
// prescribes for clip chomping of an empty scalar). So a document in a stream is NOT read like
// the same document on its own, and the last document of a stream is read differently from an
// identical earlier one.
//
// What it should do: give the same value ("" per the specification) in every position.
//
// Cause: parser dependency, saphyr-parser-bw 0.0.608 src/scanner.rs `scan_block_scalar`: the
// special case "We have an end-of-stream with no content" returns `chomping_break` ("\n") for
// `Chomping::Clip`, while the regular path (anything but EOF follows) returns the empty string.
// serde-saphyr passes the scalar through unchanged (src/live_events.rs `next_impl`).
//
// Run: cargo test --offline --test defect_1
use std::collections::BTreeMap;

type Doc = BTreeMap<String, String>;

const DOC: &str = "a: |\n\n";

#[test]
fn same_document_same_value_in_every_position_of_a_stream() {
    let alone: Doc = serde_saphyr::from_str(DOC).unwrap();

    // The same document twice: both items must equal the document read on its own.
    let stream = format!("{DOC}---\n{DOC}");
    let both: Vec<Doc> = serde_saphyr::from_multiple(&stream).unwrap();
    assert_eq!(both.len(), 2);
    assert_eq!(
        both[0], both[1],
        "identical documents of one stream were read differently"
    );
    assert_eq!(both[0], alone, "first document of the stream differs from the document read alone");
}

#[test]
fn end_marker_does_not_change_the_document() {
    let alone: Doc = serde_saphyr::from_str(DOC).unwrap();
    let with_marker: Vec<Doc> = serde_saphyr::from_multiple(&format!("{DOC}...\n")).unwrap();
    assert_eq!(with_marker, vec![alone]);
}

#[test]
fn iterator_agrees_with_each_document_read_alone() {
    let alone: Doc = serde_saphyr::from_str(DOC).unwrap();
    let stream = format!("{DOC}---\n{DOC}---\n{DOC}");
    let mut reader = std::io::Cursor::new(stream.as_bytes());
    let items: Vec<Doc> = serde_saphyr::read::<_, Doc>(&mut reader)
        .map(|r| r.unwrap())
        .collect();
    assert_eq!(items, vec![alone.clone(), alone.clone(), alone]);
}
