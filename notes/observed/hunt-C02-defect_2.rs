// C02 defect 2: attaching an anchor to a node read as RcAnchor<T> / ArcAnchor<T> changes the value
// of the node when T contains further RcAnchor fields that serde reads through one of its buffering
// deserializers (#[serde(flatten)], #[serde(untagged)], #[serde(tag = "...")]).
//
// Violated clauses:
//   "Attaching an anchor to a node never changes that node's own value"
//   "Deserializing a document that uses anchors and aliases yields exactly the value obtained from
//    the document in which every alias is replaced by a copy of the node ..."
//
// Minimal input (target RcAnchor<Node>, Node { #[serde(flatten)] kids: Kids { a: RcAnchor<Leaf>,
// b: RcAnchor<Leaf> } }):
//      "&p\na: {v: 1}\nb: {v: 2}\n"
// Crate: a.v == 1 and b.v == 1 - `b` is the very same Rc as `a`; the `{v: 2}` node is parsed and
// thrown away. Without the `&p` mark the result is a.v == 1, b.v == 2.
// Second effect: "- &p {a: {v: 1}}\n- *p\n" read as Vec<RcAnchor<One>> (One flattens a single
// RcAnchor<Leaf>) fails with "anchor id 1 reused with incompatible Rc type" while the expanded
// document "- {a: {v: 1}}\n- {a: {v: 1}}\n" is read without error.
//
// Should: an inner RcAnchor field whose node carries no anchor gets a fresh Rc with its own value.
//
// Cause: src/anchors.rs, RcAnchorVisitor::visit_newtype_struct (same in ArcAnchor) asks
// anchor_store::current_rc_anchor() for "the anchor of the node I am reading". That is only
// correct when the call came through YamlDeserializer::deserialize_newtype_struct
// ("__yaml_rc_anchor" arm in src/de.rs), which pushes `(kind, peek_anchor_id())` - `None` for an
// un-anchored node - onto the thread-local stack of src/anchor_store.rs. When the field is read
// from serde's buffered Content (flatten / untagged / internally tagged), serde's
// ContentDeserializer::deserialize_newtype_struct calls visit_newtype_struct directly, nothing is
// pushed, and current_anchor_id() finds the entry of the ENCLOSING wrapper: the inner fields take
// the outer anchor id `p`, the first one stores its Rc<Leaf> under that id and every later one
// gets that stored Rc back (or a type clash once the outer value has been stored under the id).
//
// Run: cargo test --offline --test defect_2      (no optional features needed)

use serde::Deserialize;
use serde_saphyr::RcAnchor;

#[derive(Debug, Deserialize)]
struct Leaf {
    v: i32,
}

#[derive(Debug, Deserialize)]
struct Kids {
    a: RcAnchor<Leaf>,
    b: RcAnchor<Leaf>,
}

#[derive(Debug, Deserialize)]
struct Node {
    #[serde(flatten)]
    kids: Kids,
}

#[derive(Debug, Deserialize)]
#[serde(untagged)]
enum Untagged {
    Pair { a: RcAnchor<Leaf>, b: RcAnchor<Leaf> },
}

fn pair_of_node(yaml: &str) -> (i32, i32) {
    let n: RcAnchor<Node> = serde_saphyr::from_str(yaml).expect("valid document");
    (n.0.kids.a.0.v, n.0.kids.b.0.v)
}

#[test]
fn anchor_on_a_flattened_struct_changes_its_fields() {
    assert_eq!(pair_of_node("a: {v: 1}\nb: {v: 2}\n"), (1, 2)); // baseline, passes
    assert_eq!(
        pair_of_node("&p\na: {v: 1}\nb: {v: 2}\n"),
        (1, 2),
        "the anchor mark `&p` on the mapping changed the value of its field `b`"
    );
}

#[test]
fn anchor_on_an_untagged_enum_changes_its_fields() {
    let get = |yaml: &str| {
        let n: RcAnchor<Untagged> = serde_saphyr::from_str(yaml).expect("valid document");
        let Untagged::Pair { a, b } = &*n.0;
        (a.0.v, b.0.v)
    };
    assert_eq!(get("a: {v: 1}\nb: {v: 2}\n"), (1, 2)); // baseline, passes
    assert_eq!(get("&p\na: {v: 1}\nb: {v: 2}\n"), (1, 2));
}

#[derive(Debug, Deserialize)]
struct OneKid {
    a: RcAnchor<Leaf>,
}

#[derive(Debug, Deserialize)]
struct One {
    #[serde(flatten)]
    kid: OneKid,
}

#[test]
fn alias_to_a_flattened_struct_differs_from_its_expansion() {
    let values = |yaml: &str| -> Result<Vec<i32>, String> {
        serde_saphyr::from_str::<Vec<RcAnchor<One>>>(yaml)
            .map(|v| v.iter().map(|n| n.0.kid.a.0.v).collect())
            .map_err(|e| e.to_string())
    };
    let expanded = values("- {a: {v: 1}}\n- {a: {v: 1}}\n");
    assert_eq!(expanded, Ok(vec![1, 1])); // baseline, passes
    assert_eq!(values("- &p {a: {v: 1}}\n- *p\n"), expanded);
}
