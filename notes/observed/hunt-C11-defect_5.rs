// Defect 5 (property C11): what the streaming iterator does after "alias to an anchor of an
// earlier document" depends on WHERE in the document the alias stands.
//
// Violated clause: "anchors defined in one document are not visible in another ... The streaming
// iterator ... continues with the following document after a type-level error, ends after a
// syntax error" - the same failure (crate error "alias references unknown anchor", raised by
// serde-saphyr itself, the YAML is well-formed) must have one classification.
//
// Minimal input (T = Vec<i32>):
//   nested alias: "--- &a [1]\n--- [*a]\n--- [3]\n" -> [Ok([1]), Err(unknown anchor), Ok([3])]
//   root alias  : "--- &a [1]\n--- *a\n--- [3]\n"   -> [Ok([1]), Err(unknown anchor)]   <- document 3 lost
//   should: both streams give the same number of items (the parser is perfectly able to go on:
//   the nested case proves it), i.e. document 3 is delivered in both.
//
// Cause: src/lib.rs read_with_options, ReadIter::next: the first event of every document is
// fetched with `self.src.peek()`; an error returned there goes to the `Err(e)` arm, which sets
// `finished = true` unconditionally ("syntax error"). The very same error raised one event later,
// inside `T::deserialize`, goes through `skip_to_next_document()` and iteration continues. A root
// alias is resolved during that first peek (src/live_events.rs next_impl, Event::Alias arm ->
// Error::unknown_anchor), so it ends the stream. (Same for the *_valid / *_validate iterators.)

fn items(input: &str) -> Vec<Result<Vec<i32>, String>> {
    let mut reader = std::io::Cursor::new(input.as_bytes());
    serde_saphyr::read::<_, Vec<i32>>(&mut reader)
        .take(20)
        .map(|r| r.map_err(|e| e.to_string()))
        .collect()
}

#[test]
fn alias_to_earlier_document_is_handled_the_same_at_root_and_nested() {
    let nested = items("--- &a [1]\n--- [*a]\n--- [3]\n");
    let root = items("--- &a [1]\n--- *a\n--- [3]\n");

    // identical up to and including the failing document
    assert_eq!(nested[0], Ok(vec![1]));
    assert_eq!(root[0], Ok(vec![1]));
    assert!(nested[1].as_ref().unwrap_err().contains("unknown anchor"));
    assert!(root[1].as_ref().unwrap_err().contains("unknown anchor"));

    assert_eq!(
        root.len(),
        nested.len(),
        "same error, different continuation: root alias {root:?} vs nested alias {nested:?}"
    );
    assert_eq!(root.last(), Some(&Ok(vec![3])));
}
