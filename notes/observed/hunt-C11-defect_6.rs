// Defect 6 (property C11): a byte order mark at the start of a document is ignored only for the
// first document of a stream; in a later document it becomes part of the content.
//
// Violated clause: "A stream of documents deserializes as the list obtained by deserializing each
// document separately".
//
// Minimal input (T = struct P { b: i32 }): "b: 1\n---\n\u{FEFF}b: 2\n"
//   separately: "b: 1\n" -> P{b:1};  "\u{FEFF}b: 2\n" -> P{b:2}  (the crate documents "a single
//               leading UTF-8 BOM is ignored")
//   crate : from_multiple -> Err(missing field `b`) because the key of document 2 is "\u{FEFF}b";
//           read -> [Ok(P{b:1}), Err(missing field `b`)];
//           with serde_json::Value the second document is {"\u{feff}b": 2}.
//   should: [P{b:1}, P{b:2}]. YAML 1.2.2 section 9.1.1: l-document-prefix ::= c-byte-order-mark?
//           l-comment* - every document of a stream may start with a BOM (typical source:
//           concatenated files written by Windows editors).
//
// Cause: BOM handling is done once per stream, by hand: src/live_events.rs LiveEvents::from_str
// (`input.strip_prefix('\u{FEFF}')`), src/lib.rs from_multiple_with_options (same) and the reader
// path in src/buffered_input.rs; the parser (saphyr-parser-bw) does not treat U+FEFF as a document
// prefix, and nothing in next_impl's DocumentStart handling strips it from the first scalar.

use serde::Deserialize;

#[derive(Debug, Deserialize, PartialEq)]
struct P {
    b: i32,
}

#[test]
fn bom_before_a_later_document_is_not_content() {
    // each document on its own
    assert_eq!(serde_saphyr::from_str::<P>("b: 1\n").unwrap(), P { b: 1 });
    assert_eq!(serde_saphyr::from_str::<P>("\u{FEFF}b: 2\n").unwrap(), P { b: 2 });

    let stream = "b: 1\n---\n\u{FEFF}b: 2\n";
    let batch = serde_saphyr::from_multiple::<P>(stream);
    assert_eq!(batch.map_err(|e| e.to_string()), Ok(vec![P { b: 1 }, P { b: 2 }]));
}

#[test]
fn bom_before_a_later_document_is_not_content_for_the_iterator() {
    let stream = "b: 1\n...\n\u{FEFF}b: 2\n";
    let mut reader = std::io::Cursor::new(stream.as_bytes());
    let got: Vec<Result<P, String>> = serde_saphyr::read::<_, P>(&mut reader)
        .take(10)
        .map(|r| r.map_err(|e| e.to_string()))
        .collect();
    assert_eq!(got, vec![Ok(P { b: 1 }), Ok(P { b: 2 })]);
}
