// DEFECT 2 (property C12): a shared (anchored) string that is written as a block scalar loses
// its anchor; the aliases that refer to it read back as an error or as a different value
//
// Violated clause: "Every string ... serialized in any position ... deserializes back into the
// same type as the identical value - strings character for character" (values arriving through
// aliases included: RcAnchor / ArcAnchor are the crate's documented way to share a value).
//
// Minimal input (default options): two RcAnchor<String> that share the string "line1\nline2"
// (any string for which the serializer chooses a block style: it contains a line break, or it
// is a single line longer than folded_wrap_chars = 80).
//
// What the crate does:
//     a: |-            <- `&a1` is missing
//       line1
//       line2
//     b: *a1           <- "alias references unknown anchor"
// The pending anchor is not dropped either: it is attached to the NEXT node that happens to be
// written. In `[Some(shared), None, Some(shared)]` the output is
//     - |-\n  line1\n  line2\n- &a1 null\n- *a1
// which parses without error and silently reads back as [Some(..), None, None]: the third
// string has turned into None.
//
// What it should do: write `a: &a1 |-` (anchor before the block scalar header), as it does for
// plain and quoted scalars (`a: &a1 "x y"`).
//
// Cause: src/ser.rs, `serialize_str`: the block-scalar branch (`if let Some(style) =
// self.pending_str_style.take()`) writes the header without calling
// `write_scalar_prefix_if_anchor()`; only the fall-back to the quoted form and the plain path
// call it.
//
// Run: cargo test --offline --test defect_2

use serde::{Deserialize, Serialize};
use serde_saphyr::RcAnchor;
use std::rc::Rc;

#[derive(Serialize, Deserialize)]
struct Two {
    a: RcAnchor<String>,
    b: RcAnchor<String>,
}

#[test]
fn shared_multi_line_string_round_trips() {
    let s = Rc::new("line1\nline2".to_string());
    let v = Two { a: RcAnchor(s.clone()), b: RcAnchor(s) };
    let yaml = serde_saphyr::to_string(&v).unwrap();
    let back: Two = serde_saphyr::from_str(&yaml)
        .unwrap_or_else(|e| panic!("own output does not parse:\n{yaml}\n{e}"));
    assert_eq!(*back.a.0, "line1\nline2");
    assert_eq!(*back.b.0, "line1\nline2");
}

#[test]
fn shared_long_single_line_string_round_trips() {
    let text = "word ".repeat(30) + "end"; // > 80 characters: folded block scalar
    let s = Rc::new(text.clone());
    let v = vec![RcAnchor(s.clone()), RcAnchor(s)];
    let yaml = serde_saphyr::to_string(&v).unwrap();
    let back: Vec<RcAnchor<String>> = serde_saphyr::from_str(&yaml)
        .unwrap_or_else(|e| panic!("own output does not parse:\n{yaml}\n{e}"));
    assert_eq!(*back[0].0, text);
    assert_eq!(*back[1].0, text);
}

#[test]
fn anchor_does_not_leak_to_the_next_node() {
    // No parse error here: the data is silently changed.
    let s = Rc::new("line1\nline2".to_string());
    let v = vec![Some(RcAnchor(s.clone())), None, Some(RcAnchor(s))];
    let yaml = serde_saphyr::to_string(&v).unwrap();
    let back: Vec<Option<RcAnchor<String>>> = serde_saphyr::from_str(&yaml)
        .unwrap_or_else(|e| panic!("own output does not parse:\n{yaml}\n{e}"));
    let back: Vec<Option<String>> = back.into_iter().map(|o| o.map(|a| (*a.0).clone())).collect();
    assert_eq!(
        back,
        vec![Some("line1\nline2".to_string()), None, Some("line1\nline2".to_string())],
        "yaml was:\n{yaml}"
    );
}
