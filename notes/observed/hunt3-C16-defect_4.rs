// Defect 4 (C16): a type error for a field of a `#[serde(flatten)]`-ed struct is reported at the
// position of an unrelated mapping entry - the LAST key of the mapping - instead of at the
// offending node.
//
// Violated clause: "a type error at a node is reported at the position a span-carrying value would
// give for that node" / title: "Reported locations ... name the right node".
//
// Minimal input (Outer { #[serde(flatten)] inner: Inner { x: i32 }, y: i32, z: i32 }):
//     x: bad
//     y: 1
//     z: 2
//
// What the crate does: "error: line 3 column 1: invalid type: string "bad", expected i32", and the
// snippet puts the caret under `z` of `z: 2` - an entry that is perfectly valid. Error::location()
// is 3:1. (In a sequence of such structs the location is the last key of the offending element.)
// What it should do: report the node `bad` (1:4) - or, by the crate's convention for errors that
// serde's visitors raise for a mapping value, its key `x` (1:1); in no case another entry. When the
// right node is not known, no location is better than a wrong one.
//
// Cause: src/de_error.rs maybe_attach_fallback_location() + src/de.rs MA::next_key_seed
// (`fallback_guard.replace_location(location)`): the thread-local MISSING_FIELD_FALLBACK keeps the
// location of the key that was read last. With `flatten`, serde first drains the whole mapping
// into its `Content` buffer (every key passes through next_key_seed) and only then deserializes
// the flattened struct from the buffer; `invalid_type` raised at that point picks up the stale
// "current key", which is the last key of the mapping, and because the error then "already has a
// location" nothing corrects it afterwards. (The documentation only says that `Spanned<T>` inside
// `flatten` loses its location - not that errors get a wrong one.)
//
// Run: cargo test --offline --test defect_4

use serde::Deserialize;

#[derive(Debug, Deserialize)]
#[allow(dead_code)]
struct Inner {
    x: i32,
}

#[derive(Debug, Deserialize)]
#[allow(dead_code)]
struct Outer {
    #[serde(flatten)]
    inner: Inner,
    y: i32,
    z: i32,
}

#[test]
fn control_without_flatten_the_error_is_at_the_value() {
    #[derive(Debug, Deserialize)]
    #[allow(dead_code)]
    struct Plain {
        x: i32,
        y: i32,
        z: i32,
    }
    let err = serde_saphyr::from_str::<Plain>("x: bad\ny: 1\nz: 2\n").unwrap_err();
    let loc = err.location().unwrap();
    assert_eq!((loc.line(), loc.column()), (1, 4));
}

#[test]
fn flattened_field_type_error_is_not_reported_at_another_entry() {
    let yaml = "x: bad\ny: 1\nz: 2\n";
    let err = serde_saphyr::from_str::<Outer>(yaml).unwrap_err();
    assert!(err.to_string().contains("expected i32"), "{err}");
    if let Some(loc) = err.location() {
        assert_eq!(
            loc.line(),
            1,
            "the offending node `bad` (and its key `x`) is on line 1, reported {}:{}:\n{err}",
            loc.line(),
            loc.column()
        );
    }
}

#[test]
fn flattened_field_type_error_multibyte_in_sequence() {
    // second element, first entry is wrong; reported at the key `z` (2:17) of that element
    let yaml = "- {x: 1, y: 1, z: 2}\n- {x: 世界, y: 1, z: 2}\n";
    let err = serde_saphyr::from_str::<Vec<Outer>>(yaml).unwrap_err();
    if let Some(loc) = err.location() {
        assert!(
            loc.line() == 2 && loc.column() <= 7,
            "expected the node `世界` (2:7), its key (2:4) or the element (2:3), reported {}:{}:\n{err}",
            loc.line(),
            loc.column()
        );
    }
}
