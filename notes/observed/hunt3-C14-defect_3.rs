// C14 defect 3 (lower confidence - see "Documentation status"): a weak edge that is *serialized
// before* the strong owner of its target does not survive the round trip: the serializer writes the
// node's definition at the weak reference and an alias at the strong owner, and the reader rejects
// that text.
//
// Violated clause: "weak references resolve to their strong target or to null when dangling" and
// "it must hold for every sharing pattern and definition order" (quantified over "weak edges to
// live and dropped targets").
//
// Minimal input:
//
//     struct Team { lead: RcWeakAnchor<Person>, members: Vec<RcAnchor<Person>> }
//
// with `lead` pointing to `members[0]` (a live target that IS part of the document; the field
// order - weak first - is the only thing that matters).
//
// What the crate does: `to_string` gives
//
//     lead: &a1
//       name: Ada
//     members:
//       - *a1
//       - &a2
//         name: Bob
//
// i.e. the definition sits at the weak field. `from_str::<Team>` of that text fails with
//     "weak Rc anchor refers to unknown anchor; strong anchor must be defined before weak"
// (ArcWeakAnchor / ArcAnchor: same with "weak Arc anchor ...").
//
// What it should do: give back a `Team` whose `lead` upgrades to the allocation of `members[0]`.
// Either the reader accepts a definition at a weak site (build the `Rc`, park it in the anchor
// store so that the alias at the strong owner picks it up), or the serializer refuses / reorders
// instead of silently producing text its own reader cannot load.
//
// Cause:
//  * src/ser.rs, `TupleSer::serialize_field`, `TupleKind::AnchorWeak`, field #1: a live weak whose
//    pointer has not been seen yet is treated like a strong first sight (`alloc_anchor_for` ->
//    `fresh` -> `pending_anchor_id = Some(id)`, the value is serialized in full); the later strong
//    wrapper then finds the pointer in `anchors` and writes `*a1`.
//  * src/anchors.rs, `RcWeakAnchor::deserialize` / `ArcWeakAnchor::deserialize`
//    (`visit_newtype_struct`): the node is consumed with `IgnoredAny` and only looked up in the
//    store (`anchor_store::get_rc`), which is empty at that point -> error.
//
// Documentation status: the module documentation of src/anchors.rs says "During deserialization,
// the strong anchor must be fully parsed before any of its aliases (weak anchors) are
// encountered", so the reader's behaviour is a stated restriction on the *text*. Nothing tells the
// user that the crate's own serializer produces text violating that restriction whenever a weak
// field happens to be declared before the strong one; the round trip promised by the README
// ("To support round-tripping, the library can also deserialize into these anchor structures")
// then fails. The analogous situation for the recursive wrappers (link met before the node) is
// already on the list of known defects.
//
// Run: cargo test --offline --test defect_3

use serde::{Deserialize, Serialize};
use serde_saphyr::{ArcAnchor, ArcWeakAnchor, RcAnchor, RcWeakAnchor};
use std::rc::Rc;
use std::sync::Arc;

#[derive(Serialize, Deserialize)]
struct Person {
    name: String,
}

#[derive(Serialize, Deserialize)]
struct Team {
    lead: RcWeakAnchor<Person>,
    members: Vec<RcAnchor<Person>>,
}

#[test]
fn weak_field_declared_before_the_strong_owner_rc() {
    let ada = Rc::new(Person { name: "Ada".into() });
    let bob = Rc::new(Person { name: "Bob".into() });
    let team = Team {
        lead: RcWeakAnchor::from(&ada),
        members: vec![RcAnchor(ada), RcAnchor(bob)],
    };
    let yaml = serde_saphyr::to_string(&team).unwrap();
    let back: Team = serde_saphyr::from_str(&yaml)
        .unwrap_or_else(|e| panic!("the crate's own output does not read back: {e}\n{yaml}"));
    let lead = back.lead.upgrade().expect("the lead is alive: members[0] owns it");
    assert!(Rc::ptr_eq(&lead, &back.members[0].0));
    assert_eq!(lead.name, "Ada");
    assert_eq!(back.members[1].0.name, "Bob");
}

#[derive(Serialize, Deserialize)]
struct TeamArc {
    lead: ArcWeakAnchor<Person>,
    members: Vec<ArcAnchor<Person>>,
}

#[test]
fn weak_field_declared_before_the_strong_owner_arc() {
    let ada = Arc::new(Person { name: "Ada".into() });
    let team = TeamArc {
        lead: ArcWeakAnchor::from(&ada),
        members: vec![ArcAnchor(ada)],
    };
    let yaml = serde_saphyr::to_string(&team).unwrap();
    let back: TeamArc = serde_saphyr::from_str(&yaml)
        .unwrap_or_else(|e| panic!("the crate's own output does not read back: {e}\n{yaml}"));
    let lead = back.lead.upgrade().expect("the lead is alive: members[0] owns it");
    assert!(Arc::ptr_eq(&lead, &back.members[0].0));
}
