// Defect 3 (strictly speaking outside C15's call-history quantification, reported because it is
// silent data corruption found while auditing the serializer's anchor table): the serializer's
// pointer -> anchor table outlives the `Rc` it was keyed on, so a value that is created,
// serialized and dropped during one `to_string` call makes the NEXT, unrelated value that
// happens to be allocated at the same address come out as an alias of it.  The output then
// depends on allocator state, not only on the arguments ("A call's result depends only on its
// arguments"; "No anchor table ... survives ... in a way that can be observed").
//
// No optional features needed:  cargo test --offline --test defect_3
//
// Minimal input: a `Serialize` impl that emits three *different* temporaries
// `RcAnchor::wrapping(format!("value{i}"))` one after another (the situation of
// `#[serde(serialize_with = ..)]`, `#[serde(into = ..)]` or getter-based impls that build an
// `RcAnchor` view on the fly).
//
// What the crate does:   "- &a1 value0\n- *a1\n- *a1\n"   (value1 and value2 are lost; reading
// the document back gives ["value0", "value0", "value0"]).
// What it should do:     three distinct scalars value0 / value1 / value2 (an alias is only
// correct for an `Rc` that is still the same live allocation).
//
// Cause: src/ser.rs - `YamlSerializer::anchors: HashMap<usize /*ptr*/, AnchorId>` is keyed by
// the raw address taken in `impl Serialize for RcAnchor` (`Rc::as_ptr(&self.0) as usize`) and
// never learns that the allocation died; the allocator hands the same address to the next
// temporary of the same size.
use serde::ser::{Serialize, SerializeSeq, Serializer};
use serde_saphyr::RcAnchor;

struct Generated;

impl Serialize for Generated {
    fn serialize<S: Serializer>(&self, s: S) -> Result<S::Ok, S::Error> {
        let mut seq = s.serialize_seq(Some(3))?;
        for i in 0..3 {
            // a fresh, unshared value each time; dropped at the end of the iteration
            let tmp = RcAnchor::wrapping(format!("value{i}"));
            seq.serialize_element(&tmp)?;
        }
        seq.end()
    }
}

#[test]
fn temporaries_are_not_aliased_to_each_other() {
    let yaml = serde_saphyr::to_string(&Generated).expect("serializes");
    let back: Vec<String> = serde_saphyr::from_str(&yaml).expect("output parses");
    assert_eq!(
        back,
        vec!["value0".to_string(), "value1".to_string(), "value2".to_string()],
        "distinct values were written as aliases of a dead allocation:\n{yaml}"
    );
}
