//! Observed on the UNCHANGED crate (needs `--features garde`; run with
//! `--features garde,validator,miette,robotics`). This test FAILS on the unchanged worktree.
//!
//! Property C18 says every reported field path is mapped to the position where the field's
//! value is used. A failed field inside the payload of an externally tagged enum variant gets
//! no position at all (neither with snippets nor in plain rendering):
//!  * src/de.rs, `VariantAccess` for `VA` (`newtype_variant_seed`, `tuple_variant`,
//!    `struct_variant`) builds the payload deserializer with `YamlDeserializer::new(..)`, i.e.
//!    without the path recorder, so nothing below the enum is recorded;
//!  * even with the recorder, the YAML path has the variant name as an extra segment
//!    (`shape.Circle.radius`) that the validation path (`shape.radius`, resp. `shape[0].host`)
//!    lacks, and `PathMap::search` requires equal length.
//! Rendering uses `PathMap::search` without the ancestor fallback that `Error::locations()`
//! has, so not even the position of `shape` is shown. (Enums are outside the family of types the
//! property is quantified over; reported because the statement itself says "every".)
#![cfg(feature = "garde")]

use garde::Validate;
use serde::Deserialize;

#[derive(Debug, Deserialize, Validate)]
struct Endpoint {
    #[garde(length(min = 1))]
    host: String,
}

#[derive(Debug, Deserialize, Validate)]
enum Shape {
    Circle {
        #[garde(range(min = 1))]
        radius: u32,
    },
    Remote(#[garde(dive)] Endpoint),
}

#[derive(Debug, Deserialize, Validate)]
struct Root {
    #[garde(length(min = 1))]
    name: String,
    #[garde(dive)]
    shape: Shape,
}

#[test]
fn field_inside_struct_variant_is_located() {
    let yaml = "name: ok\nshape:\n  Circle:\n    radius: 0\n";
    let err = serde_saphyr::from_str_valid::<Root>(yaml).expect_err("must fail validation");
    let rendered = err.to_string();
    assert!(rendered.contains("shape.radius"), "{rendered}");
    assert!(
        rendered.contains("line 4 column 13") || rendered.contains("line 4, column 13"),
        "`radius` is used at line 4 column 13, got: {rendered}"
    );
}

#[test]
fn field_inside_newtype_variant_is_located() {
    let yaml = "name: ok\nshape:\n  Remote:\n    host: \"\"\n";
    let err = serde_saphyr::from_str_valid::<Root>(yaml).expect_err("must fail validation");
    let rendered = err.to_string();
    assert!(
        rendered.contains("line 4 column 11") || rendered.contains("line 4, column 11"),
        "`host` is used at line 4 column 11, got: {rendered}"
    );
}
