// C20 defect 6: a FlowSeq / FlowMap hint around a value that is not a collection of that kind
// (an `Option` that is `None`, a scalar, an enum struct variant, ...) is never consumed: it stays
// pending and switches the NEXT collection of the document to flow style. If that collection
// holds nodes that only have a block form the output is malformed.
// (The sibling case "hint nested inside a flow collection is not consumed there" was fixed in
// take_flow_for_seq / take_flow_for_map; this path is still open.)
//
// Violated clause: "The presentation wrappers (flow sequence, flow mapping, ...) affect only the
// layout of the emitted document: it deserializes to the same data as without them".
//
// Minimal input:
//     struct Doc { a: FlowSeq<Option<Vec<i32>>>, b: Vec<E> }   enum E { Va { a: i32 }, Nt(i32) }
//     a = None, b = [Va { a: 1 }, Nt(2)]
// The crate emits
//     a: null
//     b: [Va:
//       a: 1, Nt: 2]
// which the parser rejects ("while parsing a flow mapping, did not find expected ',' or '}'").
// Without the wrapper (`a: Option<Vec<i32>>`) the document is
//     a: null
//     b:
//       - Va:
//           a: 1
//       - Nt: 2
// Expected: the wrapper around `None` has no effect on `b`.
//
// Cause: src/ser.rs, serialize_newtype_struct: NAME_FLOW_SEQ / NAME_FLOW_MAP set
// `self.pending_flow` and serialize the inner value, but `pending_flow` is cleared only by
// take_flow_for_seq / take_flow_for_map, i.e. only if the inner value starts a sequence or a map.
// serialize_none / scalars / serialize_struct_variant / serialize_newtype_variant leave it set.
//
// Run: cargo test --offline --test defect_6

use serde::{Deserialize, Serialize};
use serde_saphyr::{FlowMap, FlowSeq};

#[derive(Serialize, Deserialize, Debug, PartialEq, Clone)]
enum E {
    Va { a: i32 },
    Nt(i32),
}

#[derive(Serialize)]
struct Wrapped {
    a: FlowSeq<Option<Vec<i32>>>,
    b: Vec<E>,
}

#[derive(Serialize, Deserialize, Debug, PartialEq)]
struct Bare {
    a: Option<Vec<i32>>,
    b: Vec<E>,
}

#[test]
fn flowseq_around_none_does_not_leak_to_the_next_sequence() {
    let items = vec![E::Va { a: 1 }, E::Nt(2)];
    let bare = Bare { a: None, b: items.clone() };
    let reference = serde_saphyr::to_string(&bare).unwrap();
    let back_ref: Bare = serde_saphyr::from_str(&reference).unwrap();
    assert_eq!(back_ref, bare);

    let yaml = serde_saphyr::to_string(&Wrapped { a: FlowSeq(None), b: items }).unwrap();
    let back: Bare = serde_saphyr::from_str(&yaml)
        .unwrap_or_else(|e| panic!("FlowSeq(None) broke the following sequence: {e}\n{yaml}"));
    assert_eq!(back, bare, "document:\n{yaml}");
}

#[derive(Serialize)]
struct Wrapped2 {
    a: FlowMap<E>,
    b: std::collections::BTreeMap<String, E>,
}
#[derive(Serialize, Deserialize, Debug, PartialEq)]
struct Bare2 {
    a: E,
    b: std::collections::BTreeMap<String, E>,
}

#[test]
fn flowmap_around_a_newtype_variant_of_a_scalar_does_not_leak_to_the_next_mapping() {
    let mut m = std::collections::BTreeMap::new();
    m.insert("k".to_string(), E::Va { a: 1 });
    let bare = Bare2 { a: E::Nt(5), b: m.clone() };
    let reference = serde_saphyr::to_string(&bare).unwrap();
    let back_ref: Bare2 = serde_saphyr::from_str(&reference).unwrap();
    assert_eq!(back_ref, bare);

    let yaml = serde_saphyr::to_string(&Wrapped2 { a: FlowMap(E::Nt(5)), b: m }).unwrap();
    let back: Bare2 = serde_saphyr::from_str(&yaml)
        .unwrap_or_else(|e| panic!("FlowMap(Nt(5)) broke the following mapping: {e}\n{yaml}"));
    assert_eq!(back, bare, "document:\n{yaml}");
}
