// Defect 3 (property C15) - no optional features needed (serde_json is a dev-dependency):
//   cargo test --offline --test defect_3
//
// Violated clause: "The result of any ... deserialization call is the same whether it is the
// first call on a fresh thread or ... is nested inside a user Deserialize implementation of - any
// ... other ... calls on the same thread. No anchor table ... survives ... in a way that can be
// observed." The thread-local "anchor-wrapper context" (src/anchor_store.rs `stack`) of the node
// being read is visible to - and used by - every `RcAnchor` / `ArcAnchor` / `Rc(Arc)Recursive` /
// weak wrapper that is deserialized *by any other deserializer* while that node is open.
//
// Minimal inputs
//  (a) pure serde-saphyr, one call: `RcAnchor<Outer>` where `Outer` has a `#[serde(flatten)]`
//      part with two `RcAnchor<String>` fields, read from
//          &o
//          name: n
//          x: hello
//          y: world
//      (serde reads flattened / untagged / internally tagged parts through its own buffering
//      deserializer, i.e. not through `YamlDeserializer`).
//  (b) a nested deserialization call: a user `Deserialize` impl that reads a scalar and parses it
//      with `serde_json::from_str::<(RcAnchor<String>, RcAnchor<String>)>`, used as the payload
//      of an anchored `RcAnchor<..>` node.
//
// What the crate does
//  (a) `y` silently becomes "hello" - the value (and allocation) of `x`. Without the `&o` on the
//      enclosing node the same document gives y = "world".
//  (b) the nested call returns ("hello", "hello") when it runs below an anchored node and
//      ("hello", "world") when it runs on its own / on a fresh thread / below a node without anchor.
//  With field types that differ the same leak gives the error "anchor id 1 reused with
//  incompatible Rc type" for a document that is fine (e.g. `- &a {..}` / `- *a` with a
//  flattened `RcAnchor<String>` inside `RcAnchor<Outer>`).
//
// What it should do: an `RcAnchor` that is not read from a YAML node carrying an anchor must get
// its own allocation holding its own value; the anchor id of an enclosing wrapper node must not
// be attributed to wrappers nested further down that are read by another deserializer.
//
// Cause: src/anchors.rs `RcAnchorVisitor::visit_newtype_struct` (and the Arc / recursive / weak
// siblings) call `anchor_store::current_rc_anchor()`, which returns the innermost entry of the
// thread-local stack pushed by src/de.rs `deserialize_newtype_struct("__yaml_rc_anchor")`.
// The visitor cannot tell whether that entry was pushed for *itself* or for an enclosing
// wrapper: a foreign deserializer (serde's Content deserializer, serde_json, ...) calls
// `visit_newtype_struct` without pushing anything, so the enclosing node's id is taken, the
// first nested wrapper is stored under it (`store_rc`) and the second one finds that entry
// (`get_rc`) and returns it instead of its own value.

use serde::Deserialize;
use serde_saphyr::RcAnchor;
use std::rc::Rc;

#[derive(Debug, Deserialize)]
struct Inner {
    x: RcAnchor<String>,
    y: RcAnchor<String>,
}

#[derive(Debug, Deserialize)]
struct Outer {
    name: String,
    #[serde(flatten)]
    inner: Inner,
}

#[test]
fn flattened_anchor_fields_below_an_anchored_node_keep_their_own_values() {
    // Reference: no anchor on the enclosing node.
    let plain: RcAnchor<Outer> =
        serde_saphyr::from_str("name: n\nx: hello\ny: world\n").unwrap();
    assert_eq!(plain.name, "n");
    assert_eq!((plain.inner.x.0.as_str(), plain.inner.y.0.as_str()), ("hello", "world"));

    // Same content, the enclosing node carries an anchor.
    let anchored: RcAnchor<Outer> =
        serde_saphyr::from_str("&o\nname: n\nx: hello\ny: world\n").unwrap();
    assert!(
        !Rc::ptr_eq(&anchored.inner.x.0, &anchored.inner.y.0),
        "x and y are two different nodes but share one allocation"
    );
    assert_eq!(
        (anchored.inner.x.0.as_str(), anchored.inner.y.0.as_str()),
        ("hello", "world"),
        "an anchor on the enclosing node changed the value of a field"
    );
}

#[test]
fn alias_of_a_node_with_a_flattened_anchor_field_is_accepted() {
    #[derive(Debug, Deserialize)]
    struct In1 {
        x: RcAnchor<String>,
    }
    #[derive(Debug, Deserialize)]
    struct Out1 {
        name: String,
        #[serde(flatten)]
        inner: In1,
    }
    let r = serde_saphyr::from_str::<Vec<RcAnchor<Out1>>>("- &o\n  name: n\n  x: hello\n- *o\n");
    let v = r.expect("a valid document with one anchor and one alias");
    assert!(Rc::ptr_eq(&v[0].0, &v[1].0));
    assert_eq!(v[0].name, "n");
    assert_eq!(*v[0].inner.x.0, "hello");
}

// (b) a deserialization call nested inside a user Deserialize impl.
fn nested_call() -> (String, String, bool) {
    let (a, b): (RcAnchor<String>, RcAnchor<String>) =
        serde_json::from_str(r#"["hello", "world"]"#).unwrap();
    ((*a.0).clone(), (*b.0).clone(), Rc::ptr_eq(&a.0, &b.0))
}

#[derive(Debug)]
struct RunsNestedCall((String, String, bool));

impl<'de> Deserialize<'de> for RunsNestedCall {
    fn deserialize<D: serde::Deserializer<'de>>(d: D) -> Result<Self, D::Error> {
        let _ = String::deserialize(d)?;
        Ok(RunsNestedCall(nested_call()))
    }
}

#[test]
fn nested_deserialization_call_gives_the_fresh_thread_result() {
    let fresh = std::thread::spawn(nested_call).join().unwrap();
    assert_eq!(fresh, ("hello".to_string(), "world".to_string(), false));

    let below_plain_node: RcAnchor<RunsNestedCall> = serde_saphyr::from_str("v\n").unwrap();
    assert_eq!(below_plain_node.0 .0, fresh);

    let below_anchored_node: RcAnchor<RunsNestedCall> = serde_saphyr::from_str("&a v\n").unwrap();
    assert_eq!(
        below_anchored_node.0 .0, fresh,
        "the nested call saw the anchor context of the enclosing document"
    );
}
