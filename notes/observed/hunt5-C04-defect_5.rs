// C04 defect 5: under FirstWins the discarded later entry still takes effect on the rest of the
// document: an anchor (re)defined inside the discarded value is what later aliases resolve to.
//
// Violated clause: "FirstWins gives the result of the document with every later entry (its key
// and its whole value) deleted".
//
// Minimal input:   a: &x 1
//                  a: &x 2
//                  b: *x
//
// (Redefining an anchor is legal YAML; an alias refers to the most recent definition.)
// The document with the later entry deleted is `a: &x 1\nb: *x`, whose result is {a: 1, b: 1}.
// What the crate does: FirstWins -> {a: 1, b: 2}: the value `2` that the policy claims to have
//   discarded ("later duplicate pairs are skipped (key+value are consumed and ignored)",
//   src/options.rs) shows up under `b`.
// What it should do: {a: 1, b: 1}. (Same for a container value: `a: &x [1]` / `a: &x [2, 3]`.)
//
// Cause: src/de.rs MA::skip_one_node (and capture_node for the key) pull the discarded node
// through `self.ev.next()`, i.e. through LiveEvents::next_impl (src/live_events.rs), which
// records every anchored node it produces into `self.anchors[anchor_id]`, overwriting the
// earlier definition. Skipping would have to suppress (or undo) anchor recording for the
// discarded node.

use serde_saphyr::options::DuplicateKeyPolicy;
use std::collections::BTreeMap;

#[test]
fn control_deduplicated_document() {
    let opts = serde_saphyr::options! { duplicate_keys: DuplicateKeyPolicy::FirstWins };
    let m: BTreeMap<String, i32> = serde_saphyr::from_str_with_options("a: &x 1\nb: *x\n", opts).unwrap();
    assert_eq!(m, BTreeMap::from([("a".to_string(), 1), ("b".to_string(), 1)]));
}

#[test]
fn first_wins_discarded_scalar_value_redefines_anchor() {
    let opts = serde_saphyr::options! { duplicate_keys: DuplicateKeyPolicy::FirstWins };
    let m: BTreeMap<String, i32> =
        serde_saphyr::from_str_with_options("a: &x 1\na: &x 2\nb: *x\n", opts).unwrap();
    assert_eq!(
        m,
        BTreeMap::from([("a".to_string(), 1), ("b".to_string(), 1)]),
        "must equal the result of `a: &x 1\\nb: *x`"
    );
}

#[test]
fn first_wins_discarded_sequence_value_redefines_anchor() {
    let opts = serde_saphyr::options! { duplicate_keys: DuplicateKeyPolicy::FirstWins };
    let m: BTreeMap<String, Vec<i32>> =
        serde_saphyr::from_str_with_options("a: &x [1]\na: &x [2, 3]\nb: *x\n", opts).unwrap();
    assert_eq!(m.get("b"), Some(&vec![1]));
}
