//! Observed on the UNCHANGED crate (property C14, serializer side).
//!
//! A wrapper directly inside a wrapper (`RcAnchor<ArcAnchor<T>>`, no struct in between): both
//! wrappers allocate an anchor for the same YAML node, the inner one overwrites
//! `pending_anchor_id`, and the outer anchor is never written although later sights of the outer
//! pointer are emitted as aliases to it:
//!     a: &a2
//!       v: 1
//!     b: *a1        # a1 is never defined -> "unknown anchor"
use serde::{Deserialize, Serialize};
use serde_saphyr::{ArcAnchor, RcAnchor};
use std::rc::Rc;

#[derive(Serialize, Deserialize)]
struct Leaf {
    v: i32,
}
#[derive(Serialize, Deserialize)]
struct Doc {
    a: RcAnchor<ArcAnchor<Leaf>>,
    b: RcAnchor<ArcAnchor<Leaf>>,
}

#[test]
fn directly_nested_wrappers_round_trip() {
    let n = Rc::new(ArcAnchor::wrapping(Leaf { v: 1 }));
    let doc = Doc { a: RcAnchor(n.clone()), b: RcAnchor(n) };
    let yaml = serde_saphyr::to_string(&doc).unwrap();
    let back: Doc = serde_saphyr::from_str(&yaml).unwrap_or_else(|e| panic!("{e}\nyaml:\n{yaml}"));
    assert!(Rc::ptr_eq(&back.a.0, &back.b.0));
    assert_eq!(back.b.0.0.v, 1);
}
