// C02 defect 4: a null that carries an anchor is no longer a null for the weak wrapper types.
//
// Property clause violated:
//   "Attaching an anchor to a node never changes that node's own value"
// Crate documentation (src/anchors.rs, `RcWeakAnchor`): "`null` deserializes back into a
// dangling weak (`Weak::new()`)".
//
// Minimal input:   - ~        -> [RcWeakAnchor(dangling)]
//                  - &a ~     -> Err("weak Rc anchor refers to unknown anchor; strong anchor
//                                must be defined before weak")
//                  - &a       (omitted node with an anchor) -> same error
//   target: Vec<RcWeakAnchor<u32>>   (same for ArcWeakAnchor, RcRecursion, ArcRecursion)
// and consequently "- &a ~\n- *a\n" fails while its expansion "- ~\n- ~\n" gives two
// dangling weaks.
//
// Cause: src/de.rs `deserialize_newtype_struct`, arms "__yaml_rc_weak_anchor" /
// "__yaml_arc_weak_anchor" / "__yaml_rc_recursion" / "__yaml_arc_recursion": the null short
// cut is taken only `if anchor.is_none() && self.take_unanchored_null()?`
// (`take_unanchored_null` demands `anchor == 0`). An anchored null therefore goes down the
// "must be an alias of a strong anchor" path, where no strong anchor of that id exists.
// A fallback to "null -> dangling" when the store has no strong anchor for the id would keep
// `RcAnchor<Option<T>>` + weak alias working and make the anchor mark transparent.
//
// Run: cargo test --offline --test defect_4

use serde_saphyr::RcWeakAnchor;

#[test]
fn anchored_null_is_still_a_dangling_weak() {
    let plain: Vec<RcWeakAnchor<u32>> = serde_saphyr::from_str("- ~\n").expect("plain null");
    assert!(plain[0].0.upgrade().is_none());

    let anchored: Vec<RcWeakAnchor<u32>> = serde_saphyr::from_str("- &a ~\n")
        .unwrap_or_else(|e| panic!("the anchor mark changed the outcome: {e}"));
    assert!(anchored[0].0.upgrade().is_none());
}

#[test]
fn alias_of_anchored_null_equals_its_expansion() {
    let expanded: Vec<RcWeakAnchor<u32>> = serde_saphyr::from_str("- ~\n- ~\n").expect("expansion");
    assert_eq!(expanded.len(), 2);

    let aliased: Vec<RcWeakAnchor<u32>> = serde_saphyr::from_str("- &a ~\n- *a\n")
        .unwrap_or_else(|e| panic!("aliased document must read like its expansion: {e}"));
    assert!(aliased.iter().all(|w| w.0.upgrade().is_none()));
}
