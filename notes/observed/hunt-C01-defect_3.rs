// DEFECT 3 (property C01): the validating entry points (`from_str_valid`, `from_str_validate`,
// `from_reader_valid`, ... - features `garde` / `validator`) need (nesting depth) x (number of
// nodes) memory: a document inside every limit of the default budget exhausts memory
// (allocation failure = abort / OOM kill), although the plain entry points parse it in a few MB.
//
// Run with:  cargo test --offline --features garde,validator,miette,robotics --test defect_3
// (only `garde` is really needed).
//
// Violated clause: "Every deserialization entry point, given any byte sequence ..., any option
// configuration and any target type, returns either a value or an error value: it never panics,
// never aborts the process ... while the default budget is in force".
//
// Minimal input (shape), for  struct Node { child: Option<Box<Node>>, items: Vec<u32> } :
//
//     child:
//      child:
//       child:
//        ...            (D levels)
//          items: [1,1,1,1, ... N times ...]
//
// What the crate does: with a path recorder attached (src/de.rs, SA::next_element_seed and
// MA::next_value_seed under cfg(garde|validator)) every sequence element and every mapping value
// inserts its FULL path into `PathRecorder::map` (`prev.clone().join(..)`, then
// `recorder.map.insert(now, ..)`): a `PathKey` is a Vec of one heap-allocated `PathSegment`
// (String) per ancestor. N leaves below D ancestors store N x D segments (~90 bytes each).
// Measured in a release build:
//     D = 200, N = 20 000 (60 KB of YAML): from_str 0 MB extra, from_str_valid ~350 MB (and 100x
//     the time).
// The default budget allows depth 2000 and 250 000 nodes: D = 1900, N = 240 000 (a 2.3 MB
// document) needs 1900 x 240 000 x ~90 B = ~40 GB before validation even starts.
//
// What it should do: stay O(input) (e.g. store a parent link instead of a copy of the parent's
// path), or fail with a budget error.
//
// Cause: src/path_map.rs PathRecorder / PathKey (full-path keys), src/de.rs the
// `recorder.map.insert(now, Locations { .. })` blocks in deserialize_seq / deserialize_map.
//
// The test uses a scaled-down instance (D = 150, N = 12 000, a 35 KB document) and compares the
// growth of the peak resident set size (Linux: VmHWM in /proc/self/status) of `from_str` and
// `from_str_valid`. The parse runs on a thread with a big stack so that the (already known) stack
// consumption of unoptimized builds plays no role.

#![cfg(feature = "garde")]

use garde::Validate;
use serde::Deserialize;

#[derive(Debug, Deserialize, Validate)]
struct Node {
    #[garde(dive)]
    child: Option<Box<Node>>,
    #[garde(skip)]
    #[serde(default)]
    items: Vec<u32>,
}

fn vm_hwm_kb() -> usize {
    let status = std::fs::read_to_string("/proc/self/status").expect("Linux /proc needed");
    for line in status.lines() {
        if let Some(rest) = line.strip_prefix("VmHWM:") {
            return rest.trim().trim_end_matches("kB").trim().parse().unwrap();
        }
    }
    panic!("no VmHWM line");
}

fn doc(depth: usize, leaves: usize) -> String {
    let mut y = String::new();
    for i in 0..depth {
        y.push_str(&" ".repeat(i));
        y.push_str("child:\n");
    }
    y.push_str(&" ".repeat(depth));
    y.push_str("items: [");
    for _ in 0..leaves {
        y.push_str("1,");
    }
    y.push_str("]\n");
    y
}

fn count(n: &Node) -> usize {
    n.items.len() + n.child.as_deref().map_or(0, count)
}

#[test]
fn validating_entry_point_does_not_multiply_memory() {
    const DEPTH: usize = 150;
    const LEAVES: usize = 12_000;

    let (plain_mb, valid_mb, len) = std::thread::Builder::new()
        .stack_size(256 * 1024 * 1024)
        .spawn(|| {
            let yaml = doc(DEPTH, LEAVES);

            let before = vm_hwm_kb();
            let plain: Node = serde_saphyr::from_str(&yaml).expect("valid document");
            assert_eq!(count(&plain), LEAVES);
            drop(plain);
            let mid = vm_hwm_kb();

            let valid: Node = serde_saphyr::from_str_valid(&yaml).expect("valid document");
            assert_eq!(count(&valid), LEAVES);
            let after = vm_hwm_kb();

            ((mid - before) / 1024, (after - mid) / 1024, yaml.len())
        })
        .unwrap()
        .join()
        .unwrap();

    eprintln!("document {len} bytes; peak RSS growth: from_str {plain_mb} MB, from_str_valid +{valid_mb} MB");
    assert!(len < 64 * 1024);
    // 48 MB is more than a thousand times the size of the document.
    assert!(
        valid_mb < 48,
        "from_str_valid needed {valid_mb} MB more than from_str ({plain_mb} MB) for a {len}-byte \
         document ({DEPTH} levels, {LEAVES} leaves); at the limits of the default budget \
         (depth 2000, 250 000 nodes) this scales to tens of GB"
    );
}
