// C04 defect 3: a mapping used as a key is not recognised as repeated when its entries are
// written in a different order.
//
// Violated clause: "When the same key node (same structure, scalar text and tag; scalar,
// sequence or mapping) occurs more than once among a mapping's own entries, the Error policy
// fails ..., FirstWins gives the result of the document with every later entry ... deleted".
// A YAML mapping node is an unordered set of key/value pairs (YAML 1.2.2, 3.2.1.1 "the order
// of mapping keys is a presentation detail", and node equality in 3.2.1.3: two mappings are
// equal when they have the same keys with equal values), so `{a: 1, b: 2}` and `{b: 2, a: 1}`
// are the same key node - and they are the same key for every target that can hold them
// (BTreeMap<BTreeMap<String, i32>, _> below: the second entry silently overwrites the first).
//
// Minimal input:   ? {a: 1, b: 2}
//                  : first
//                  ? {b: 2, a: 1}
//                  : second
//
// What the crate does: Error -> Ok with one entry holding "second" (silent overwrite, the very
//   thing the default policy exists to prevent); FirstWins -> the later entry is delivered and
//   wins ("second").
// What it should do: Error -> DuplicateMappingKey at line 3, column 3; FirstWins -> "first".
//
// Cause: src/de.rs, KeyFingerprint::Mapping(Vec<(KeyFingerprint, KeyFingerprint)>) built in
// capture_node in document order and compared / hashed as an ordered list
// (derive(PartialEq, Hash)). The pairs should be brought into a canonical order (e.g. sorted by
// a total order on fingerprints) before the fingerprint is used.

use serde_saphyr::options::DuplicateKeyPolicy;
use std::collections::BTreeMap;

type T = BTreeMap<BTreeMap<String, i32>, String>;

const YAML2: &str = "? {a: 1, b: 2}\n: first\n? {b: 2, a: 1}\n: second\n";

#[test]
fn control_same_order_is_a_duplicate() {
    let opts = serde_saphyr::options! { duplicate_keys: DuplicateKeyPolicy::Error };
    let r: Result<T, _> =
        serde_saphyr::from_str_with_options("? {a: 1, b: 2}\n: first\n? {a: 1, b: 2}\n: second\n", opts);
    assert!(r.unwrap_err().to_string().contains("duplicate mapping key"));
}

#[test]
fn error_policy_reordered_mapping_key() {
    let opts = serde_saphyr::options! { duplicate_keys: DuplicateKeyPolicy::Error };
    let r: Result<T, _> = serde_saphyr::from_str_with_options(YAML2, opts);
    assert!(
        matches!(&r, Err(e) if e.to_string().contains("duplicate mapping key")),
        "the key {{a: 1, b: 2}} occurs twice, got {:?}",
        r.map_err(|e| e.to_string())
    );
}

#[test]
fn first_wins_reordered_mapping_key() {
    let opts = serde_saphyr::options! { duplicate_keys: DuplicateKeyPolicy::FirstWins };
    let m: T = serde_saphyr::from_str_with_options(YAML2, opts).unwrap();
    assert_eq!(m.len(), 1);
    assert_eq!(
        m.values().next().map(String::as_str),
        Some("first"),
        "FirstWins must keep the first entry of the repeated key"
    );
}

#[test]
fn nested_in_a_sequence_key() {
    // the same, one level down: [ {a: 1, b: 2} ] / [ {b: 2, a: 1} ]
    type S = BTreeMap<Vec<BTreeMap<String, i32>>, String>;
    let yaml = "? [{a: 1, b: 2}]\n: first\n? [{b: 2, a: 1}]\n: second\n";
    let opts = serde_saphyr::options! { duplicate_keys: DuplicateKeyPolicy::FirstWins };
    let m: S = serde_saphyr::from_str_with_options(yaml, opts).unwrap();
    assert_eq!(m.values().next().map(String::as_str), Some("first"));
}
