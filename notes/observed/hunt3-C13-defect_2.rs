// C13 defect 2: a block SEQUENCE used as a composite mapping key is only laid out correctly
// for indent_step == 2 with compact_list_indent == false.
//
// Violated clause: "... maps with string, non-string and composite keys ... and every valid
// serializer option set, the emitted text is a single well-formed YAML document that
// deserializes back into an equal value" (quantified over "all combinations of indent step,
// compact list indent, ...").
//
// Minimal input: BTreeMap<Vec<i32>, i32> { [1, 2]: 3 }
//   compact_list_indent: true (indent_step 2)        indent_step: 4 (or 3, 5, ...)
//       ? - 1                                             ? - 1
//       - 2        <- column 0, left of "? "                  - 2     <- column 4, first dash is in 2
//       : 3                                               : 3
// Both texts are rejected ("did not find expected key" / "invalid i32": the second form folds
// into the scalar "1 - 2").  Expected: every item of the key sequence in the column of the
// first dash (two columns right of '?'):  "? - 1\n  - 2\n: 3\n".
// The same happens to a tuple variant / sequence-carrying newtype variant used as a key with
// compact_list_indent ("? Tv:\n- 1\n- 2\n: x").
//
// Cause: src/ser.rs, serialize_seq. In key position ("? " has just been written, mid-line,
// after_dash_depth == None) the sequence takes the `was_inline_value` path: the first dash
// stays inline right after "? " (column depth*step + 2) but `depth_next` for the remaining
// items is `current_map_depth + 1` (or `current_map_depth` with compact_list_indent), i.e.
// a multiple of the step that coincides with the first dash only when step == 2 and the
// compact option is off. (The repaired "- - x" case got a `indent_step == 2` guard; the
// "? - x" case has none.)
//
// Run: cargo test --offline --test defect_2
use serde::{Deserialize, Serialize};
use serde_saphyr::ser_options;
use std::collections::BTreeMap;

#[derive(Debug, Clone, PartialEq, Eq, PartialOrd, Ord, Serialize, Deserialize)]
enum En {
    Tv(i32, i32),
}

fn key_map() -> BTreeMap<Vec<i32>, i32> {
    let mut m = BTreeMap::new();
    m.insert(vec![1, 2], 3);
    m
}

#[test]
fn sequence_key_with_compact_list_indent() {
    let m = key_map();
    let yaml =
        serde_saphyr::to_string_with_options(&m, ser_options! { compact_list_indent: true })
            .unwrap();
    let back: BTreeMap<Vec<i32>, i32> = serde_saphyr::from_str(&yaml)
        .unwrap_or_else(|e| panic!("emitted text does not read back: {e}\n{yaml}"));
    assert_eq!(back, m, "emitted:\n{yaml}");
}

#[test]
fn sequence_key_with_indent_step_4() {
    let m = key_map();
    let yaml = serde_saphyr::to_string_with_options(&m, ser_options! { indent_step: 4 }).unwrap();
    let back: BTreeMap<Vec<i32>, i32> = serde_saphyr::from_str(&yaml)
        .unwrap_or_else(|e| panic!("emitted text does not read back: {e}\n{yaml}"));
    assert_eq!(back, m, "emitted:\n{yaml}");
}

#[test]
fn sequence_key_with_indent_step_3() {
    let m = key_map();
    let yaml = serde_saphyr::to_string_with_options(&m, ser_options! { indent_step: 3 }).unwrap();
    let back: BTreeMap<Vec<i32>, i32> = serde_saphyr::from_str(&yaml)
        .unwrap_or_else(|e| panic!("emitted text does not read back: {e}\n{yaml}"));
    assert_eq!(back, m, "emitted:\n{yaml}");
}

#[test]
fn tuple_variant_key_with_compact_list_indent() {
    let mut m: BTreeMap<En, String> = BTreeMap::new();
    m.insert(En::Tv(1, 2), "x".to_string());
    let yaml =
        serde_saphyr::to_string_with_options(&m, ser_options! { compact_list_indent: true })
            .unwrap();
    let back: BTreeMap<En, String> = serde_saphyr::from_str(&yaml)
        .unwrap_or_else(|e| panic!("emitted text does not read back: {e}\n{yaml}"));
    assert_eq!(back, m, "emitted:\n{yaml}");
}
