// Observed on the UNCHANGED crate (property C19, clause "degree quantities converted to radians
// exactly once"). NEEDS feature `robotics`:
//   cargo test --features garde,validator,miette,robotics --test observed_defect_3
//
// (a) Inside a unit function a sexagesimal literal is "angle mode": try_parse_sexagesimal returns
//     the plain number of DEGREES and leaves the conversion to "the wrapping unit". deg(...)
//     converts, but rad(...) does not convert at all, so rad(1:30) == 1.5: a quantity that the
//     module documentation calls "sexagesimal degrees ... converted to radians" is converted
//     zero times. The same literal is converted when the tag says radians:
//       !radians 1:30       -> 0.02617...  (1.5 degrees in radians)
//       !radians rad(1:30)  -> 1.5
//       rad(1:30)           -> 1.5
// (b) deg(deg(90)) multiplies by pi/180 twice (0.0274...): the inner call already yields
//     radians, the outer call takes them for degrees again. Neither "converted exactly once" nor
//     "mixed units rejected" holds for nested unit functions (deg(rad(1)) == 0.01745... likewise).
// Which of the two readings (reject / convert once) is intended is open; the test encodes
// "a degree quantity ends up converted exactly once or is rejected".
// This test FAILS on the unchanged worktree.
#![cfg(feature = "robotics")]

use core::f64::consts::PI;
use serde::Deserialize;
use serde_saphyr::from_str_with_options;

#[derive(Debug, Deserialize)]
struct F64 {
    x: f64,
}

fn read(scalar: &str) -> Result<f64, String> {
    let yaml = format!("x: {scalar}\n");
    let options = serde_saphyr::options! { angle_conversions: true };
    from_str_with_options::<F64>(&yaml, options)
        .map(|v| v.x)
        .map_err(|e| e.to_string())
}

const DEG2RAD: f64 = PI / 180.0;

#[test]
fn sexagesimal_degrees_inside_rad_are_converted_once_or_rejected() {
    let once = 1.5 * DEG2RAD;
    assert_eq!(read("!radians 1:30"), Ok(once));
    assert_eq!(read("deg(1:30)"), Ok(once));
    for s in ["rad(1:30)", "!radians rad(1:30)", "!degrees rad(1:30)"] {
        match read(s) {
            Err(_) => {}
            Ok(v) => assert_eq!(v, once, "`{s}`: 1 deg 30 min must not come out as {v} radians"),
        }
    }
}

#[test]
fn nested_deg_converts_once_or_is_rejected() {
    match read("deg(deg(90))") {
        Err(_) => {}
        Ok(v) => assert_eq!(v, 90.0 * DEG2RAD, "deg(deg(90)) converted more than once"),
    }
}
