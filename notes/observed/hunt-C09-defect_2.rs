// DEFECT 2 (C09): a retryable `ErrorKind::Interrupted` from the reader is retried when it falls
// on a character boundary, but turns into a fatal I/O error when it falls between the bytes of a
// multi-byte character.
//
// Violated clause: "from_reader - under every partition of the bytes into read calls, including
// splits inside a multi-byte character - return the same value [...]" and the mechanism "reader
// bytes are decoded and re-assembled into chars one code point at a time".
// `std::io::Read` documents `Interrupted` as "non-fatal; the read operation should be retried",
// and the crate does retry it - but only for the first byte of a character.
//
// Minimal input: "a: é\n", delivered as  b"a: \xC3" | Err(Interrupted) | b"\xA9\n".
//
// What the crate does:
//   split at the character boundary (b"a: " | Interrupted | "é\n")  -> Ok({"a": "é"})
//   split inside `é`                                                 -> Err(IO error: invalid UTF-8
//                                                                      leading byte)
//   from_str / from_slice of the same text                           -> Ok({"a": "é"})
// What it should do: retry the read and return {"a": "é"} in both cases.
//
// Cause: src/buffered_input.rs `ChunkedChars::next`. The loop that reads the first byte has
// `Err(e) if e.kind() == io::ErrorKind::Interrupted => continue`, the loop that reads the
// continuation bytes (`while read < needed - 1`) has only `Err(e) => { self.err.replace(Some(e));
// return None; }`. The lead byte is dropped, so the next call sees the continuation byte 0xA9 as
// a lead byte and overwrites the stored error with "invalid UTF-8 leading byte". Neither
// `BufReader` nor `encoding_rs_io::DecodeReaderBytes` retries `Interrupted` on its own.

use std::io::{self, Read};

/// Delivers the given chunks one per `read` call; `None` is one `Interrupted` error.
struct Script {
    steps: Vec<Option<Vec<u8>>>,
    next: usize,
}

impl Read for Script {
    fn read(&mut self, buf: &mut [u8]) -> io::Result<usize> {
        if buf.is_empty() {
            return Ok(0);
        }
        loop {
            let Some(step) = self.steps.get_mut(self.next) else {
                return Ok(0);
            };
            match step {
                None => {
                    self.next += 1;
                    return Err(io::Error::new(io::ErrorKind::Interrupted, "EINTR"));
                }
                Some(bytes) if bytes.is_empty() => {
                    self.next += 1;
                }
                Some(bytes) => {
                    let n = bytes.len().min(buf.len());
                    buf[..n].copy_from_slice(&bytes[..n]);
                    bytes.drain(..n);
                    return Ok(n);
                }
            }
        }
    }
}

fn read_with_interrupt_at(text: &str, at: usize) -> Result<serde_json::Value, String> {
    let bytes = text.as_bytes();
    let reader = Script {
        steps: vec![Some(bytes[..at].to_vec()), None, Some(bytes[at..].to_vec())],
        next: 0,
    };
    serde_saphyr::from_reader::<_, serde_json::Value>(reader).map_err(|e| e.to_string())
}

#[test]
fn interrupted_between_the_bytes_of_a_character_is_retried() {
    let text = "a: é\n";
    let expected: serde_json::Value = serde_saphyr::from_str(text).unwrap();

    // control: the same interruption on a character boundary is retried
    assert_eq!(read_with_interrupt_at(text, 3), Ok(expected.clone()));

    // `é` is bytes 3..5; interrupt between them
    assert_eq!(read_with_interrupt_at(text, 4), Ok(expected));
}
