#!/usr/bin/env python3
"""Validation aid (not part of the checks): apply one named mutant / candidate fix to a scratch copy of /repo.
Usage: C14_MUTROOT=/tmp/x python3 mutants-C14-C15.py <name>   (expects /tmp/x/src and a pristine /tmp/x/src.orig);
then build a copy of the harness whose path dependency points at /tmp/x and run `<bin> run quick`."""
import sys,shutil,os,re
ROOT=os.environ.get('C14_MUTROOT','/tmp/c14-mut'); SRC=ROOT+'/src'; ORIG=ROOT+'/src.orig'
def restore():
    shutil.rmtree(SRC); shutil.copytree(ORIG,SRC)
def rep(f,a,b,count=1):
    p=os.path.join(SRC,f); s=open(p).read()
    assert s.count(a)==count,(f,s.count(a),a)
    open(p,'w').write(s.replace(a,b))
STRIP='''match ev {
                Ev::Scalar { value, tag, raw_tag, style, location, .. } => Ev::Scalar { value, tag, raw_tag, style, anchor: 0, location },
                Ev::SeqStart { tag, raw_tag, location, .. } => Ev::SeqStart { anchor: 0, tag, raw_tag, location },
                Ev::MapStart { location, .. } => Ev::MapStart { anchor: 0, location },
                other => other,
            }'''
M={}
def m(f): M[f.__name__]=f; return f
@m
def none(): pass
@m
def ser_always_new():
    rep('ser.rs','    fn alloc_anchor_for(&mut self, ptr: usize) -> (AnchorId, bool) {\n','    fn alloc_anchor_for(&mut self, ptr: usize) -> (AnchorId, bool) {\n        let ptr = ptr.wrapping_add(self.next_anchor_id as usize * 7919);\n')
@m
def ser_strong_always_new():
    rep('ser.rs',"""                        let (id, fresh) = self.ser.alloc_anchor_for(ptr);
                        if fresh {
                            self.ser.pending_anchor_id = Some(id); // define before value
                            self.strong_alias_id = None;""","""                        let (mut id, mut fresh) = self.ser.alloc_anchor_for(ptr);
                        if !fresh {
                            id = self.ser.next_anchor_id;
                            self.ser.next_anchor_id += 1;
                            self.ser.anchors.insert(ptr, id);
                            fresh = true;
                        }
                        if fresh {
                            self.ser.pending_anchor_id = Some(id); // define before value
                            self.strong_alias_id = None;""")
@m
def ser_key_coarse():
    rep('ser.rs','    fn alloc_anchor_for(&mut self, ptr: usize) -> (AnchorId, bool) {\n','    fn alloc_anchor_for(&mut self, ptr: usize) -> (AnchorId, bool) {\n        let ptr = ptr & !0xff;\n')
@m
def de_skip_store_rc():
    rep('anchors.rs','                    anchor_store::store_rc(id, rc.clone());\n','')
@m
def de_skip_store_arc():
    rep('anchors.rs','                    anchor_store::store_arc(id, arc.clone());\n','')
@m
def replay_loses_anchor():
    rep('live_events.rs','            let ev = buf[*idx].clone();\n','            let ev = buf[*idx].clone();\n            let ev = '+STRIP+';\n')
@m
def record_nested_loses_anchor():
    # nested events recorded into enclosing frames lose their anchor id (the seeded first event keeps it)
    p=os.path.join(SRC,'live_events.rs'); s=open(p).read()
    a=s.index('    fn record(&mut self, ev: &Ev<\'a>, is_start: bool, seeded_new_frame: bool) {')
    b=s.index('    /// Increase recording depth for all active anchored frames on a container start.')
    body=s[a:b]
    body=body.replace('        if self.rec_stack.is_empty() {\n            return;\n        }\n','        if self.rec_stack.is_empty() {\n            return;\n        }\n        let stripped = { let ev = ev.clone(); '+STRIP+' };\n        let ev = &stripped;\n')
    open(p,'w').write(s[:a]+body+s[b:])
@m
def weak_emits_value():
    rep('ser.rs','                                self.weak_alias_id = Some(id); // alias in field #3','                                self.weak_alias_id = None;')
@m
def strong_emits_value():
    rep('ser.rs','                            self.strong_alias_id = Some(id); // alias instead of value','                            self.strong_alias_id = None;')
@m
def rec_store_late():
    rep('anchors.rs','''                    let rc = Rc::new(RefCell::new(None));
                    anchor_store::store_rc_recursive(id, rc.clone());

                    let value = T::deserialize(deserializer)?;
                    *rc.borrow_mut() = Some(value);''','''                    let rc = Rc::new(RefCell::new(None));

                    let value = T::deserialize(deserializer)?;
                    *rc.borrow_mut() = Some(value);
                    anchor_store::store_rc_recursive(id, rc.clone());''')
@m
def arc_context_kind_mixup():
    rep('de.rs','''            "__yaml_arc_anchor" => {
                let anchor = self.peek_anchor_id()?;
                anchor_store::with_anchor_context(AnchorKind::Arc, anchor, || {''','''            "__yaml_arc_anchor" => {
                let anchor = self.peek_anchor_id()?;
                anchor_store::with_anchor_context(AnchorKind::Rc, anchor, || {''')
@m
def scope_no_reset_at_end():
    rep('anchor_store.rs','''        fn drop(&mut self) {
            reset();
        }''','''        fn drop(&mut self) {}''')
# ---- C15 mutants
@m
def c15_scope_reset_only_at_end():
    rep('anchor_store.rs','''pub(crate) fn with_document_scope<R>(f: impl FnOnce() -> R) -> R {
    reset();
''','''pub(crate) fn with_document_scope<R>(f: impl FnOnce() -> R) -> R {
''')
@m
def c15_guard_no_restore():
    rep('de_error.rs','''        MISSING_FIELD_FALLBACK.with(|c| c.set(self.prev));''','''        let _ = self.prev;''')
@m
def c15_context_manual_pop():
    rep('anchor_store.rs','''        let guard = Guard { kind, id };
        let result = f();
        drop(guard);
        result''','''        let guard = Guard { kind, id };
        let result = f();
        drop(guard);
        result
        // (mutant: see Guard::drop below)''')
    # pop manually instead of on unwind: forget the guard when panicking / erroring is impossible to express
    # directly, so the mutant replaces the guard by explicit code after f()
    rep('anchor_store.rs','''        let guard = Guard { kind, id };
        let result = f();
        drop(guard);
        result
        // (mutant: see Guard::drop below)''','''        let result = f();
        drop(Guard { kind, id });
        result''')
@m
def c15_static_counter():
    rep('live_events.rs','''            let ev = buf[*idx].clone();
            *idx += 1;''','''            let ev = buf[*idx].clone();
            *idx += 1;
            {
                static LEAK: std::sync::atomic::AtomicUsize = std::sync::atomic::AtomicUsize::new(0);
                let n = LEAK.fetch_add(1, std::sync::atomic::Ordering::Relaxed);
                self.total_replayed_events = self.total_replayed_events.max(n.min(usize::MAX / 2));
            }''')
@m
def c15_scope_no_reset_at_all():
    rep('anchor_store.rs','''pub(crate) fn with_document_scope<R>(f: impl FnOnce() -> R) -> R {
    reset();
''','''pub(crate) fn with_document_scope<R>(f: impl FnOnce() -> R) -> R {
''')
    rep('anchor_store.rs','''        fn drop(&mut self) {
            reset();
        }''','''        fn drop(&mut self) {}''')

# ---- candidate fixes (not mutants)
def _fix1():
    rep('ser.rs',"""                            // present == false: emit null and skip field #3
                            if self.ser.at_line_start {""","""                            // present == false: emit null and skip field #3
                            self.ser.write_space_if_pending()?;
                            if self.ser.at_line_start {""")
def _fix2():
    for kind in ['rc','arc']:
        rep('de.rs','''            "__yaml_%s_weak_anchor" => {
                let anchor = self.peek_anchor_id()?;
'''%kind,'''            "__yaml_%s_weak_anchor" => {
                let anchor = self.peek_anchor_id()?;
                // A dangling weak is written as `null`: hand it to the visitor as a unit.
                if anchor.is_none() && self.take_unanchored_null()? {
                    return visitor.visit_unit();
                }
'''%kind)
    rep('de.rs','''    /// Peek at the next event's anchor id, if any (0 indicates no anchor).
''','''    /// Consume the next event if it is a null-like scalar that carries no anchor.
    fn take_unanchored_null(&mut self) -> Result<bool, Error> {
        let is_null = matches!(
            self.ev.peek()?,
            Some(Ev::Scalar { anchor, tag, value, style, .. })
                if *anchor == 0 && (tag == &SfTag::Null || scalar_is_nullish_for_option(value, style))
        );
        if is_null {
            let _ = self.ev.next()?;
        }
        Ok(is_null)
    }

    /// Peek at the next event's anchor id, if any (0 indicates no anchor).
''')
    rep('anchors.rs','''                    "an RcWeakAnchor referring to a previously defined strong anchor (via alias)",
                )
            }
''','''                    "an RcWeakAnchor referring to a previously defined strong anchor (via alias)",
                )
            }
            // `null` (what a dangling weak serializes to) gives a dangling weak back.
            fn visit_unit<E: serde::de::Error>(self) -> Result<Self::Value, E> {
                Ok(RcWeakAnchor(RcWeak::new()))
            }
''')
    rep('anchors.rs','''                    "an ArcWeakAnchor referring to a previously defined strong anchor (via alias)",
                )
            }
''','''                    "an ArcWeakAnchor referring to a previously defined strong anchor (via alias)",
                )
            }
            // `null` (what a dangling weak serializes to) gives a dangling weak back.
            fn visit_unit<E: serde::de::Error>(self) -> Result<Self::Value, E> {
                Ok(ArcWeakAnchor(ArcWeak::new()))
            }
''')
def _fix3():
    rep('de.rs','''            // Tagged null → None regardless of style/value
            Some(Ev::Scalar { tag, .. }) if tag == &SfTag::Null => {''','''            // Placeholder for an alias to a recursive anchor that is still being read
            // (`RcRecursion` / `ArcRecursion` inside an `Option`): that is a value, not a null.
            Some(Ev::Scalar {
                anchor, tag, value, ..
            }) if *anchor != 0
                && tag == &SfTag::Null
                && value.is_empty()
                && anchor_store::recursive_anchor_in_progress(*anchor) =>
            {
                visitor.visit_some(self)
            }

            // Tagged null → None regardless of style/value
            Some(Ev::Scalar { tag, .. }) if tag == &SfTag::Null => {''')
@m
def fix_c14_1(): _fix1()
@m
def fix_c14_2(): _fix2()
@m
def fix_c14_3(): _fix3()
def _fix4():
    rep('ser.rs',"""            if self.at_line_start {
                self.write_indent(base)?;
            }
            // Compute the indentation indicator N for block scalars.""","""            if self.at_line_start {
                self.write_indent(base)?;
            }
            // An anchored string (`RcAnchor<String>` ...) keeps its `&name` in front of the header.
            self.write_scalar_prefix_if_anchor()?;
            // Compute the indentation indicator N for block scalars.""")
@m
def fix_c14_4(): _fix4()
def _fix5():
    rep('anchor_store.rs','''    stack: Vec<(AnchorKind, usize)>,''','''    /// One entry per wrapper node being read; `None` for a node that carries no anchor, so that
    /// such a node is not mistaken for the anchored node around it.
    stack: Vec<(AnchorKind, Option<usize>)>,''')
    rep('anchor_store.rs','''    if let Some(id) = anchor {
        STATE.with(|state| {
            let mut s = state.borrow_mut();
            s.stack.push((kind, id));
            *s.in_progress.entry((kind, id)).or_insert(0) += 1;
        });
        let guard = Guard { kind, id };
        let result = f();
        drop(guard);
        result
    } else {
        f()
    }
}

struct Guard {
    kind: AnchorKind,
    id: usize,
}

impl Drop for Guard {
    fn drop(&mut self) {
        STATE.with(|state| {
            let mut s = state.borrow_mut();
            s.stack.pop();
            if let Some(count) = s.in_progress.get_mut(&(self.kind, self.id)) {
                if *count > 1 {
                    *count -= 1;
                } else {
                    s.in_progress.remove(&(self.kind, self.id));
                }
            }
        });
    }
}''','''    STATE.with(|state| {
        let mut s = state.borrow_mut();
        s.stack.push((kind, anchor));
        if let Some(id) = anchor {
            *s.in_progress.entry((kind, id)).or_insert(0) += 1;
        }
    });
    let guard = Guard { kind, id: anchor };
    let result = f();
    drop(guard);
    result
}

struct Guard {
    kind: AnchorKind,
    id: Option<usize>,
}

impl Drop for Guard {
    fn drop(&mut self) {
        STATE.with(|state| {
            let mut s = state.borrow_mut();
            s.stack.pop();
            let Some(id) = self.id else { return };
            if let Some(count) = s.in_progress.get_mut(&(self.kind, id)) {
                if *count > 1 {
                    *count -= 1;
                } else {
                    s.in_progress.remove(&(self.kind, id));
                }
            }
        });
    }
}''')
    rep('anchor_store.rs','''            .find_map(|(k, id)| if *k == kind { Some(*id) } else { None })''','''            .find(|(k, _)| *k == kind)
            .and_then(|(_, id)| *id)''')
@m
def fix_c14_5(): _fix5()
@m
def fix_c14_all(): _fix1(); _fix2(); _fix3(); _fix4(); _fix5()

if __name__=='__main__':
    restore()
    M[sys.argv[1]]()
    print('applied',sys.argv[1])
