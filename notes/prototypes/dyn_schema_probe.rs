#![allow(unused)]
use serde::de::{self, DeserializeSeed, Deserializer, Visitor, SeqAccess, MapAccess, EnumAccess, VariantAccess, IgnoredAny};
use serde::ser::{self, Serialize, Serializer, SerializeSeq, SerializeTuple, SerializeMap, SerializeStruct, SerializeTupleStruct, SerializeTupleVariant, SerializeStructVariant};
use std::collections::BTreeMap;
use serde_saphyr::*;
use proptest::prelude::*;
use proptest::strategy::ValueTree;
use proptest::test_runner::{TestRunner, Config, RngSeed};

static FIELDS: [&str; 4] = ["a", "b", "c", "d"];
static VARS: [&str; 4] = ["Va", "Vb", "Vc", "Vd"];
#[derive(Debug, Clone, PartialEq)]
enum VK { Unit, New(Box<Ty>), Tup(Vec<Ty>), St(Vec<Ty>) }
#[derive(Debug, Clone, PartialEq)]
enum Ty { Unit, Bool, Int, Str, Opt(Box<Ty>), Seq(Box<Ty>), Tuple(Vec<Ty>), Map(Box<Ty>, Box<Ty>), Struct(Vec<Ty>), Enum(Vec<VK>), NT(Box<Ty>), TS(Vec<Ty>) }
#[derive(Debug, Clone, PartialEq)]
enum DV { Unit, Bool(bool), Int(i64), Str(String), None, Some(Box<DV>), Seq(Vec<DV>), Map(Vec<(DV, DV)>), Struct(Vec<DV>), Var(usize, Vec<DV>), NT(Box<DV>) }

struct S<'a>(&'a Ty, &'a DV);
impl<'a> Serialize for S<'a> {
    fn serialize<Z: Serializer>(&self, s: Z) -> Result<Z::Ok, Z::Error> {
        match (self.0, self.1) {
            (Ty::Unit, DV::Unit) => s.serialize_unit(),
            (Ty::Bool, DV::Bool(b)) => s.serialize_bool(*b),
            (Ty::Int, DV::Int(i)) => s.serialize_i64(*i),
            (Ty::Str, DV::Str(x)) => s.serialize_str(x),
            (Ty::Opt(_), DV::None) => s.serialize_none(),
            (Ty::Opt(t), DV::Some(v)) => s.serialize_some(&S(t, v)),
            (Ty::Seq(t), DV::Seq(v)) => { let mut q = s.serialize_seq(Some(v.len()))?; for x in v { q.serialize_element(&S(t, x))?; } q.end() }
            (Ty::Tuple(ts), DV::Seq(v)) => { let mut q = s.serialize_tuple(v.len())?; for (t,x) in ts.iter().zip(v) { q.serialize_element(&S(t, x))?; } q.end() }
            (Ty::TS(ts), DV::Seq(v)) => { let mut q = s.serialize_tuple_struct("Ts", v.len())?; for (t,x) in ts.iter().zip(v) { q.serialize_field(&S(t, x))?; } q.end() }
            (Ty::NT(t), DV::NT(v)) => s.serialize_newtype_struct("Nt", &S(t, v)),
            (Ty::Map(kt,vt), DV::Map(es)) => { let mut m = s.serialize_map(Some(es.len()))?; for (k,v) in es { m.serialize_entry(&S(kt,k), &S(vt,v))?; } m.end() }
            (Ty::Struct(ts), DV::Struct(vs)) => { let mut m = s.serialize_struct("St", vs.len())?; for (i,(t,v)) in ts.iter().zip(vs).enumerate() { m.serialize_field(FIELDS[i], &S(t,v))?; } m.end() }
            (Ty::Enum(vks), DV::Var(i, vs)) => match &vks[*i] {
                VK::Unit => s.serialize_unit_variant("En", *i as u32, VARS[*i]),
                VK::New(t) => s.serialize_newtype_variant("En", *i as u32, VARS[*i], &S(t, &vs[0])),
                VK::Tup(ts) => { let mut q = s.serialize_tuple_variant("En", *i as u32, VARS[*i], vs.len())?; for (t,x) in ts.iter().zip(vs) { q.serialize_field(&S(t,x))?; } q.end() }
                VK::St(ts) => { let mut q = s.serialize_struct_variant("En", *i as u32, VARS[*i], vs.len())?; for (j,(t,x)) in ts.iter().zip(vs).enumerate() { q.serialize_field(FIELDS[j], &S(t,x))?; } q.end() }
            },
            (t, v) => Err(ser::Error::custom(format!("ty/value mismatch {:?} {:?}", t, v))),
        }
    }
}
struct D<'a>(&'a Ty);
struct TupV<'a>(&'a [Ty]);
impl<'de, 'a> Visitor<'de> for TupV<'a> { type Value = Vec<DV>; fn expecting(&self, f: &mut std::fmt::Formatter) -> std::fmt::Result { write!(f, "a tuple of size {}", self.0.len()) }
    fn visit_seq<A: SeqAccess<'de>>(self, mut a: A) -> Result<Vec<DV>, A::Error> { let mut v = vec![]; for (i,t) in self.0.iter().enumerate() { match a.next_element_seed(D(t))? { Some(x) => v.push(x), None => return Err(de::Error::invalid_length(i, &self)) } } Ok(v) } }
struct StV<'a>(&'a [Ty]);
struct FieldSeed(usize);
impl<'de> DeserializeSeed<'de> for FieldSeed { type Value = Option<usize>; fn deserialize<Dz: Deserializer<'de>>(self, d: Dz) -> Result<Option<usize>, Dz::Error> { struct FV(usize); impl<'de> Visitor<'de> for FV { type Value = Option<usize>; fn expecting(&self, f: &mut std::fmt::Formatter) -> std::fmt::Result { f.write_str("field identifier") } fn visit_str<E: de::Error>(self, s: &str) -> Result<Option<usize>, E> { Ok(FIELDS[..self.0].iter().position(|f| *f == s)) } } d.deserialize_identifier(FV(self.0)) } }
impl<'de, 'a> Visitor<'de> for StV<'a> { type Value = Vec<DV>; fn expecting(&self, f: &mut std::fmt::Formatter) -> std::fmt::Result { f.write_str("struct St") }
    fn visit_map<A: MapAccess<'de>>(self, mut a: A) -> Result<Vec<DV>, A::Error> {
        let n = self.0.len(); let mut vals: Vec<Option<DV>> = vec![None; n];
        while let Some(k) = a.next_key_seed(FieldSeed(n))? { match k { Some(i) => { if vals[i].is_some() { return Err(de::Error::duplicate_field(FIELDS[i])); } vals[i] = Some(a.next_value_seed(D(&self.0[i]))?); } None => { let _: IgnoredAny = a.next_value()?; } } }
        let mut out = vec![]; for (i,v) in vals.into_iter().enumerate() { match v { Some(x) => out.push(x), None => { if matches!(self.0[i], Ty::Opt(_)) { out.push(DV::None) } else { return Err(de::Error::missing_field(FIELDS[i])); } } } } Ok(out) } }
struct VarSeed(usize);
impl<'de> DeserializeSeed<'de> for VarSeed { type Value = usize; fn deserialize<Dz: Deserializer<'de>>(self, d: Dz) -> Result<usize, Dz::Error> { struct VV(usize); impl<'de> Visitor<'de> for VV { type Value = usize; fn expecting(&self, f: &mut std::fmt::Formatter) -> std::fmt::Result { f.write_str("variant identifier") } fn visit_str<E: de::Error>(self, s: &str) -> Result<usize, E> { VARS[..self.0].iter().position(|f| *f == s).ok_or_else(|| de::Error::unknown_variant(s, &VARS)) } } d.deserialize_identifier(VV(self.0)) } }
impl<'de, 'a> DeserializeSeed<'de> for D<'a> {
    type Value = DV;
    fn deserialize<Dz: Deserializer<'de>>(self, d: Dz) -> Result<DV, Dz::Error> {
        struct V<'a>(&'a Ty);
        impl<'de, 'a> Visitor<'de> for V<'a> {
            type Value = DV;
            fn expecting(&self, f: &mut std::fmt::Formatter) -> std::fmt::Result { write!(f, "{:?}", self.0) }
            fn visit_unit<E>(self) -> Result<DV, E> { Ok(DV::Unit) }
            fn visit_bool<E>(self, b: bool) -> Result<DV, E> { Ok(DV::Bool(b)) }
            fn visit_i64<E>(self, v: i64) -> Result<DV, E> { Ok(DV::Int(v)) }
            fn visit_str<E>(self, v: &str) -> Result<DV, E> { Ok(DV::Str(v.to_string())) }
            fn visit_none<E>(self) -> Result<DV, E> { Ok(DV::None) }
            fn visit_some<Dz: Deserializer<'de>>(self, d: Dz) -> Result<DV, Dz::Error> { if let Ty::Opt(t) = self.0 { Ok(DV::Some(Box::new(D(t).deserialize(d)?))) } else { unreachable!() } }
            fn visit_newtype_struct<Dz: Deserializer<'de>>(self, d: Dz) -> Result<DV, Dz::Error> { if let Ty::NT(t) = self.0 { Ok(DV::NT(Box::new(D(t).deserialize(d)?))) } else { unreachable!() } }
            fn visit_seq<A: SeqAccess<'de>>(self, mut a: A) -> Result<DV, A::Error> { if let Ty::Seq(t) = self.0 { let mut v = vec![]; while let Some(x) = a.next_element_seed(D(t))? { v.push(x); } Ok(DV::Seq(v)) } else { unreachable!() } }
            fn visit_map<A: MapAccess<'de>>(self, mut a: A) -> Result<DV, A::Error> { if let Ty::Map(kt,vt) = self.0 { let mut v = vec![]; while let Some(k) = a.next_key_seed(D(kt))? { let x = a.next_value_seed(D(vt))?; v.push((k,x)); } Ok(DV::Map(v)) } else { unreachable!() } }
            fn visit_enum<A: EnumAccess<'de>>(self, a: A) -> Result<DV, A::Error> { if let Ty::Enum(vks) = self.0 { let (i, va) = a.variant_seed(VarSeed(vks.len()))?; match &vks[i] { VK::Unit => { va.unit_variant()?; Ok(DV::Var(i, vec![])) } VK::New(t) => Ok(DV::Var(i, vec![va.newtype_variant_seed(D(t))?])), VK::Tup(ts) => Ok(DV::Var(i, va.tuple_variant(ts.len(), TupV(ts))?)), VK::St(ts) => Ok(DV::Var(i, va.struct_variant(&FIELDS[..ts.len()], StV(ts))?)) } } else { unreachable!() } }
        }
        match self.0 {
            Ty::Unit => d.deserialize_unit(V(self.0)), Ty::Bool => d.deserialize_bool(V(self.0)), Ty::Int => d.deserialize_i64(V(self.0)), Ty::Str => d.deserialize_string(V(self.0)),
            Ty::Opt(_) => d.deserialize_option(V(self.0)), Ty::Seq(_) => d.deserialize_seq(V(self.0)), Ty::Map(..) => d.deserialize_map(V(self.0)), Ty::NT(_) => d.deserialize_newtype_struct("Nt", V(self.0)),
            Ty::Tuple(ts) => d.deserialize_tuple(ts.len(), TupV(ts)).map(DV::Seq), Ty::TS(ts) => d.deserialize_tuple_struct("Ts", ts.len(), TupV(ts)).map(DV::Seq),
            Ty::Struct(ts) => d.deserialize_struct("St", &FIELDS[..ts.len()], StV(ts)).map(DV::Struct),
            Ty::Enum(vks) => d.deserialize_enum("En", &VARS[..vks.len()], V(self.0)),
        }
    }
}
fn nullable(t: &Ty) -> bool { matches!(t, Ty::Unit | Ty::Opt(_)) || matches!(t, Ty::NT(x) if nullable(x)) }
fn arb_ty() -> impl Strategy<Value=Ty> {
    let leaf = prop_oneof![Just(Ty::Unit), Just(Ty::Bool), Just(Ty::Int), Just(Ty::Str)];
    leaf.prop_recursive(3, 12, 3, |inner| prop_oneof![
        inner.clone().prop_filter("no nested nullable", |t| !nullable(t)).prop_map(|t| Ty::Opt(Box::new(t))),
        inner.clone().prop_map(|t| Ty::Seq(Box::new(t))),
        prop::collection::vec(inner.clone(), 1..3).prop_map(Ty::Tuple),
        prop::collection::vec(inner.clone(), 1..3).prop_map(Ty::TS),
        (prop_oneof![Just(Ty::Str), Just(Ty::Int), Just(Ty::Bool), inner.clone()], inner.clone()).prop_map(|(k,v)| Ty::Map(Box::new(k), Box::new(v))),
        prop::collection::vec(inner.clone(), 0..4).prop_map(Ty::Struct),
        inner.clone().prop_map(|t| Ty::NT(Box::new(t))),
        prop::collection::vec(prop_oneof![Just(VK::Unit), inner.clone().prop_map(|t| VK::New(Box::new(t))), prop::collection::vec(inner.clone(), 1..3).prop_map(VK::Tup), prop::collection::vec(inner.clone(), 0..3).prop_map(VK::St)], 1..4).prop_map(Ty::Enum),
    ])
}
fn arb_val(t: &Ty) -> BoxedStrategy<DV> {
    match t {
        Ty::Unit => Just(DV::Unit).boxed(), Ty::Bool => any::<bool>().prop_map(DV::Bool).boxed(), Ty::Int => (-3i64..100).prop_map(DV::Int).boxed(),
        Ty::Str => prop_oneof![Just("ab"), Just(""), Just("x y"), Just("1"), Just("true"), Just("a\nb"), Just("- k"), Just("k: v"), Just("null")].prop_map(|s| DV::Str(s.to_string())).boxed(),
        Ty::Opt(t) => prop_oneof![Just(DV::None), arb_val(t).prop_map(|v| DV::Some(Box::new(v)))].boxed(),
        Ty::Seq(t) => prop::collection::vec(arb_val(t), 0..3).prop_map(DV::Seq).boxed(),
        Ty::Tuple(ts) | Ty::TS(ts) => ts.iter().map(arb_val).collect::<Vec<_>>().prop_map(DV::Seq).boxed(),
        Ty::NT(t) => arb_val(t).prop_map(|v| DV::NT(Box::new(v))).boxed(),
        Ty::Map(k,v) => prop::collection::vec((arb_val(k), arb_val(v)), 0..3).prop_map(|es| { let mut out: Vec<(DV,DV)> = vec![]; for (k,v) in es { if !out.iter().any(|(k2,_)| k2 == &k) { out.push((k,v)); } } DV::Map(out) }).boxed(),
        Ty::Struct(ts) => ts.iter().map(arb_val).collect::<Vec<_>>().prop_map(DV::Struct).boxed(),
        Ty::Enum(vks) => { let opts: Vec<BoxedStrategy<DV>> = vks.iter().enumerate().map(|(i,vk)| match vk { VK::Unit => Just(DV::Var(i, vec![])).boxed(), VK::New(t) => arb_val(t).prop_map(move |v| DV::Var(i, vec![v])).boxed(), VK::Tup(ts) | VK::St(ts) => ts.iter().map(arb_val).collect::<Vec<_>>().prop_map(move |v| DV::Var(i, v)).boxed() }).collect(); proptest::strategy::Union::new(opts).boxed() }
    }
}
fn shape_sig(t: &Ty, v: &DV, depth: usize) -> String { if depth == 0 { return "..".into(); } match (t, v) {
    (Ty::Seq(t), DV::Seq(v)) => format!("Seq[{}]", v.first().map(|x| shape_sig(t, x, depth-1)).unwrap_or("empty".into())),
    (Ty::Tuple(ts), DV::Seq(v)) => format!("Tuple({})", ts.iter().zip(v).map(|(t,x)| shape_sig(t,x,depth-1)).collect::<Vec<_>>().join(",")),
    (Ty::TS(ts), DV::Seq(v)) => format!("TS({})", ts.iter().zip(v).map(|(t,x)| shape_sig(t,x,depth-1)).collect::<Vec<_>>().join(",")),
    (Ty::Map(kt,vt), DV::Map(es)) => format!("Map{{{}}}", es.first().map(|(k,x)| format!("{}:{}", shape_sig(kt,k,depth-1), shape_sig(vt,x,depth-1))).unwrap_or("empty".into())),
    (Ty::Struct(ts), DV::Struct(vs)) => format!("St{{{}}}", ts.iter().zip(vs).map(|(t,x)| shape_sig(t,x,depth-1)).collect::<Vec<_>>().join(",")),
    (Ty::Enum(vks), DV::Var(i, vs)) => match &vks[*i] { VK::Unit => "UnitVar".into(), VK::New(t) => format!("NewVar({})", shape_sig(t,&vs[0],depth-1)), VK::Tup(ts) => format!("TupVar({})", ts.iter().zip(vs).map(|(t,x)| shape_sig(t,x,depth-1)).collect::<Vec<_>>().join(",")), VK::St(ts) => format!("StVar{{{}}}", ts.iter().zip(vs).map(|(t,x)| shape_sig(t,x,depth-1)).collect::<Vec<_>>().join(",")) },
    (Ty::Opt(t), DV::Some(v)) => format!("Some({})", shape_sig(t,v,depth-1)), (Ty::NT(t), DV::NT(v)) => format!("NT({})", shape_sig(t,v,depth-1)),
    (_, DV::Str(s)) => if s.contains('\n') { "StrML".into() } else { "Str".into() }, (_, v) => format!("{:?}", v).chars().take(4).collect() } }
fn size(v: &DV) -> usize { match v { DV::Seq(x) | DV::Struct(x) | DV::Var(_, x) => 1 + x.iter().map(size).sum::<usize>(), DV::Map(e) => 1 + e.iter().map(|(k,v)| size(k)+size(v)).sum::<usize>(), DV::Some(x) | DV::NT(x) => 1 + size(x), _ => 1 } }

fn q(s: &str) -> String { format!("\"{}\"", s.replace('\\', "\\\\").replace('"', "\\\"").replace('\n', "\\n")) }
fn rflow(t: &Ty, v: &DV, notation: u8, out: &mut String) { match (t, v) {
    (Ty::Unit, _) => out.push_str("~"), (Ty::Bool, DV::Bool(b)) => out.push_str(if *b {"true"} else {"false"}), (Ty::Int, DV::Int(i)) => out.push_str(&i.to_string()), (Ty::Str, DV::Str(x)) => out.push_str(&q(x)),
    (Ty::Opt(_), DV::None) => out.push_str("null"), (Ty::Opt(t), DV::Some(x)) => rflow(t, x, notation, out), (Ty::NT(t), DV::NT(x)) => rflow(t, x, notation, out),
    (Ty::Seq(t), DV::Seq(xs)) => { out.push('['); for (i,x) in xs.iter().enumerate() { if i>0 { out.push_str(", "); } rflow(t, x, notation, out); } out.push(']'); }
    (Ty::Tuple(ts), DV::Seq(xs)) | (Ty::TS(ts), DV::Seq(xs)) => { out.push('['); for (i,(t,x)) in ts.iter().zip(xs).enumerate() { if i>0 { out.push_str(", "); } rflow(t, x, notation, out); } out.push(']'); }
    (Ty::Map(kt,vt), DV::Map(es)) => { out.push('{'); for (i,(k,x)) in es.iter().enumerate() { if i>0 { out.push_str(", "); } out.push_str("? "); rflow(kt, k, notation, out); out.push_str(" : "); rflow(vt, x, notation, out); } out.push('}'); }
    (Ty::Struct(ts), DV::Struct(xs)) => { out.push('{'); for (i,(t,x)) in ts.iter().zip(xs).enumerate() { if i>0 { out.push_str(", "); } out.push_str(FIELDS[i]); out.push_str(": "); rflow(t, x, notation, out); } out.push('}'); }
    (Ty::Enum(vks), DV::Var(i, xs)) => match &vks[*i] {
        VK::Unit => { if notation % 2 == 0 { out.push_str(VARS[*i]); } else { out.push_str(&format!("{{{}: ~}}", VARS[*i])); } }
        VK::New(t) => { out.push_str(&format!("{{{}: ", VARS[*i])); rflow(t, &xs[0], notation, out); out.push('}'); }
        VK::Tup(ts) => { out.push_str(&format!("{{{}: [", VARS[*i])); for (j,(t,x)) in ts.iter().zip(xs).enumerate() { if j>0 { out.push_str(", "); } rflow(t, x, notation, out); } out.push_str("]}"); }
        VK::St(ts) => { out.push_str(&format!("{{{}: {{", VARS[*i])); for (j,(t,x)) in ts.iter().zip(xs).enumerate() { if j>0 { out.push_str(", "); } out.push_str(FIELDS[j]); out.push_str(": "); rflow(t, x, notation, out); } out.push_str("}}"); }
    },
    _ => out.push_str("???") } }
fn main(){
    let seed: u64 = std::env::args().nth(1).map(|s| s.parse().unwrap()).unwrap_or(1);
    let n: usize = std::env::args().nth(2).map(|s| s.parse().unwrap()).unwrap_or(20000);
    let mut runner = TestRunner::new(Config{ failure_persistence: None, rng_seed: RngSeed::Fixed(seed), ..Config::default()});
    let mut fails = BTreeMap::<String,(usize,usize,String)>::new(); let mut ok=0; let mut total=0;
    for i in 0..n {
        let ty = arb_ty().new_tree(&mut runner).unwrap().current();
        let v = arb_val(&ty).new_tree(&mut runner).unwrap().current();
        for notation in 0..2u8 {
        total+=1;
        let mut y = String::new(); rflow(&ty, &v, notation, &mut y); y.push('\n');
        let back = with_deserializer_from_str(&y, |d| D(&ty).deserialize(d));
        let good = matches!(&back, Ok(b) if b == &v);
        if good { ok+=1; } else { let sig = shape_sig(&ty,&v,6); let sz = size(&v); let e = fails.entry(sig).or_insert((0,usize::MAX,String::new())); e.0+=1; if sz < e.1 { e.1 = sz; e.2 = format!("{:?}\n{:?}\n---\n{}--- {}", ty, v, y, match &back { Ok(b) => format!("Ok({:?})", b), Err(e) => e.without_snippet().to_string() }); } }
        }
    }
    println!("total {} ok {} failing classes {}", total, ok, fails.len());
    let mut v: Vec<_> = fails.iter().collect(); v.sort_by_key(|(_, (c,sz,_))| (*sz, std::cmp::Reverse(*c)));
    let hide: Vec<String> = std::env::args().skip(3).collect();
    for (k,(c,sz,ex)) in v.iter().filter(|(k,_)| !hide.iter().any(|h| k.contains(h.as_str()))).take(14) { println!("##### x{} size {} [{}]\n{}\n", c, sz, k, ex); }
}
