#![no_main]
#[path = "../../src/bin/c01.rs"]
#[allow(dead_code)]
mod p;
libfuzzer_sys::fuzz_target!(|data: &[u8]| p::fuzz(data));
