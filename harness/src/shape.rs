//! Shape-following typed deserialization: a `DeserializeSeed` driven by an (alias-free,
//! merge-free) reference document that calls the *typed* `Deserializer` methods a derived
//! type of that shape would call (deserialize_string / seq / map / option), so that the typed
//! code paths are exercised without monomorphising Rust types.
use crate::gdoc::{Kind, Node};
use crate::untyped::U;
use serde::de::{DeserializeSeed, Deserializer, MapAccess, SeqAccess, Visitor};

#[derive(Clone, Copy, Debug, PartialEq, Eq)]
pub enum ScalarMode {
    /// every scalar through deserialize_string
    Str,
    /// every scalar through deserialize_option, then deserialize_string
    OptStr,
    /// scalars through deserialize_any
    Any,
    /// every scalar through deserialize_i64
    Int,
}

pub struct ShapeSeed<'a> {
    pub shape: Option<&'a Node>,
    pub mode: ScalarMode,
}

struct SV<'a>(ShapeSeed<'a>);

impl<'de, 'a> Visitor<'de> for SV<'a> {
    type Value = U;
    fn expecting(&self, f: &mut std::fmt::Formatter) -> std::fmt::Result {
        f.write_str("a node of the reference shape")
    }
    fn visit_str<E>(self, v: &str) -> Result<U, E> {
        Ok(U::Str(v.to_string()))
    }
    fn visit_i64<E>(self, v: i64) -> Result<U, E> {
        Ok(U::Int(v as i128))
    }
    fn visit_u64<E>(self, v: u64) -> Result<U, E> {
        Ok(U::Int(v as i128))
    }
    fn visit_string<E>(self, v: String) -> Result<U, E> {
        Ok(U::Str(v))
    }
    fn visit_none<E>(self) -> Result<U, E> {
        Ok(U::Null)
    }
    fn visit_unit<E>(self) -> Result<U, E> {
        Ok(U::Null)
    }
    fn visit_some<D: Deserializer<'de>>(self, d: D) -> Result<U, D::Error> {
        d.deserialize_string(SV(ShapeSeed { shape: self.0.shape, mode: ScalarMode::Str }))
            .map(|u| U::Seq(vec![u]))
    }
    fn visit_seq<A: SeqAccess<'de>>(self, mut a: A) -> Result<U, A::Error> {
        let items: &[Node] = match self.0.shape.map(|n| &n.kind) {
            Some(Kind::Seq { items, .. }) => items,
            _ => &[],
        };
        let mut out = vec![];
        let mut i = 0;
        loop {
            let shape = items.get(i).or(items.last());
            match a.next_element_seed(ShapeSeed { shape, mode: self.0.mode })? {
                Some(x) => out.push(x),
                None => break,
            }
            i += 1;
        }
        Ok(U::Seq(out))
    }
    fn visit_map<A: MapAccess<'de>>(self, mut a: A) -> Result<U, A::Error> {
        let entries: &[(Node, Node)] = match self.0.shape.map(|n| &n.kind) {
            Some(Kind::Map { entries, .. }) => entries,
            _ => &[],
        };
        let mut out = vec![];
        let mut i = 0;
        loop {
            let e = entries.get(i).or(entries.last());
            // keys follow the shape of the i-th reference key; scalars keys always as strings
            let kmode = match self.0.mode {
                ScalarMode::Any => ScalarMode::Any,
                ScalarMode::Int => ScalarMode::Int,
                _ => ScalarMode::Str,
            };
            match a.next_key_seed(ShapeSeed { shape: e.map(|e| &e.0), mode: kmode })? {
                Some(k) => {
                    let v = a.next_value_seed(ShapeSeed { shape: e.map(|e| &e.1), mode: self.0.mode })?;
                    out.push((k, v));
                }
                None => break,
            }
            i += 1;
        }
        Ok(U::Map(out))
    }
}

impl<'de, 'a> DeserializeSeed<'de> for ShapeSeed<'a> {
    type Value = U;
    fn deserialize<D: Deserializer<'de>>(self, d: D) -> Result<U, D::Error> {
        match self.shape.map(|n| &n.kind) {
            Some(Kind::Seq { .. }) => d.deserialize_seq(SV(self)),
            Some(Kind::Map { .. }) => d.deserialize_map(SV(self)),
            Some(Kind::Scalar { .. }) => match self.mode {
                ScalarMode::Str => d.deserialize_string(SV(self)),
                ScalarMode::OptStr => d.deserialize_option(SV(self)),
                ScalarMode::Any => serde::Deserialize::deserialize(d),
                ScalarMode::Int => d.deserialize_i64(SV(self)),
            },
            _ => serde::Deserialize::deserialize(d),
        }
    }
}
