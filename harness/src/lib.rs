//! vcheck: property-based checks for serde-saphyr (see /verif/DESIGN.md).
pub mod engine;
pub mod untyped;
pub mod opts;
pub mod gdoc;
pub mod shape;
pub mod iofault;
pub mod c06_model;
pub mod usage;
pub mod dynschema;
pub mod dynschema_selfcheck;
pub mod c01_core;
