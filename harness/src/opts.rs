//! Serializable descriptions of option vectors (so that cases can be written to replay files).
use serde::{Deserialize, Serialize};
use serde_saphyr::options::AliasLimits;
use serde_saphyr::{Budget, DuplicateKeyPolicy, Options, SerializerOptions};

#[derive(Clone, Debug, Serialize, Deserialize, PartialEq, Eq, Hash)]
pub struct SerOpts {
    pub indent: usize,
    pub compact: bool,
    pub braces: bool,
    pub quote_all: bool,
    pub yaml12: bool,
    pub block: bool,
    pub tagged: bool,
    pub wrap: usize,
    pub min_fold: usize,
    pub anchors: bool,
}
impl Default for SerOpts {
    fn default() -> Self {
        SerOpts {
            indent: 2,
            compact: false,
            braces: true,
            quote_all: false,
            yaml12: false,
            block: true,
            tagged: false,
            wrap: 80,
            min_fold: 32,
            anchors: false,
        }
    }
}
fn custom_anchor(id: usize) -> String {
    format!("n{id}x")
}
impl SerOpts {
    #[allow(deprecated)]
    pub fn build(&self) -> SerializerOptions {
        let mut o = SerializerOptions::default();
        o.indent_step = self.indent;
        o.compact_list_indent = self.compact;
        o.empty_as_braces = self.braces;
        o.quote_all = self.quote_all;
        o.yaml_12 = self.yaml12;
        o.prefer_block_scalars = self.block;
        o.tagged_enums = self.tagged;
        o.folded_wrap_chars = self.wrap;
        o.min_fold_chars = self.min_fold;
        o.anchor_generator = if self.anchors { Some(custom_anchor) } else { None };
        o
    }
    /// A fixed list of option vectors: the default, every single-flag deviation and a few
    /// multi-flag ones (pairwise-ish coverage).
    pub fn family() -> Vec<SerOpts> {
        let d = SerOpts::default();
        let mut v = vec![d.clone()];
        v.push(SerOpts { quote_all: true, ..d.clone() });
        v.push(SerOpts { yaml12: true, ..d.clone() });
        v.push(SerOpts { block: false, ..d.clone() });
        v.push(SerOpts { indent: 4, compact: true, ..d.clone() });
        v.push(SerOpts { indent: 3, wrap: 8, min_fold: 4, ..d.clone() });
        v.push(SerOpts { indent: 1, ..d.clone() });
        v.push(SerOpts { compact: true, tagged: true, wrap: 1, min_fold: 0, ..d.clone() });
        v.push(SerOpts { braces: false, ..d.clone() });
        v.push(SerOpts { indent: 8, quote_all: true, yaml12: true, block: false, ..d.clone() });
        v.push(SerOpts { indent: 4, tagged: true, yaml12: true, anchors: true, ..d.clone() });
        v
    }
    pub fn from_bits(bits: u32) -> SerOpts {
        SerOpts {
            indent: [2, 1, 3, 4, 8, 2, 2, 4][(bits & 7) as usize],
            compact: bits & 8 != 0,
            braces: bits & 16 == 0,
            quote_all: bits & 32 != 0,
            yaml12: bits & 64 != 0,
            block: bits & 128 == 0,
            tagged: bits & 256 != 0,
            wrap: [80, 1, 8, 0][((bits >> 9) & 3) as usize],
            min_fold: [32, 0, 4, 100][((bits >> 11) & 3) as usize],
            anchors: bits & (1 << 13) != 0,
        }
    }
}

#[derive(Clone, Copy, Debug, Serialize, Deserialize, PartialEq, Eq, Hash)]
pub enum Dup {
    Error,
    First,
    Last,
}
impl Dup {
    pub fn build(self) -> DuplicateKeyPolicy {
        match self {
            Dup::Error => DuplicateKeyPolicy::Error,
            Dup::First => DuplicateKeyPolicy::FirstWins,
            Dup::Last => DuplicateKeyPolicy::LastWins,
        }
    }
    pub const ALL: [Dup; 3] = [Dup::Error, Dup::First, Dup::Last];
}

/// Budget description: None = no budget at all; otherwise limits (usize::MAX = unlimited).
#[derive(Clone, Debug, Serialize, Deserialize, PartialEq, Eq, Hash)]
pub struct BudgetD {
    pub max_reader_input_bytes: Option<usize>,
    pub max_events: usize,
    pub max_aliases: usize,
    pub max_anchors: usize,
    pub max_depth: usize,
    pub max_documents: usize,
    pub max_nodes: usize,
    pub max_total_scalar_bytes: usize,
    pub max_merge_keys: usize,
    pub enforce_ratio: bool,
    pub ratio_min_aliases: usize,
    pub ratio_multiplier: usize,
}
impl BudgetD {
    #[allow(deprecated)]
    pub fn from_real(b: &Budget) -> BudgetD {
        BudgetD {
            max_reader_input_bytes: b.max_reader_input_bytes,
            max_events: b.max_events,
            max_aliases: b.max_aliases,
            max_anchors: b.max_anchors,
            max_depth: b.max_depth,
            max_documents: b.max_documents,
            max_nodes: b.max_nodes,
            max_total_scalar_bytes: b.max_total_scalar_bytes,
            max_merge_keys: b.max_merge_keys,
            enforce_ratio: b.enforce_alias_anchor_ratio,
            ratio_min_aliases: b.alias_anchor_min_aliases,
            ratio_multiplier: b.alias_anchor_ratio_multiplier,
        }
    }
    pub fn default_budget() -> BudgetD {
        BudgetD::from_real(&Budget::default())
    }
    pub fn unlimited() -> BudgetD {
        BudgetD {
            max_reader_input_bytes: None,
            max_events: usize::MAX,
            max_aliases: usize::MAX,
            max_anchors: usize::MAX,
            max_depth: usize::MAX,
            max_documents: usize::MAX,
            max_nodes: usize::MAX,
            max_total_scalar_bytes: usize::MAX,
            max_merge_keys: usize::MAX,
            enforce_ratio: false,
            ratio_min_aliases: usize::MAX,
            ratio_multiplier: usize::MAX,
        }
    }
    #[allow(deprecated)]
    pub fn build(&self) -> Budget {
        let mut b = Budget::default();
        b.max_reader_input_bytes = self.max_reader_input_bytes;
        b.max_events = self.max_events;
        b.max_aliases = self.max_aliases;
        b.max_anchors = self.max_anchors;
        b.max_depth = self.max_depth;
        b.max_documents = self.max_documents;
        b.max_nodes = self.max_nodes;
        b.max_total_scalar_bytes = self.max_total_scalar_bytes;
        b.max_merge_keys = self.max_merge_keys;
        b.enforce_alias_anchor_ratio = self.enforce_ratio;
        b.alias_anchor_min_aliases = self.ratio_min_aliases;
        b.alias_anchor_ratio_multiplier = self.ratio_multiplier;
        b
    }
}

#[derive(Clone, Debug, Serialize, Deserialize, PartialEq, Eq, Hash)]
pub struct DeOpts {
    /// "default" budget, none, or explicit
    pub budget: BudgetSel,
    pub dup: Dup,
    pub max_total_replayed_events: usize,
    pub max_replay_stack_depth: usize,
    pub max_alias_expansions_per_anchor: usize,
    pub legacy_octal: bool,
    pub strict_bool: bool,
    pub ignore_binary: bool,
    pub angle: bool,
    pub no_schema: bool,
    pub snippet: bool,
    pub crop: usize,
}
#[derive(Clone, Debug, Serialize, Deserialize, PartialEq, Eq, Hash)]
pub enum BudgetSel {
    Default,
    None,
    Explicit(BudgetD),
}
impl Default for DeOpts {
    fn default() -> Self {
        let a = AliasLimits::default();
        DeOpts {
            budget: BudgetSel::Default,
            dup: Dup::Error,
            max_total_replayed_events: a.max_total_replayed_events,
            max_replay_stack_depth: a.max_replay_stack_depth,
            max_alias_expansions_per_anchor: a.max_alias_expansions_per_anchor,
            legacy_octal: false,
            strict_bool: false,
            ignore_binary: false,
            angle: false,
            no_schema: false,
            snippet: true,
            crop: 64,
        }
    }
}
impl DeOpts {
    #[allow(deprecated)]
    pub fn build(&self) -> Options {
        let mut o = Options::default();
        o.budget = match &self.budget {
            BudgetSel::Default => Some(Budget::default()),
            BudgetSel::None => None,
            BudgetSel::Explicit(b) => Some(b.build()),
        };
        o.duplicate_keys = self.dup.build();
        o.alias_limits = AliasLimits {
            max_total_replayed_events: self.max_total_replayed_events,
            max_replay_stack_depth: self.max_replay_stack_depth,
            max_alias_expansions_per_anchor: self.max_alias_expansions_per_anchor,
        };
        o.legacy_octal_numbers = self.legacy_octal;
        o.strict_booleans = self.strict_bool;
        o.ignore_binary_tag_for_string = self.ignore_binary;
        o.angle_conversions = self.angle;
        o.no_schema = self.no_schema;
        o.with_snippet = self.snippet;
        o.crop_radius = self.crop;
        o
    }
    pub fn with_dup(dup: Dup) -> DeOpts {
        DeOpts { dup, ..DeOpts::default() }
    }
}
